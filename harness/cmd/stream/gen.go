// gen.go: case generators. Every random choice derives from the one seeded PRNG.
package main

import (
	"encoding/binary"
	"fmt"
	"sort"
	"strings"

	"github.com/youzan/ZanRedisDB/raft/raftpb"
	"verif/harness/internal/hx"
)

const mib = 1 << 20

var edgeU64 = []uint64{0, 1, 2, 127, 128, 255, 256, 16383, 16384, 1<<31 - 1, 1 << 31, 1<<32 - 1, 1 << 32, 1<<63 - 1, 1 << 63, 1<<64 - 2, 1<<64 - 1}

func genU64(r *hx.Rng) uint64 {
	switch r.Pick(10) {
	case 0:
		return edgeU64[r.Pick(len(edgeU64))]
	case 1:
		return r.Uint64()
	case 2:
		return uint64(r.Pick(1 << 20))
	default:
		return uint64(r.Pick(40))
	}
}

func genI32(r *hx.Rng) int32 {
	switch r.Pick(8) {
	case 0:
		return int32(r.Uint32())
	case 1:
		return -1 - int32(r.Pick(3))
	case 2:
		return []int32{1<<31 - 1, -1 << 31}[r.Pick(2)]
	default:
		return int32(r.Pick(3))
	}
}

func genData(r *hx.Rng) []byte {
	switch r.Pick(8) {
	case 0:
		return nil
	case 1:
		return []byte{}
	case 2:
		return bytesOf(byte(r.Pick(256)), 16+r.Pick(300))
	case 3:
		return r.Bytes(100+r.Pick(200), nil)
	default:
		return r.Bytes(1+r.Pick(24), nil)
	}
}

func bytesOf(b byte, n int) []byte {
	d := make([]byte, n)
	for i := range d {
		d[i] = b
	}
	return d
}

func genEntry(r *hx.Rng, term, index uint64) raftpb.Entry {
	e := raftpb.Entry{Term: term, Index: index, Data: genData(r)}
	if r.Chance(0.2) {
		e.Type = raftpb.EntryConfChange
	}
	if r.Chance(0.05) {
		e.Type = raftpb.EntryType(genI32(r))
	}
	if r.Chance(0.6) {
		e.ID = genU64(r)
	}
	if r.Chance(0.3) {
		e.DataType = genI32(r)
	}
	if r.Chance(0.5) {
		e.Timestamp = int64(genU64(r))
	}
	return e
}

// entryOfSize builds an entry whose protobuf Size() is exactly target (data is one repeated byte).
func entryOfSize(r *hx.Rng, term, index uint64, target int) raftpb.Entry {
	e := raftpb.Entry{Term: term, Index: index, ID: uint64(r.Pick(1000)), Data: []byte{}}
	fill := byte(r.Pick(256))
	for l := target - 40; l <= target; l++ {
		if l < 0 {
			continue
		}
		e.Data = make([]byte, l)
		if e.Size() == target {
			for i := range e.Data {
				e.Data[i] = fill
			}
			return e
		}
	}
	panic(fmt.Sprintf("no entry of size %d", target))
}

func genName(r *hx.Rng, gid uint64, part int) string {
	switch r.Pick(6) {
	case 0:
		return ""
	case 1:
		return string(r.Bytes(1+r.Pick(6), nil)) // arbitrary bytes: Go strings are byte strings
	default:
		return fmt.Sprintf("ns%d-%d", gid, part)
	}
}

type gstate struct {
	from, to   raftpb.Group
	term, last uint64
	commit     uint64
}

func genGroups(r *hx.Rng, local, remote uint64, n int) []*gstate {
	gs := make([]*gstate, n)
	for i := range gs {
		gid := uint64(1 + r.Pick(5))
		part := r.Pick(4)
		name := genName(r, gid, part)
		g := &gstate{
			from: raftpb.Group{NodeId: remote, Name: name, GroupId: gid, RaftReplicaId: genU64(r) | 1},
			to:   raftpb.Group{NodeId: local, Name: name, GroupId: gid, RaftReplicaId: genU64(r) | 1},
			term: 1 + uint64(r.Pick(4)), last: uint64(r.Pick(30)),
		}
		if r.Chance(0.1) {
			g.term = genU64(r) | 1
		}
		if r.Chance(0.1) {
			g.last = ^uint64(0) - uint64(r.Pick(4)) // the encoder's index++ wraps
		}
		gs[i] = g
	}
	return gs
}

func (g *gstate) app(r *hx.Rng, index, logTerm uint64, nent int, mkEntry func(term, idx uint64) raftpb.Entry) raftpb.Message {
	m := raftpb.Message{Type: raftpb.MsgApp, From: g.from.RaftReplicaId, To: g.to.RaftReplicaId, Term: g.term, LogTerm: logTerm,
		Index: index, Commit: g.commit, FromGroup: g.from, ToGroup: g.to}
	for i := 0; i < nent; i++ {
		m.Entries = append(m.Entries, mkEntry(g.term, index+uint64(i)+1))
	}
	return m
}

// genV2Seq: appends of 1-4 raft groups interleaved on one stream (replicate phase: consecutive, so the
// compact form applies; probe phase: index/logterm jump back), term changes, link heartbeats; with
// noise > 0 also messages raft.send / peer.pick would never put on this stream.
func genV2Seq(r *hx.Rng, noise float64, maxSteps int) (local, remote uint64, ms []raftpb.Message) {
	local, remote = uint64(1+r.Pick(5)), uint64(1+r.Pick(5))
	if r.Chance(0.1) {
		local, remote = genU64(r), genU64(r)
	}
	gs := genGroups(r, local, remote, 1+r.Pick(4))
	cur := gs[0]
	steps := 1 + r.Pick(maxSteps)
	mk := func(term, idx uint64) raftpb.Entry { return genEntry(r, term, idx) }
	for s := 0; s < steps; s++ {
		if !r.Chance(0.6) {
			cur = gs[r.Pick(len(gs))]
		}
		g := cur
		if r.Chance(0.3) {
			g.commit = g.last - uint64(r.Pick(3))
		}
		var m raftpb.Message
		switch p := r.Pick(100); {
		case p < 55: // replicate
			k := r.Pick(4)
			m = g.app(r, g.last, g.term, k, mk)
			g.last += uint64(k)
		case p < 70: // probe
			idx := g.last - uint64(r.Pick(5))
			lt := g.term - uint64(r.Pick(2))
			k := r.Pick(3)
			m = g.app(r, idx, lt, k, mk)
			g.last = idx + uint64(k)
		case p < 80: // new term, first append carries the previous term as logterm
			g.term++
			k := r.Pick(2)
			m = g.app(r, g.last, g.term-1, k, mk)
			g.last += uint64(k)
		case p < 90:
			m = raftpb.Message{Type: raftpb.MsgHeartbeat}
		default:
			m = g.app(r, g.last, g.term, 0, mk)
		}
		if r.Chance(noise) {
			switch r.Pick(12) {
			case 0:
				m.From++
			case 1:
				m.To = genU64(r)
			case 2:
				m.FromGroup.Name += "x"
			case 3:
				m.ToGroup.Name = ""
			case 4:
				m.Context = r.Bytes(r.Pick(4), nil)
			case 5:
				m.Type = raftpb.MessageType(r.Pick(19))
			case 6:
				m.Reject = true
			case 7:
				m.RejectHint = genU64(r)
			case 8:
				m.Snapshot.Metadata.Index = genU64(r)
			case 9:
				m.FromGroup.NodeId++
			case 10:
				m = raftpb.Message{Type: raftpb.MsgHeartbeat, Commit: genU64(r), Term: uint64(r.Pick(3))}
			case 11:
				m = genAnyMsg(r)
			}
		}
		ms = append(ms, m)
	}
	return
}

func genGroup(r *hx.Rng) raftpb.Group {
	if r.Chance(0.15) {
		return raftpb.Group{}
	}
	gid := genU64(r)
	return raftpb.Group{NodeId: genU64(r), Name: genName(r, gid, r.Pick(4)), GroupId: gid, RaftReplicaId: genU64(r)}
}

func genConf(r *hx.Rng) raftpb.ConfState {
	var c raftpb.ConfState
	for i := r.Pick(4); i > 0; i-- {
		c.Nodes = append(c.Nodes, genU64(r))
	}
	for i := r.Pick(3); i > 0; i-- {
		g := genGroup(r)
		c.Groups = append(c.Groups, &g)
	}
	for i := r.Pick(3); i > 0; i-- {
		c.Learners = append(c.Learners, genU64(r))
	}
	for i := r.Pick(3); i > 0; i-- {
		g := genGroup(r)
		c.LearnerGroups = append(c.LearnerGroups, &g)
	}
	return c
}

func genSnap(r *hx.Rng) raftpb.Snapshot {
	return raftpb.Snapshot{Data: genData(r), Metadata: raftpb.SnapshotMetadata{ConfState: genConf(r), Index: genU64(r), Term: genU64(r)}}
}

// genAnyMsg: all message types, arbitrary field values.
func genAnyMsg(r *hx.Rng) raftpb.Message {
	m := raftpb.Message{Type: raftpb.MessageType(r.Pick(19)), To: genU64(r), From: genU64(r), Term: genU64(r), LogTerm: genU64(r),
		Index: genU64(r), Commit: genU64(r), FromGroup: genGroup(r), ToGroup: genGroup(r)}
	if r.Chance(0.05) {
		m.Type = raftpb.MessageType(genI32(r))
	}
	if r.Chance(0.4) {
		m.From, m.To = m.FromGroup.RaftReplicaId, m.ToGroup.RaftReplicaId
	}
	if r.Chance(0.5) {
		for i := r.Pick(4); i > 0; i-- {
			m.Entries = append(m.Entries, genEntry(r, genU64(r), genU64(r)))
		}
	}
	if m.Type == raftpb.MsgSnap || r.Chance(0.15) {
		m.Snapshot = genSnap(r)
	}
	m.Reject = r.Chance(0.3)
	if r.Chance(0.3) {
		m.RejectHint = genU64(r)
	}
	if r.Chance(0.3) {
		m.Context = genData(r)
	}
	return m
}

// boundary cuts: every frame boundary +- 9 bytes; for streams above 64 KiB (where every cut costs a
// pass over megabytes on the model side) only -1, 0, +1, +9 unless -bigcuts=full
func boundaryCuts(bounds []int, n int) string {
	set := map[int]bool{}
	offs := []int{}
	for d := -9; d <= 9; d++ {
		offs = append(offs, d)
	}
	if n > 64*1024 && *bigCuts != "full" {
		offs = []int{-1, 0, 1, 9}
	}
	for _, b := range append([]int{0}, bounds...) {
		for _, d := range offs {
			if k := b + d; k >= 0 && k < n {
				set[k] = true
			}
		}
	}
	ks := make([]int, 0, len(set))
	for k := range set {
		ks = append(ks, k)
	}
	sort.Ints(ks)
	if len(ks) == 0 {
		return "-"
	}
	p := make([]string, len(ks))
	for i, k := range ks {
		p[i] = fmt.Sprint(k)
	}
	return strings.Join(p, ",")
}

// ---------- raw streams: mutations and hand-made protobuf ----------

func be64(v uint64) []byte {
	b := make([]byte, 8)
	binary.BigEndian.PutUint64(b, v)
	return b
}

func varint(v uint64) []byte {
	var b []byte
	for v >= 0x80 {
		b = append(b, byte(v)|0x80)
		v >>= 7
	}
	return append(b, byte(v))
}

// a varint with extra continuation bytes (still decodes to v mod 2^64 if total <= 10 bytes)
func sloppyVarint(r *hx.Rng, v uint64) []byte {
	b := varint(v)
	for extra := r.Pick(3); extra > 0 && len(b) < 10; extra-- {
		b[len(b)-1] |= 0x80
		b = append(b, 0)
	}
	return b
}

// lengths that must never reach a make(): between 4 MiB and the decoder's limit it would really try
// to allocate; everything above is refused (before the fix: panicked in makeslice), everything below is harmless.
var v2Lens = []uint64{0, 1, 2, 7, 8, 9, mib - 1, mib, mib + 1, 512*mib + 1, 1<<48 + 1, 1<<63 - 1, 1 << 63, 1<<64 - 1}
var v2Counts = []uint64{0, 1, 2, 3, 1000, 64*mib + 1, 3909374676395, 1 << 48, 1<<63 - 1, 1 << 63, 1<<64 - 1}

// safeV2 walks a msgappv2 byte stream the way the decoder frames it and reports whether every
// allocation it could request is either small or refused by the decoder's size limit (512 MiB,
// and limit/8 entries per frame).
func safeV2(s []byte) bool {
	const small = 4 * mib
	const limit = 512 * mib
	okAlloc := func(n uint64) bool { return n <= small || n > limit }
	i := 0
	rd := func() (uint64, bool) {
		if i+8 > len(s) {
			i = len(s)
			return 0, false
		}
		v := binary.BigEndian.Uint64(s[i:])
		i += 8
		return v, true
	}
	for i < len(s) {
		t := s[i]
		i++
		switch t {
		case 0:
		case 1:
			l, ok := rd()
			if !ok {
				return true
			}
			if l > limit/8 {
				return true // refused before anything is allocated
			}
			if l*72 > small {
				return false
			}
			for k := uint64(0); k < l; k++ {
				sz, ok := rd()
				if !ok {
					return true
				}
				if !okAlloc(sz) {
					return false
				}
				if sz > uint64(len(s)-i) {
					return true
				}
				i += int(sz)
			}
			if _, ok := rd(); !ok {
				return true
			}
		case 2:
			sz, ok := rd()
			if !ok {
				return true
			}
			if !okAlloc(sz) {
				return false
			}
			if sz > uint64(len(s)-i) {
				return true
			}
			i += int(sz)
		default:
			return true
		}
	}
	return true
}

func safePlain(s []byte) bool {
	i := 0
	for i+8 <= len(s) {
		l := binary.BigEndian.Uint64(s[i:])
		i += 8
		if l > 512*mib {
			return true
		}
		if l > 64*mib && l != 512*mib {
			return false
		}
		if l > uint64(len(s)-i) {
			return true
		}
		i += int(l)
	}
	return true
}

func safeStream(codec string, s []byte) bool {
	if codec == "v2" {
		return safeV2(s)
	}
	return safePlain(s)
}

// field soup: protobuf bytes for one of the raftpb messages with known, unknown, repeated, mistyped fields
func soupField(r *hx.Rng, depth int, kind string) []byte {
	tag := func(num uint64, wt uint64) []byte {
		if r.Chance(0.05) {
			return sloppyVarint(r, num<<3|wt)
		}
		return varint(num<<3 | wt)
	}
	val := func() []byte {
		if r.Chance(0.1) {
			return sloppyVarint(r, genU64(r))
		}
		if r.Chance(0.03) {
			return []byte{0x80, 0x80, 0x80, 0x80, 0x80, 0x80, 0x80, 0x80, 0x80, 0x80, 0x01} // 11 bytes: overflow
		}
		return varint(genU64(r))
	}
	lenDelim := func(b []byte) []byte {
		if r.Chance(0.04) {
			return append(varint(uint64(len(b)+1+r.Pick(3))), b...) // length points past the end
		}
		if r.Chance(0.02) {
			return append(varint([]uint64{1 << 63, 1<<63 - 1, 1<<64 - 1}[r.Pick(3)]), b...)
		}
		return append(varint(uint64(len(b))), b...)
	}
	sub := func(k string) []byte {
		if depth <= 0 {
			return nil
		}
		var b []byte
		for i := r.Pick(5); i > 0; i-- {
			b = append(b, soupField(r, depth-1, k)...)
		}
		return b
	}
	unknown := func() []byte {
		num := uint64(15 + r.Pick(40))
		if r.Chance(0.1) {
			num = 1<<29 + uint64(r.Pick(8)) // int32(wire>>3) is negative or wraps to a known number
		}
		if r.Chance(0.05) {
			num = 0
		}
		switch r.Pick(7) {
		case 0:
			return append(tag(num, 0), val()...)
		case 1:
			return append(tag(num, 1), r.Bytes(8, nil)...)
		case 2:
			return append(tag(num, 2), lenDelim(r.Bytes(r.Pick(6), nil))...)
		case 3: // group with a few inner fields, closed by an end-group tag
			b := tag(num, 3)
			for i := r.Pick(3); i > 0; i-- {
				switch r.Pick(3) {
				case 0:
					b = append(b, append(tag(uint64(1+r.Pick(9)), 0), val()...)...)
				case 1:
					b = append(b, append(tag(uint64(1+r.Pick(9)), 2), lenDelim(r.Bytes(r.Pick(4), nil))...)...)
				default:
					b = append(b, append(tag(uint64(1+r.Pick(9)), 5), r.Bytes(4, nil)...)...)
				}
			}
			if r.Chance(0.2) && depth > 0 {
				b = append(b, append(tag(num+1, 3), tag(num+1, 4)...)...)
			}
			if r.Chance(0.9) {
				b = append(b, tag(num, 4)...)
			}
			return b
		case 4:
			return tag(num, 4)
		case 5:
			return append(tag(num, 5), r.Bytes(4, nil)...)
		default:
			return append(tag(num, uint64(6+r.Pick(2))), r.Bytes(r.Pick(3), nil)...)
		}
	}
	if r.Chance(0.12) {
		return unknown()
	}
	type fd struct {
		num uint64
		wt  uint64
		sub string
	}
	var fds []fd
	switch kind {
	case "message":
		fds = []fd{{1, 0, ""}, {2, 0, ""}, {3, 0, ""}, {4, 0, ""}, {5, 0, ""}, {6, 0, ""}, {7, 2, "entry"}, {8, 0, ""}, {9, 2, "snapshot"},
			{10, 0, ""}, {11, 0, ""}, {12, 2, ""}, {13, 2, "group"}, {14, 2, "group"}}
	case "entry":
		fds = []fd{{1, 0, ""}, {2, 0, ""}, {3, 0, ""}, {4, 2, ""}, {5, 0, ""}, {6, 0, ""}, {7, 0, ""}}
	case "snapshot":
		fds = []fd{{1, 2, ""}, {2, 2, "meta"}}
	case "meta":
		fds = []fd{{1, 2, "conf"}, {2, 0, ""}, {3, 0, ""}}
	case "conf":
		fds = []fd{{1, 0, ""}, {2, 2, "group"}, {3, 0, ""}, {4, 2, "group"}, {1, 2, "packed"}, {3, 2, "packed"}}
	case "group":
		fds = []fd{{1, 0, ""}, {2, 2, ""}, {3, 0, ""}, {4, 0, ""}}
	case "packed":
		return val()
	}
	f := fds[r.Pick(len(fds))]
	wt := f.wt
	if r.Chance(0.04) {
		wt = uint64(r.Pick(6)) // wrong wire type for a known field
	}
	switch wt {
	case 0:
		return append(tag(f.num, 0), val()...)
	case 2:
		var body []byte
		switch f.sub {
		case "":
			body = r.Bytes(r.Pick(8), nil)
		case "packed":
			for i := r.Pick(4); i > 0; i-- {
				body = append(body, val()...)
			}
			if r.Chance(0.1) && len(body) > 0 {
				body[len(body)-1] |= 0x80 // the last packed varint runs past the packed region
			}
		default:
			body = sub(f.sub)
		}
		return append(tag(f.num, 2), lenDelim(body)...)
	case 1:
		return append(tag(f.num, 1), r.Bytes(8, nil)...)
	case 5:
		return append(tag(f.num, 5), r.Bytes(4, nil)...)
	default:
		return tag(f.num, wt)
	}
}

func soup(r *hx.Rng, kind string) []byte {
	var b []byte
	for i := r.Pick(9); i > 0; i-- {
		b = append(b, soupField(r, 3, kind)...)
	}
	return b
}

// mutate a valid stream
func mutate(r *hx.Rng, s []byte) []byte {
	t := append([]byte{}, s...)
	if len(t) == 0 {
		return []byte{byte(r.Pick(256))}
	}
	switch r.Pick(6) {
	case 0:
		i := r.Pick(len(t))
		t[i] ^= 1 << uint(r.Pick(8))
	case 1:
		i := r.Pick(len(t))
		t[i] = byte(r.Pick(256))
	case 2:
		i := r.Pick(len(t) + 1)
		t = append(t[:i], append(r.Bytes(1+r.Pick(3), nil), t[i:]...)...)
	case 3:
		i := r.Pick(len(t))
		j := i + 1 + r.Pick(3)
		if j > len(t) {
			j = len(t)
		}
		t = append(t[:i], t[j:]...)
	case 4:
		t = t[:r.Pick(len(t))]
	default:
		i := r.Pick(len(t))
		t[i] = []byte{0, 1, 2, 3, 0x7f, 0x80, 0xff}[r.Pick(7)]
	}
	return t
}

// exhaustive small scope: every sequence of length <= depth over a fixed alphabet of messages chosen so
// that each pair exercises one conjunct of isContinue (index, term/logterm, ToGroup, FromGroup) or the
// heartbeat test, on two raft groups sharing the stream; includes one letter that is not well-formed when
// it continues (group name differs).
func exhaustive(depth int, add func(local, remote uint64, ms []raftpb.Message)) {
	gaF := raftpb.Group{NodeId: 1, Name: "ns-0", GroupId: 7, RaftReplicaId: 11}
	gaT := raftpb.Group{NodeId: 2, Name: "ns-0", GroupId: 7, RaftReplicaId: 12}
	gaT2 := raftpb.Group{NodeId: 2, Name: "ns-0", GroupId: 7, RaftReplicaId: 13}
	gbF := raftpb.Group{NodeId: 1, Name: "ns-1", GroupId: 8, RaftReplicaId: 11}
	gbT := raftpb.Group{NodeId: 2, Name: "ns-1", GroupId: 8, RaftReplicaId: 12}
	gaFx := gaF
	gaFx.Name = "other"
	ent := func(term, idx uint64) raftpb.Entry {
		return raftpb.Entry{Term: term, Index: idx, Data: []byte{byte(idx)}, ID: 100 + idx}
	}
	app := func(f, t raftpb.Group, term, lt, idx uint64, es ...raftpb.Entry) raftpb.Message {
		return raftpb.Message{Type: raftpb.MsgApp, From: f.RaftReplicaId, To: t.RaftReplicaId, Term: term, LogTerm: lt, Index: idx,
			Entries: es, Commit: idx, FromGroup: f, ToGroup: t}
	}
	alphabet := []raftpb.Message{
		app(gaF, gaT, 3, 2, 10, ent(3, 11)),             // A probe: full frame, leaves index 11
		app(gaF, gaT, 3, 3, 11, ent(3, 12)),             // A replicate from 11
		app(gaF, gaT, 3, 3, 11),                         // A empty append at 11
		app(gaF, gaT, 3, 3, 12, ent(3, 13), ent(3, 14)), // A replicate from 12
		app(gbF, gbT, 3, 3, 11, ent(3, 12)),             // B: same index / term, other group
		app(gaF, gaT2, 3, 3, 11, ent(3, 12)),            // same FromGroup, other ToGroup replica
		app(gaFx, gaT, 3, 3, 11, ent(3, 12)),            // same ids, other name
		app(gaF, gaT, 4, 3, 12, ent(4, 13)),             // A new term
		{Type: raftpb.MsgHeartbeat},
	}
	var rec func(prefix []raftpb.Message)
	rec = func(prefix []raftpb.Message) {
		if len(prefix) > 0 {
			add(2, 1, append([]raftpb.Message{}, prefix...))
		}
		if len(prefix) == depth {
			return
		}
		for i := range alphabet {
			rec(append(prefix, alphabet[i]))
		}
	}
	rec(nil)
}

func generate(r *hx.Rng) []*kase {
	var cases []*kase
	id := 0
	add := func(kind, codec string, local, remote uint64, payload, cuts string) {
		id++
		cases = append(cases, &kase{fmt.Sprintf("k%d", id), kind, codec, local, remote, payload, cuts})
	}
	addSeq := func(codec string, local, remote uint64, ms []raftpb.Message, all bool) []byte {
		stream, bounds, _ := encodeAll(codec, ms)
		cuts := boundaryCuts(bounds, len(stream))
		if all {
			cuts = "all"
		}
		add("S", codec, local, remote, fmtMsgs(ms), cuts)
		return stream
	}

	// fixed cases: the empty sequence, a lone heartbeat, the upstream test vector shape
	addSeq("v2", 1, 2, nil, true)
	addSeq("msg", 1, 2, nil, true)
	addSeq("v2", 1, 2, []raftpb.Message{{Type: raftpb.MsgHeartbeat}}, true)
	addSeq("msg", 0, 0, []raftpb.Message{{}}, true)

	exhaustive(*exhDepth, func(local, remote uint64, ms []raftpb.Message) {
		add("S", "v2", local, remote, fmtMsgs(ms), "-")
	})

	// the same alphabet through the REAL streamWriter in queued-batch mode: all messages of the sequence are
	// queued while the writer is still encoding the first one, so its batch loop (one local message variable
	// refilled per message, passed by pointer to the encoder) takes them in a single batch
	exhaustive(*exhQueued, func(local, remote uint64, ms []raftpb.Message) {
		if len(ms) < 2 {
			return
		}
		add("L", "v2q", local, remote, fmtConns([][]raftpb.Message{ms}), "-")
	})
	for i := 0; i < *nLife/2; i++ {
		codec, local, remote, conns := genLife(r)
		if codec == "v2" {
			add("L", "v2q", local, remote, fmtConns(conns), "-")
		}
	}

	var pool [][2]interface{} // (codec, stream) of valid streams, for the mutator
	keep := func(codec string, local, remote uint64, s []byte) {
		if len(pool) < 400 {
			pool = append(pool, [2]interface{}{[3]interface{}{codec, local, remote}, s})
		}
	}

	for i := 0; i < *nSeq; i++ {
		// msgappv2, well-formed by construction (what raft.send + peer.pick produce)
		local, remote, ms := genV2Seq(r, 0, 12)
		keep("v2", local, remote, addSeq("v2", local, remote, ms, i < *nAll))
		// msgappv2 with messages the stream never carries in production (correspondence only)
		local, remote, ms = genV2Seq(r, 0.25, 8)
		if r.Chance(0.15) {
			local++ // decoder on the wrong node
		}
		addSeq("v2", local, remote, ms, false)
		// plain codec, all message types
		var pm []raftpb.Message
		for k := r.Pick(5); k >= 0; k-- {
			pm = append(pm, genAnyMsg(r))
		}
		codec := "msg"
		if r.Chance(0.3) {
			codec = "bare"
		}
		keep(codec, 0, 0, addSeq(codec, genU64(r), genU64(r), pm, i < *nAll/2))
		// the v2 codec on arbitrary messages (it sends whatever it is given in a full frame)
		if i%4 == 0 {
			l, rm := genU64(r), genU64(r)
			addSeq("v2", l, rm, pm, false)
		}
	}

	// entries and messages around the 1 MiB buffers
	sizes := []int{mib - 1, mib, mib + 1}
	for i := 0; i < *nBig; i++ {
		local, remote := uint64(1+r.Pick(3)), uint64(4+r.Pick(3))
		g := genGroups(r, local, remote, 1)[0]
		g.last = uint64(r.Pick(100))
		first := g.app(r, g.last, g.term, 1, func(t, ix uint64) raftpb.Entry { return genEntry(r, t, ix) })
		g.last++
		// compact frame with entries of size 2^20-1, 2^20, 2^20+1 (in a seed-dependent order) and small ones between
		var ents []raftpb.Entry
		perm := r.Perm(3)
		for _, p := range perm[:3-i%3] { // the first iteration carries all three sizes
			ents = append(ents, entryOfSize(r, g.term, g.last+uint64(len(ents))+1, sizes[p]))
			if r.Chance(0.5) {
				ents = append(ents, genEntry(r, g.term, g.last+uint64(len(ents))+1))
			}
		}
		second := g.app(r, g.last, g.term, 0, nil)
		second.Entries = ents
		g.last += uint64(len(ents))
		third := g.app(r, g.last, g.term, 1, func(t, ix uint64) raftpb.Entry { return genEntry(r, t, ix) })
		// ... and re-sends stepping back by 1, 2, 3 entries behind the big frame (the leader probing again): each
		// must go out as a full frame because the cursor advanced over EVERY entry of the compact frame
		seq := []raftpb.Message{first, second}
		for k := uint64(1); k <= 3 && k <= uint64(len(ents)); k++ {
			seq = append(seq, g.app(r, g.last-k, g.term, 0, nil))
		}
		seq = append(seq, third)
		addSeq("v2", local, remote, seq, false)

		// full MsgApp frame whose Message.Size() is exactly 2^20-1 / 2^20 / 2^20+1
		target := sizes[r.Pick(3)]
		full := g.app(r, g.last+7, g.term-1, 1, func(t, ix uint64) raftpb.Entry { return raftpb.Entry{Term: t, Index: ix, Data: []byte{}} })
		for l := target - 600; l <= target; l++ {
			full.Entries[0].Data = make([]byte, l)
			if full.Size() == target {
				break
			}
		}
		if full.Size() != target {
			panic("no message of the target size")
		}
		fb := byte(r.Pick(256))
		for k := range full.Entries[0].Data {
			full.Entries[0].Data[k] = fb
		}
		addSeq("v2", local, remote, []raftpb.Message{full, third}, false)
		// two groups and the size boundary together: A in full, then a non-continuing append of ANOTHER group that is
		// larger than the encoder's 1 MiB scratch buffer (sent through the Marshal branch), then A's direct
		// continuation: the cursor must be B's by then, so A goes out in full again
		gb := genGroups(r, local, remote, 1)[0]
		for sameIDs(&gb.from, &g.from) || sameIDs(&gb.to, &g.to) {
			gb = genGroups(r, local, remote, 1)[0]
		}
		a1 := g.app(r, 40, g.term, 1, func(t, ix uint64) raftpb.Entry { return genEntry(r, t, ix) })
		a2 := g.app(r, 41, g.term, 1, func(t, ix uint64) raftpb.Entry { return genEntry(r, t, ix) })
		bbig := gb.app(r, gb.last, gb.term, 1, func(t, ix uint64) raftpb.Entry { return raftpb.Entry{Term: t, Index: ix, Data: []byte{}} })
		for l := mib + 1 - 600; l <= mib+1; l++ {
			bbig.Entries[0].Data = make([]byte, l)
			if bbig.Size() == mib+1 {
				break
			}
		}
		if bbig.Size() != mib+1 {
			panic("no message of size 2^20+1")
		}
		for k := range bbig.Entries[0].Data {
			bbig.Entries[0].Data[k] = fb
		}
		addSeq("v2", local, remote, []raftpb.Message{a1, bbig, a2}, false)
		codec := []string{"msg", "bare"}[r.Pick(2)]
		addSeq(codec, local, remote, []raftpb.Message{third, full, first}, false)
	}

	// connection lifecycle through the real streamWriter
	for i := 0; i < *nLife; i++ {
		codec, local, remote, conns := genLife(r)
		add("L", codec, local, remote, fmtConns(conns), "-")
	}

	// a burst longer than the writer's flush batch (streamBufSize/2 = 8192 messages are encoded between two
	// flushes): one replicate-phase run of 8500 appends, then a re-dial and 300 more
	for i := 0; i < *nBurst; i++ {
		local, remote := uint64(2), uint64(1)
		gst := genGroups(r, local, remote, 1)[0]
		gst.last = uint64(r.Pick(1000))
		var ms []raftpb.Message
		for k := 0; k < 8800; k++ {
			n := r.Pick(2)
			ms = append(ms, gst.app(r, gst.last, gst.term, n, func(t, ix uint64) raftpb.Entry {
				return raftpb.Entry{Term: t, Index: ix, Data: []byte{byte(ix)}}
			}))
			gst.last += uint64(n)
		}
		add("L", "v2", local, remote, fmtConns([][]raftpb.Message{ms[:8500], ms[8500:]}), "-")
	}

	// two real transports over loopback HTTP
	for i := 0; i < *nSlow; i++ {
		local, remote, phases := genSlow(r)
		add("T", "v2slow", local, remote, fmtConns(phases), "-")
	}
	for i := 0; i < *nNet; i++ {
		codec, local, remote, phases, db := genNet(r)
		add("T", codec, local, remote, fmtConns(phases), db)
	}

	// the pipeline / snapshot handlers on bodies that end early
	for i := 0; i < *nHand; i++ {
		kind := []string{"pipe", "snap"}[i%2]
		local, remote, hm, db, cuts := genHandler(r, kind)
		add("H", kind, local, remote, fmtMsgs([]raftpb.Message{hm}), db+" "+cuts)
	}

	// raw streams
	for i := 0; i < *nRaw; i++ {
		var codec string
		var local, remote uint64
		var s []byte
		switch r.Pick(10) {
		case 0, 1, 2, 3: // mutation of a valid stream
			p := pool[r.Pick(len(pool))]
			k := p[0].([3]interface{})
			codec, local, remote = k[0].(string), k[1].(uint64), k[2].(uint64)
			s = mutate(r, p[1].([]byte))
			if r.Chance(0.3) {
				s = mutate(r, s)
			}
		case 4, 5: // plain frames around hand-made protobuf
			codec = []string{"msg", "bare"}[r.Pick(2)]
			for k := 1 + r.Pick(3); k > 0; k-- {
				b := soup(r, "message")
				s = append(s, be64(uint64(len(b)))...)
				s = append(s, b...)
			}
		case 6, 7: // v2 full frames around hand-made protobuf, then possibly a compact frame
			codec, local, remote = "v2", uint64(1+r.Pick(3)), uint64(1+r.Pick(3))
			for k := 1 + r.Pick(3); k > 0; k-- {
				if r.Chance(0.7) {
					b := soup(r, "message")
					s = append(s, 2)
					s = append(s, be64(uint64(len(b)))...)
					s = append(s, b...)
				} else {
					n := r.Pick(3)
					s = append(s, 1)
					s = append(s, be64(uint64(n))...)
					for ; n > 0; n-- {
						b := soup(r, "entry")
						s = append(s, be64(uint64(len(b)))...)
						s = append(s, b...)
					}
					s = append(s, be64(genU64(r))...)
				}
			}
		case 8: // odd length prefixes
			codec, local, remote = "v2", 0, 0
			switch r.Pick(3) {
			case 0:
				s = append([]byte{2}, be64(v2Lens[r.Pick(len(v2Lens))])...)
			case 1:
				s = append([]byte{1}, be64(v2Counts[r.Pick(len(v2Counts))])...)
			default:
				s = append(append([]byte{1}, be64(1)...), be64(v2Lens[r.Pick(len(v2Lens))])...)
			}
			s = append(s, r.Bytes(r.Pick(12), nil)...)
		default:
			codec = []string{"msg", "bare", "v2"}[r.Pick(3)]
			if codec == "v2" {
				s = r.Bytes(r.Pick(30), []byte{0, 0, 1, 2, 2, 3, 0xff})
			} else {
				s = append(be64([]uint64{0, 1, 5, 512 * mib, 512*mib + 1, 1 << 63, 1<<64 - 1}[r.Pick(7)]), r.Bytes(r.Pick(12), nil)...)
				if r.Chance(0.9) && len(s) >= 8 && binary.BigEndian.Uint64(s) == 512*mib {
					s[7] = 1 // keep the one 512 MiB request rare
				}
			}
		}
		if !safeStream(codec, s) {
			continue
		}
		cuts := "-"
		if len(s) <= 200 && r.Chance(0.5) {
			cuts = "all"
		}
		add("R", codec, local, remote, fmtBytes(s, false), cuts)
	}
	return cases
}
