// tree.go: the text format shared by the Go harness and the OCaml model driver.
//
//	number : lower-case hex                      (uint64; int32/int64 fields travel as their
//	                                              two's-complement bit pattern, 32 / 64 bits)
//	bytes  : "~" (nil / field absent) | "b" seg.seg...  ("b" alone = present and empty)
//	         seg = hex pairs | HH^<decimal count>  (canonical: a maximal run of >= 16 equal bytes
//	                                                 is one run segment, everything else literal)
//	list   : "(" item item ... ")"
//
//	group    = (node_id name group_id raft_replica_id)
//	entry    = (type term index data id data_type timestamp)
//	conf     = ((nodes) (groups) (learners) (learner_groups))
//	snapshot = (data (conf index term))
//	message  = (type to from term logterm index (entries) commit snapshot reject rejecthint context from_group to_group)
package main

import (
	"fmt"
	"strconv"
	"strings"

	"github.com/youzan/ZanRedisDB/raft/raftpb"
)

const rleMin = 16

func fmtBytes(b []byte, isNil bool) string {
	if isNil {
		return "~"
	}
	var sb strings.Builder
	sb.WriteByte('b')
	first := true
	lit := false // currently inside a literal segment
	i := 0
	for i < len(b) {
		j := i
		for j < len(b) && b[j] == b[i] {
			j++
		}
		if j-i >= rleMin {
			if !first {
				sb.WriteByte('.')
			}
			fmt.Fprintf(&sb, "%02x^%d", b[i], j-i)
			first = false
			lit = false
		} else {
			if !lit {
				if !first {
					sb.WriteByte('.')
				}
				lit = true
				first = false
			}
			for k := i; k < j; k++ {
				fmt.Fprintf(&sb, "%02x", b[k])
			}
		}
		i = j
	}
	return sb.String()
}

func parseBytes(s string) (b []byte, isNil bool) {
	if s == "~" {
		return nil, true
	}
	if len(s) == 0 || s[0] != 'b' {
		panic("bad bytes token: " + s)
	}
	b = []byte{}
	s = s[1:]
	if s == "" {
		return b, false
	}
	for _, seg := range strings.Split(s, ".") {
		if i := strings.IndexByte(seg, '^'); i >= 0 {
			v, err := strconv.ParseUint(seg[:i], 16, 8)
			if err != nil {
				panic(err)
			}
			n, err := strconv.Atoi(seg[i+1:])
			if err != nil {
				panic(err)
			}
			for k := 0; k < n; k++ {
				b = append(b, byte(v))
			}
		} else {
			for k := 0; k+1 < len(seg); k += 2 {
				v, err := strconv.ParseUint(seg[k:k+2], 16, 8)
				if err != nil {
					panic(err)
				}
				b = append(b, byte(v))
			}
		}
	}
	return b, false
}

func hexu(v uint64) string { return strconv.FormatUint(v, 16) }

func fmtGroup(g *raftpb.Group) string {
	return "(" + hexu(g.NodeId) + " " + fmtBytes([]byte(g.Name), false) + " " + hexu(g.GroupId) + " " + hexu(g.RaftReplicaId) + ")"
}

func fmtEntry(e *raftpb.Entry) string {
	return "(" + hexu(uint64(uint32(e.Type))) + " " + hexu(e.Term) + " " + hexu(e.Index) + " " + fmtBytes(e.Data, e.Data == nil) + " " +
		hexu(e.ID) + " " + hexu(uint64(uint32(e.DataType))) + " " + hexu(uint64(e.Timestamp)) + ")"
}

func fmtNums(l []uint64) string {
	p := make([]string, len(l))
	for i, v := range l {
		p[i] = hexu(v)
	}
	return "(" + strings.Join(p, " ") + ")"
}

func fmtGroups(l []*raftpb.Group) string {
	p := make([]string, len(l))
	for i, g := range l {
		if g == nil {
			p[i] = "nil"
		} else {
			p[i] = fmtGroup(g)
		}
	}
	return "(" + strings.Join(p, " ") + ")"
}

func fmtSnap(s *raftpb.Snapshot) string {
	c := &s.Metadata.ConfState
	return "(" + fmtBytes(s.Data, s.Data == nil) + " ((" + fmtNums(c.Nodes) + " " + fmtGroups(c.Groups) + " " + fmtNums(c.Learners) + " " +
		fmtGroups(c.LearnerGroups) + ") " + hexu(s.Metadata.Index) + " " + hexu(s.Metadata.Term) + "))"
}

func fmtMsg(m *raftpb.Message) string {
	es := make([]string, len(m.Entries))
	for i := range m.Entries {
		es[i] = fmtEntry(&m.Entries[i])
	}
	rej := "0"
	if m.Reject {
		rej = "1"
	}
	return "(" + hexu(uint64(uint32(m.Type))) + " " + hexu(m.To) + " " + hexu(m.From) + " " + hexu(m.Term) + " " + hexu(m.LogTerm) + " " +
		hexu(m.Index) + " (" + strings.Join(es, " ") + ") " + hexu(m.Commit) + " " + fmtSnap(&m.Snapshot) + " " + rej + " " +
		hexu(m.RejectHint) + " " + fmtBytes(m.Context, m.Context == nil) + " " + fmtGroup(&m.FromGroup) + " " + fmtGroup(&m.ToGroup) + ")"
}

func fmtMsgs(ms []raftpb.Message) string {
	p := make([]string, len(ms))
	for i := range ms {
		p[i] = fmtMsg(&ms[i])
	}
	return "(" + strings.Join(p, " ") + ")"
}

// ---- parsing (for -replay and the corpus) ----

type node struct {
	atom string
	kids []*node
	list bool
}

func parseTree(s string) *node {
	toks := tokenize(s)
	pos := 0
	var rec func() *node
	rec = func() *node {
		if pos >= len(toks) {
			panic("tree: unexpected end")
		}
		t := toks[pos]
		pos++
		if t == "(" {
			n := &node{list: true}
			for {
				if pos >= len(toks) {
					panic("tree: missing )")
				}
				if toks[pos] == ")" {
					pos++
					return n
				}
				n.kids = append(n.kids, rec())
			}
		}
		if t == ")" {
			panic("tree: unexpected )")
		}
		return &node{atom: t}
	}
	n := rec()
	if pos != len(toks) {
		panic("tree: trailing tokens")
	}
	return n
}

func tokenize(s string) []string {
	var toks []string
	i := 0
	for i < len(s) {
		c := s[i]
		switch {
		case c == ' ':
			i++
		case c == '(' || c == ')':
			toks = append(toks, string(c))
			i++
		default:
			j := i
			for j < len(s) && s[j] != ' ' && s[j] != '(' && s[j] != ')' {
				j++
			}
			toks = append(toks, s[i:j])
			i = j
		}
	}
	return toks
}

func (n *node) num() uint64 {
	v, err := strconv.ParseUint(n.atom, 16, 64)
	if err != nil {
		panic("bad number " + n.atom)
	}
	return v
}

func (n *node) group() raftpb.Group {
	b, _ := parseBytes(n.kids[1].atom)
	return raftpb.Group{NodeId: n.kids[0].num(), Name: string(b), GroupId: n.kids[2].num(), RaftReplicaId: n.kids[3].num()}
}

func (n *node) entry() raftpb.Entry {
	k := n.kids
	d, isNil := parseBytes(k[3].atom)
	if isNil {
		d = nil
	}
	return raftpb.Entry{Type: raftpb.EntryType(int32(uint32(k[0].num()))), Term: k[1].num(), Index: k[2].num(), Data: d,
		ID: k[4].num(), DataType: int32(uint32(k[5].num())), Timestamp: int64(k[6].num())}
}

func (n *node) nums() []uint64 {
	var l []uint64
	for _, k := range n.kids {
		l = append(l, k.num())
	}
	return l
}

func (n *node) groups() []*raftpb.Group {
	var l []*raftpb.Group
	for _, k := range n.kids {
		g := k.group()
		l = append(l, &g)
	}
	return l
}

func (n *node) snap() raftpb.Snapshot {
	d, isNil := parseBytes(n.kids[0].atom)
	if isNil {
		d = nil
	}
	md := n.kids[1]
	c := md.kids[0]
	return raftpb.Snapshot{Data: d, Metadata: raftpb.SnapshotMetadata{
		ConfState: raftpb.ConfState{Nodes: c.kids[0].nums(), Groups: c.kids[1].groups(), Learners: c.kids[2].nums(), LearnerGroups: c.kids[3].groups()},
		Index:     md.kids[1].num(), Term: md.kids[2].num()}}
}

func (n *node) msg() raftpb.Message {
	k := n.kids
	var es []raftpb.Entry
	for _, e := range k[6].kids {
		es = append(es, e.entry())
	}
	ctx, isNil := parseBytes(k[11].atom)
	if isNil {
		ctx = nil
	}
	return raftpb.Message{Type: raftpb.MessageType(int32(uint32(k[0].num()))), To: k[1].num(), From: k[2].num(), Term: k[3].num(),
		LogTerm: k[4].num(), Index: k[5].num(), Entries: es, Commit: k[7].num(), Snapshot: k[8].snap(), Reject: k[9].num() != 0,
		RejectHint: k[10].num(), Context: ctx, FromGroup: k[12].group(), ToGroup: k[13].group()}
}

func parseMsgs(s string) []raftpb.Message {
	n := parseTree(s)
	var ms []raftpb.Message
	for _, k := range n.kids {
		ms = append(ms, k.msg())
	}
	return ms
}
