// life.go: connection lifecycle cases. A peer stream is a sequence of connections; for every connection
// streamWriter.run builds a fresh encoder and streamReader.decodeLoop a fresh decoder. These cases drive
// the REAL streamWriter (startStreamWriter / attach / writec, through transport/rafthttp/stream_verif.go):
// connections are attached one after the other, each carries its share of a message sequence, the bytes
// every connection received are decoded with a fresh real decoder.
//
//	id L <codec> <local> <remote> ((msgs of connection 0) (msgs of connection 1) ...) -
//
// codec v2q = msgappv2 in QUEUED-BATCH mode: the first Write of every connection is held until all messages of
// the connection are queued, so the writer's batch loop encodes them in one batch.
//
// Output: wf=<0|1> | dec=<msgs> err=<class> | dec=... (one group per connection; link heartbeats, which the
// writer inserts on its own timer and the reader loop drops, are filtered out).
package main

import (
	"bytes"
	"fmt"
	"strings"
	"sync"
	"time"

	"golang.org/x/net/context"

	"github.com/youzan/ZanRedisDB/pkg/types"
	"github.com/youzan/ZanRedisDB/raft"
	"github.com/youzan/ZanRedisDB/raft/raftpb"
	"github.com/youzan/ZanRedisDB/stats"
	"github.com/youzan/ZanRedisDB/transport/rafthttp"
	"verif/harness/internal/hx"
)

type nopRaft struct{}

func (nopRaft) Process(ctx context.Context, m raftpb.Message) error                  { return nil }
func (nopRaft) IsPeerRemoved(id uint64) bool                                         { return false }
func (nopRaft) ReportUnreachable(id uint64, g raftpb.Group)                          {}
func (nopRaft) ReportSnapshot(id uint64, g raftpb.Group, status raft.SnapshotStatus) {}

// recConn is the far end of one connection: it records what the writer sends.
type recConn struct {
	mu     sync.Mutex
	buf    bytes.Buffer
	closed chan struct{}
	once   sync.Once
	// queued-batch mode: the FIRST Write announces itself on entered and waits for gate, so that the harness can
	// queue further messages while the writer goroutine is still inside encode() of the first one; the writer's
	// batch loop then takes all of them in ONE batch (one local message variable refilled per message)
	gate    chan struct{}
	entered chan struct{}
	held    bool
}

func newRecConn() *recConn { return &recConn{closed: make(chan struct{})} }
func (c *recConn) Write(p []byte) (int, error) {
	c.mu.Lock()
	hold := c.gate != nil && !c.held
	c.held = true
	c.mu.Unlock()
	if hold {
		close(c.entered)
		<-c.gate
	}
	c.mu.Lock()
	defer c.mu.Unlock()
	return c.buf.Write(p)
}
func (c *recConn) Flush()       {}
func (c *recConn) Close() error { c.once.Do(func() { close(c.closed) }); return nil }
func (c *recConn) snapshot() []byte {
	c.mu.Lock()
	defer c.mu.Unlock()
	return append([]byte(nil), c.buf.Bytes()...)
}

func parseConns(s string) [][]raftpb.Message {
	n := parseTree(s)
	var out [][]raftpb.Message
	for _, k := range n.kids {
		var ms []raftpb.Message
		for _, mk := range k.kids {
			ms = append(ms, mk.msg())
		}
		out = append(out, ms)
	}
	return out
}

func fmtConns(conns [][]raftpb.Message) string {
	p := make([]string, len(conns))
	for i, ms := range conns {
		p[i] = fmtMsgs(ms)
	}
	return "(" + strings.Join(p, " ") + ")"
}

func dropHeartbeats(ms []string) []string {
	hb := rafthttp.VerifLinkHeartbeat()
	hbs := fmtMsg(&hb)
	var out []string
	for _, m := range ms {
		if m != hbs {
			out = append(out, m)
		}
	}
	return out
}

const lifeDeadline = 30 * time.Second

func runLife(c *kase) string {
	conns := parseConns(c.payload)
	wf := 1
	for _, ms := range conns {
		if !wfSeq(strings.TrimSuffix(c.codec, "q"), c.local, c.remote, ms) {
			wf = 0
		}
	}
	queued := c.codec == "v2q"
	codec := c.codec
	if queued {
		codec = "v2"
	}
	kind := rafthttp.VerifStreamTypeMsgAppV2
	if codec != "v2" {
		kind = rafthttp.VerifStreamTypeMessage
	}
	sw := rafthttp.VerifStartStreamWriter(types.ID(c.local), &stats.PeerStats{}, nopRaft{})
	defer sw.Stop()
	parts := []string{fmt.Sprintf("wf=%d", wf)}
	var prev *recConn
	for _, ms := range conns {
		conn := newRecConn()
		if queued && len(ms) > 1 {
			conn.gate, conn.entered = make(chan struct{}), make(chan struct{})
		}
		if !sw.Attach(kind, conn, conn, conn) {
			return strings.Join(append(parts, "attach-failed"), " | ")
		}
		if prev != nil {
			// the writer closes the connection it had when it takes over the new one
			select {
			case <-prev.closed:
			case <-time.After(lifeDeadline):
				return strings.Join(append(parts, "timeout-switch"), " | ")
			}
		}
		prev = conn
		var wc chan<- raftpb.Message
		start := time.Now()
		for ok := false; !ok; {
			wc, ok = sw.Writec()
			if !ok {
				if time.Since(start) > lifeDeadline {
					return strings.Join(append(parts, "timeout-attach"), " | ")
				}
				time.Sleep(200 * time.Microsecond)
			}
		}
		for i := range ms {
			wc <- ms[i]
			if i == 0 && conn.gate != nil {
				// the writer is now inside encode() of the first message, blocked in Write
				select {
				case <-conn.entered:
				case <-time.After(lifeDeadline):
					close(conn.gate)
					return strings.Join(append(parts, "timeout-hold"), " | ")
				}
			}
		}
		if conn.gate != nil {
			close(conn.gate) // everything else is queued: the writer drains it in the same batch
		}
		// wait until the far end has everything (or the reader fails for good); heartbeat-shaped messages are
		// written as link heartbeats and dropped by the reader
		wantN := 0
		for i := range ms {
			if !(ms[i].Type == raftpb.MsgHeartbeat && ms[i].From == 0 && ms[i].To == 0) {
				wantN++
			}
		}
		var got []string
		var e string
		start = time.Now()
		for {
			all, ee := decodeAll(codec, conn.snapshot(), c.local, c.remote)
			got, e = dropHeartbeats(all), ee
			if len(got) >= wantN || (e != "eof" && e != "ueof") {
				break
			}
			if time.Since(start) > lifeDeadline {
				e = "timeout(" + e + ")"
				break
			}
			time.Sleep(200 * time.Microsecond)
		}
		parts = append(parts, fmt.Sprintf("dec=(%s) err=%s", strings.Join(got, " "), e))
	}
	return strings.Join(parts, " | ")
}

// genLife: a well-formed msgappv2 sequence cut into connections, preferably right before a message that
// the encoder of ONE long connection would send in the compact form (the middle of a replicate-phase run),
// or an arbitrary message sequence on the plain stream cut at random places.
func genLife(r *hx.Rng) (codec string, local, remote uint64, conns [][]raftpb.Message) {
	if r.Chance(0.8) {
		codec = "v2"
		var ms []raftpb.Message
		for len(ms) < 2 {
			var all []raftpb.Message
			local, remote, all = genV2Seq(r, 0, 12)
			ms = ms[:0]
			for _, m := range all {
				if !(m.Type == raftpb.MsgHeartbeat && m.From == 0 && m.To == 0) {
					ms = append(ms, m)
				}
			}
		}
		stream, bounds, _ := encodeAll("v2", ms)
		var compact []int // positions whose frame is compact
		start := 0
		for i, b := range bounds {
			if i > 0 && stream[start] == 1 {
				compact = append(compact, i)
			}
			start = b
		}
		cut := map[int]bool{}
		for k := 1 + r.Pick(3); k > 0; k-- {
			if len(compact) > 0 && r.Chance(0.8) {
				cut[compact[r.Pick(len(compact))]] = true
			} else {
				cut[1+r.Pick(len(ms)-1)] = true
			}
		}
		var cur []raftpb.Message
		for i, m := range ms {
			if cut[i] && len(cur) > 0 {
				conns = append(conns, cur)
				cur = nil
			}
			cur = append(cur, m)
		}
		conns = append(conns, cur)
		return
	}
	codec = "msg"
	local, remote = genU64(r), genU64(r)
	for k := 1 + r.Pick(3); k > 0; k-- {
		var cur []raftpb.Message
		for j := 1 + r.Pick(3); j > 0; j-- {
			m := genAnyMsg(r)
			if m.Type == raftpb.MsgHeartbeat && m.From == 0 && m.To == 0 {
				m.From = 1
			}
			cur = append(cur, m)
		}
		conns = append(conns, cur)
	}
	return
}
