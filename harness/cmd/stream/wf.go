// wf.go: the premise of property C16 evaluated on the INPUT sequence, independently of the model
// (the Coq predicate Stream.Model.v2_seq_ok / plain_seq_ok is compared with this flag by the diff).
//
// Plain codec: every message whose encoding fits the decoder's size limit.
// msgappv2 codec: the stream carries only what peer.pick / raft.send give it, i.e. relative to the
// encoder context {term, index, FromGroup, ToGroup} left by the preceding messages,
//   - a message with Type=MsgHeartbeat, From=0, To=0 is THE link heartbeat (nothing else set);
//   - a message that continues the context (same index, term = logterm = context term, same group ids)
//     is a MsgApp from the context's groups: From/To are the groups' replica ids, group names are the
//     context's, no snapshot, reject, reject hint or context bytes, and the groups' node ids are the two
//     ends of the stream;
//   - any other message is sent in full and is unconstrained;
//   - frames respect the decoder's size limit (readBytesLimit bytes per message / entry,
//     readBytesLimit/8 entries per compact frame).
package main

import (
	"github.com/youzan/ZanRedisDB/raft/raftpb"
	"github.com/youzan/ZanRedisDB/transport/rafthttp"
)

type v2ctx struct {
	term, index uint64
	to, from    raftpb.Group
}

func sameIDs(a, b *raftpb.Group) bool {
	return a.NodeId == b.NodeId && a.GroupId == b.GroupId && a.RaftReplicaId == b.RaftReplicaId
}

func zeroSnap(s *raftpb.Snapshot) bool {
	c := &s.Metadata.ConfState
	return s.Data == nil && s.Metadata.Index == 0 && s.Metadata.Term == 0 &&
		len(c.Nodes) == 0 && len(c.Groups) == 0 && len(c.Learners) == 0 && len(c.LearnerGroups) == 0
}

func wfSeq(codec string, local, remote uint64, ms []raftpb.Message) bool {
	if codec != "v2" {
		for i := range ms {
			if uint64(ms[i].Size()) > rafthttp.VerifReadBytesLimit() {
				return false
			}
		}
		return true
	}
	var st v2ctx
	limit := rafthttp.VerifReadBytesLimit()
	hb := rafthttp.VerifLinkHeartbeat()
	hbs := fmtMsg(&hb)
	for i := range ms {
		m := &ms[i]
		switch {
		case m.Type == raftpb.MsgHeartbeat && m.From == 0 && m.To == 0:
			if fmtMsg(m) != hbs {
				return false
			}
		case st.index == m.Index && st.term == m.LogTerm && m.LogTerm == m.Term && sameIDs(&st.to, &m.ToGroup) && sameIDs(&st.from, &m.FromGroup):
			if !(m.Type == raftpb.MsgApp && m.From == m.FromGroup.RaftReplicaId && m.To == m.ToGroup.RaftReplicaId &&
				m.FromGroup.Name == st.from.Name && m.ToGroup.Name == st.to.Name &&
				zeroSnap(&m.Snapshot) && !m.Reject && m.RejectHint == 0 && m.Context == nil &&
				m.FromGroup.NodeId == remote && m.ToGroup.NodeId == local) {
				return false
			}
			if uint64(len(m.Entries)) > limit/8 {
				return false
			}
			for k := range m.Entries {
				if uint64(m.Entries[k].Size()) > limit {
					return false
				}
			}
			st.index += uint64(len(m.Entries))
		default:
			if uint64(m.Size()) > limit {
				return false
			}
			st.term, st.index, st.to, st.from = m.Term, m.Index, m.ToGroup, m.FromGroup
			if l := len(m.Entries); l > 0 {
				st.index = m.Entries[l-1].Index
			}
		}
	}
	return true
}
