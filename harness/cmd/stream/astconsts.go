// astconsts.go: protobuf field numbers, wire types and tag bytes of the raftpb wire types, read from
// the GENERATED CODE in raft/raftpb/raft.pb.go with go/ast (not from the struct tags, which the
// generated Marshal/Unmarshal do not consult):
//   - Unmarshal: `switch fieldNum { case K: if wireType != W { ... "for field Name" ...` gives
//     fn_<Type>_<Name> = K and wt_<Type>_<Name> = W;
//   - MarshalTo: every `dAtA[i] = 0x..` is a tag byte; the field it belongs to is the m.<Name> the
//     following statements marshal (or the m.<Name> the enclosing range loop iterates over); this
//     gives tg_<Type>_<Name> and, by source order, the order in which MarshalTo emits the fields
//     (checked against the order the model uses).
package main

import (
	"fmt"
	"go/ast"
	"go/parser"
	"go/token"
	"os"
	"path/filepath"
	"regexp"
	"sort"
	"strconv"
	"strings"
)

var pbTypes = []string{"Group", "Entry", "ConfState", "SnapshotMetadata", "Snapshot", "Message"}

// the order in which the model (coq/Stream/Proto.v) marshals the fields of each type
var modelOrder = map[string][]string{
	"Group":            {"NodeId", "Name", "GroupId", "RaftReplicaId"},
	"Entry":            {"Type", "Term", "Index", "Data", "ID", "DataType", "Timestamp"},
	"ConfState":        {"Nodes", "Groups", "Learners", "LearnerGroups"},
	"SnapshotMetadata": {"ConfState", "Index", "Term"},
	"Snapshot":         {"Data", "Metadata"},
	"Message": {"Type", "To", "From", "Term", "LogTerm", "Index", "Entries", "Commit", "Snapshot", "Reject", "RejectHint",
		"Context", "FromGroup", "ToGroup"},
}

func recvType(fd *ast.FuncDecl) string {
	if fd.Recv == nil || len(fd.Recv.List) != 1 {
		return ""
	}
	if st, ok := fd.Recv.List[0].Type.(*ast.StarExpr); ok {
		if id, ok := st.X.(*ast.Ident); ok {
			return id.Name
		}
	}
	return ""
}

// m.<Name> (possibly deeper: m.ConfState.Size) -> Name
func selOfM(e ast.Expr) string {
	se, ok := e.(*ast.SelectorExpr)
	if !ok {
		return ""
	}
	if id, ok := se.X.(*ast.Ident); ok && id.Name == "m" {
		return se.Sel.Name
	}
	return ""
}

var fieldRe = regexp.MustCompile(`for field (\w+)`)

func astConsts() {
	repo := os.Getenv("VERIF_REPO")
	if repo == "" {
		repo = "/repo"
	}
	path := filepath.Join(repo, "raft", "raftpb", "raft.pb.go")
	fset := token.NewFileSet()
	f, err := parser.ParseFile(fset, path, nil, 0)
	if err != nil {
		panic(err)
	}
	want := map[string]bool{}
	for _, t := range pbTypes {
		want[t] = true
	}
	fn := map[string]map[string]int{}
	wt := map[string]map[string]int{}
	tg := map[string]map[string]int{}
	order := map[string][]string{}
	for _, d := range f.Decls {
		fd, ok := d.(*ast.FuncDecl)
		if !ok || !want[recvType(fd)] {
			continue
		}
		typ := recvType(fd)
		switch fd.Name.Name {
		case "Unmarshal":
			fn[typ], wt[typ] = map[string]int{}, map[string]int{}
			ast.Inspect(fd.Body, func(n ast.Node) bool {
				sw, ok := n.(*ast.SwitchStmt)
				if !ok {
					return true
				}
				if id, ok := sw.Tag.(*ast.Ident); !ok || id.Name != "fieldNum" {
					return true
				}
				for _, c := range sw.Body.List {
					cc := c.(*ast.CaseClause)
					if len(cc.List) != 1 {
						continue // default
					}
					k, err := strconv.Atoi(cc.List[0].(*ast.BasicLit).Value)
					if err != nil {
						panic(err)
					}
					name, w := "", -1
					for _, st := range cc.Body {
						ast.Inspect(st, func(x ast.Node) bool {
							switch v := x.(type) {
							case *ast.BasicLit:
								if v.Kind == token.STRING && name == "" {
									if m := fieldRe.FindStringSubmatch(v.Value); m != nil {
										name = m[1]
									}
								}
							case *ast.BinaryExpr:
								if id, ok := v.X.(*ast.Ident); ok && id.Name == "wireType" && w < 0 {
									if lit, ok := v.Y.(*ast.BasicLit); ok {
										w, _ = strconv.Atoi(lit.Value)
									}
								}
							}
							return true
						})
					}
					if name == "" || w < 0 {
						panic(fmt.Sprintf("astconsts: cannot read case %d of %s.Unmarshal", k, typ))
					}
					fn[typ][name], wt[typ][name] = k, w
				}
				return false
			})
		case "MarshalTo":
			tg[typ] = map[string]int{}
			type ev struct {
				pos  token.Pos
				tag  int
				name string
			}
			var tags, sels []ev
			type rng struct {
				lo, hi token.Pos
				name   string
			}
			var rngs []rng
			ast.Inspect(fd.Body, func(n ast.Node) bool {
				switch v := n.(type) {
				case *ast.RangeStmt:
					if nm := selOfM(v.X); nm != "" {
						rngs = append(rngs, rng{v.Pos(), v.End(), nm})
					}
				case *ast.AssignStmt:
					if len(v.Lhs) == 1 && len(v.Rhs) == 1 {
						if ix, ok := v.Lhs[0].(*ast.IndexExpr); ok {
							if id, ok := ix.X.(*ast.Ident); ok && id.Name == "dAtA" {
								if lit, ok := v.Rhs[0].(*ast.BasicLit); ok && strings.HasPrefix(lit.Value, "0x") {
									t, err := strconv.ParseInt(lit.Value, 0, 64)
									if err != nil {
										panic(err)
									}
									tags = append(tags, ev{pos: v.Pos(), tag: int(t)})
								}
							}
						}
					}
				case *ast.SelectorExpr:
					if nm := selOfM(v); nm != "" {
						sels = append(sels, ev{pos: v.Pos(), name: nm})
					}
				}
				return true
			})
			sort.Slice(tags, func(i, j int) bool { return tags[i].pos < tags[j].pos })
			sort.Slice(sels, func(i, j int) bool { return sels[i].pos < sels[j].pos })
			for _, t := range tags {
				name := ""
				for _, r := range rngs {
					if r.lo < t.pos && t.pos < r.hi {
						name = r.name
					}
				}
				if name == "" {
					for _, s := range sels {
						if s.pos > t.pos {
							name = s.name
							break
						}
					}
				}
				if name == "" {
					panic(fmt.Sprintf("astconsts: tag %#x of %s.MarshalTo belongs to no field", t.tag, typ))
				}
				if _, dup := tg[typ][name]; dup {
					panic(fmt.Sprintf("astconsts: two tags for %s.%s", typ, name))
				}
				tg[typ][name] = t.tag
				order[typ] = append(order[typ], name)
			}
		}
	}
	for _, typ := range pbTypes {
		if strings.Join(order[typ], ",") != strings.Join(modelOrder[typ], ",") {
			panic(fmt.Sprintf("astconsts: %s.MarshalTo emits %v, the model marshals %v", typ, order[typ], modelOrder[typ]))
		}
		fmt.Printf("(* %s: MarshalTo order %s *)\n", typ, strings.Join(order[typ], " "))
		for _, name := range modelOrder[typ] {
			k, ok1 := fn[typ][name]
			w, ok2 := wt[typ][name]
			t, ok3 := tg[typ][name]
			if !ok1 || !ok2 || !ok3 {
				panic(fmt.Sprintf("astconsts: %s.%s incomplete", typ, name))
			}
			fmt.Printf("Definition fn_%s_%s : N := %d.\n", typ, name, k)
			fmt.Printf("Definition wt_%s_%s : N := %d.\n", typ, name, w)
			fmt.Printf("Definition tg_%s_%s : N := %d.\n", typ, name, t)
		}
		if len(fn[typ]) != len(modelOrder[typ]) {
			panic(fmt.Sprintf("astconsts: %s.Unmarshal knows %d fields, the model %d", typ, len(fn[typ]), len(modelOrder[typ])))
		}
	}
}
