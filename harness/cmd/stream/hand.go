// hand.go: the receiving HTTP handlers on their own. The pipeline (POST /raft, body = marshalled message) and
// the snapshot path (POST /raft/snapshot, body = message frame + snapshot file, built by the real
// createSnapBody) are fed to the REAL handlers of Transport.Handler() with a request body that ends early:
// cleanly (short=0) or with io.ErrUnexpectedEOF, which is what net/http reports for a body shorter than its
// Content-Length / an unterminated chunked body (short=1).
//
//	id H pipe|snap <local> <remote> (msg) <db|-> k:s,k:s,...
//
// Output per cut: <k>/<s>=rej | <k>/<s>=msg:(..) [db:<bytes>]
package main

import (
	"bytes"
	"fmt"
	"io"
	"io/ioutil"
	"net/http"
	"net/http/httptest"
	"strconv"
	"strings"
	"sync"
	"time"

	"github.com/coreos/etcd/version"
	"github.com/youzan/ZanRedisDB/pkg/pbutil"
	"github.com/youzan/ZanRedisDB/pkg/types"
	"github.com/youzan/ZanRedisDB/raft/raftpb"
	"github.com/youzan/ZanRedisDB/snap"
	"github.com/youzan/ZanRedisDB/transport/rafthttp"
	"verif/harness/internal/hx"
)

// cutReader yields b and then EOF or io.ErrUnexpectedEOF
type cutReader struct {
	r     *bytes.Reader
	short bool
}

func (c *cutReader) Read(p []byte) (int, error) {
	n, err := c.r.Read(p)
	if err == io.EOF && c.short {
		return n, io.ErrUnexpectedEOF
	}
	return n, err
}
func (c *cutReader) Close() error { return nil }

func handlerBody(kind string, m raftpb.Message, db []byte) []byte {
	if kind == "pipe" {
		return pbutil.MustMarshal(&m)
	}
	sm := snap.NewMessage(m, ioutil.NopCloser(bytes.NewReader(db)), int64(len(db)))
	b, err := ioutil.ReadAll(rafthttp.VerifCreateSnapBody(*sm))
	if err != nil {
		panic(err)
	}
	return b
}

func runHandler(c *kase) string {
	ms := parseMsgs(c.payload)
	if len(ms) != 1 {
		return "bad-case"
	}
	p := strings.SplitN(c.cuts, " ", 2)
	var db []byte
	if p[0] != "-" {
		db, _ = parseBytes(p[0])
	}
	body := handlerBody(c.codec, ms[0], db)
	path := rafthttp.RaftPrefix
	if c.codec == "snap" {
		path = rafthttp.RaftSnapshotPrefix
	}
	specs := strings.Split(p[1], ",")
	outs := make([]string, len(specs))
	var wg sync.WaitGroup
	for i, sp := range specs {
		ks := strings.Split(sp, ":")
		k, _ := strconv.Atoi(ks[0])
		if k > len(body) {
			k = len(body)
		}
		short := ks[1] == "1"
		wg.Add(1)
		go func(i, k int, short bool) {
			defer wg.Done()
			rr, sv := &recRaft{}, &memSaver{}
			tr := &rafthttp.Transport{ID: types.ID(c.local), ClusterID: "c16", Raft: rr, Snapshotter: sv}
			req := httptest.NewRequest("POST", path, &cutReader{bytes.NewReader(body[:k]), short})
			req.Header.Set("X-Server-From", types.ID(c.remote).String())
			req.Header.Set("X-Server-Version", version.Version)
			req.Header.Set("X-Min-Cluster-Version", version.MinClusterVersion)
			req.Header.Set("X-Etcd-Cluster-ID", "c16")
			rec := httptest.NewRecorder()
			msg, pan := hx.Recover(func() { tr.Handler().ServeHTTP(rec, req) })
			_ = msg
			res := "rej"
			if pan {
				res = "panic"
			} else if rec.Code == http.StatusNoContent {
				// the snapshot handler hands the message to raft in a goroutine
				start := time.Now()
				for rr.count() == 0 && time.Since(start) < 10*time.Second {
					time.Sleep(200 * time.Microsecond)
				}
			}
			if rr.count() > 0 {
				rr.mu.Lock()
				res = "msg:" + fmtMsg(&rr.got[0])
				rr.mu.Unlock()
				if c.codec == "snap" {
					sv.mu.Lock()
					res += " db:" + fmtBytes(sv.db, false)
					sv.mu.Unlock()
				}
			}
			s := 0
			if short {
				s = 1
			}
			outs[i] = fmt.Sprintf("%d/%d=%s", k, s, res)
		}(i, k, short)
	}
	wg.Wait()
	return strings.Join(outs, " | ")
}

// genHandler: one message for the pipeline or the snapshot path and the places where its body is cut
func genHandler(r *hx.Rng, kind string) (local, remote uint64, m raftpb.Message, db string, cuts string) {
	local, remote = uint64(1+r.Pick(9)), uint64(11+r.Pick(9))
	m = genAnyMsg(r)
	dbb := []byte{}
	if kind == "snap" {
		m.Type = raftpb.MsgSnap
		m.Snapshot = genSnap(r)
		if r.Chance(0.1) {
			m.Type = raftpb.MsgApp // refused: wrong type on the snapshot path
		}
		dbb = genData(r)
		if dbb == nil {
			dbb = []byte{}
		}
	}
	db = fmtBytes(dbb, false)
	body := handlerBody(kind, m, dbb)
	n := len(body)
	frame := n - len(dbb)
	set := map[int]bool{0: true, n: true, frame: true}
	for _, k := range []int{1, 7, 8, 9, frame - 1, frame + 1, n - 1, n / 2, frame / 2} {
		if k >= 0 && k <= n {
			set[k] = true
		}
	}
	for i := 0; i < 3; i++ {
		set[r.Pick(n+1)] = true
	}
	var ks []string
	for k := 0; k <= n; k++ {
		if set[k] {
			ks = append(ks, fmt.Sprintf("%d:0", k), fmt.Sprintf("%d:1", k))
		}
	}
	return local, remote, m, db, strings.Join(ks, ",")
}
