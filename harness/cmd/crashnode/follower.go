package main

// three-replica jobs: a real group of three replicas (static seed nodes, three OS processes); one of the
// followers is killed, the leader goes on, snapshots and compacts its log, and the follower must catch up by an
// incoming snapshot (MsgSnap -> PrepareSnapshot/fetch -> SaveSnap -> RestoreFromSnapshot -> ApplySnapshot).
// The follower is killed at the crash points of that path (and anywhere else), restarted ISOLATED (the raft
// messages of the others dropped) so that what it serves from its own directory can be read, and then healed:
// it has to converge to what the leader serves.

import (
	"encoding/json"
	"fmt"
	"io/ioutil"
	"os"
	"path/filepath"
	"sort"
	"strconv"
	"strings"
	"sync"
	"time"

	"verif/harness/internal/hx"
)

type follJob struct {
	id        int
	seed      int64
	engine    string
	optFsync  bool
	preOps    int
	gapOps    int
	duringOps int
	specs     []string
}

type rnode struct {
	id      int
	ch      *child
	evlog   string
	t0      time.Time
	startMs int64
}

func (n *rnode) alive() bool {
	if n == nil || n.ch == nil {
		return false
	}
	select {
	case <-n.ch.exited:
		return false
	default:
		return true
	}
}

// ctl sends one control line and waits for the answer line with the given prefix
func (n *rnode) ctl(cmd string, prefix string, to time.Duration) (string, bool) {
	if !n.alive() {
		return "", false
	}
	if _, err := fmt.Fprintf(n.ch.stdin, "%s\n", cmd); err != nil {
		return "", false
	}
	deadline := time.After(to)
	for {
		select {
		case l := <-n.ch.lines:
			if strings.HasPrefix(l, prefix) {
				return l, true
			}
		case <-n.ch.exited:
			return "", false
		case <-deadline:
			return "", false
		}
	}
}

type rstatus struct {
	lead    bool
	leader  int
	applied uint64
	commit  uint64
}

func (n *rnode) status() (rstatus, bool) {
	l, ok := n.ctl("STATUS", "STATUS ", 5*time.Second)
	if !ok {
		return rstatus{}, false
	}
	f := strings.Fields(l)
	if len(f) != 5 {
		return rstatus{}, false
	}
	ld, _ := strconv.Atoi(f[2])
	ap, _ := strconv.ParseUint(f[3], 10, 64)
	cm, _ := strconv.ParseUint(f[4], 10, 64)
	return rstatus{lead: f[1] == "1", leader: ld, applied: ap, commit: cm}, true
}

type group struct {
	self  string
	cfg   childCfg
	root  string
	nodes [nReplica + 1]*rnode
	lead  int
	c     *rconn // connection to the leader
	g     *gen
	hist  []OpRec
}

func (gr *group) start(id int, run int, blocked bool, env string) (*rnode, string) {
	cfg := gr.cfg
	cfg.ID = id
	cfg.Blocked = blocked
	evlog := filepath.Join(gr.root, fmt.Sprintf("ev.%d.%d.log", id, run))
	logPath := filepath.Join(gr.root, fmt.Sprintf("child.%d.%d.log", id, run))
	os.Remove(evlog)
	t0 := time.Now()
	ch, err := startChild(gr.self, cfg, evlog, env, logPath)
	if err != nil {
		panic(err)
	}
	n := &rnode{id: id, ch: ch, evlog: evlog, t0: t0}
	gr.nodes[id] = n
	status := ""
	select {
	case l := <-ch.lines:
		status = l
	case <-ch.exited:
		select {
		case l := <-ch.lines:
			status = l
		default:
			status = "exited"
		}
	case <-time.After(150 * time.Second):
		status = "timeout"
	}
	n.startMs = time.Since(t0).Milliseconds()
	return n, status
}

// findLeader polls the replicas that are up until one leads and the others that are up know it
func (gr *group) findLeader(to time.Duration) int {
	deadline := time.Now().Add(to)
	for time.Now().Before(deadline) {
		lead := 0
		okAll := true
		for id := 1; id <= nReplica; id++ {
			n := gr.nodes[id]
			if !n.alive() {
				continue
			}
			st, ok := n.status()
			if !ok {
				okAll = false
				continue
			}
			if st.lead {
				lead = id
			}
		}
		if lead != 0 && okAll {
			return lead
		}
		time.Sleep(50 * time.Millisecond)
	}
	return 0
}

func (gr *group) connect() bool {
	if gr.c != nil {
		gr.c.close()
		gr.c = nil
	}
	l := gr.findLeader(30 * time.Second)
	if l == 0 {
		return false
	}
	gr.lead = l
	c, err := dial(replicaPort(gr.cfg.Base, l), 5*time.Second)
	if err != nil {
		return false
	}
	gr.c = c
	return true
}

// write sends the next generated write to the leader; a refused or unanswered write stays in the history as in doubt
func (gr *group) write() bool {
	op := OpRec{Cmd: gr.g.next()}
	for try := 0; try < 3; try++ {
		if gr.c == nil && !gr.connect() {
			op.Status = "err"
			op.Reply = "no leader"
			gr.hist = append(gr.hist, op)
			return false
		}
		v, isErr, err := gr.c.do(20*time.Second, op.Cmd...)
		if err != nil {
			op.Status = "lost"
			gr.hist = append(gr.hist, op)
			gr.c.close()
			gr.c = nil
			return true
		}
		if isErr {
			op.Status, op.Reply = "err", v
			gr.hist = append(gr.hist, op)
			// the leader may have changed
			gr.c.close()
			gr.c = nil
			return true
		}
		op.Status, op.Reply = "ack", v
		gr.hist = append(gr.hist, op)
		return true
	}
	return false
}

func (gr *group) dumpOf(id int) []string {
	c, err := dial(replicaPort(gr.cfg.Base, id), 5*time.Second)
	if err != nil {
		return []string{"DUMP-ERROR " + err.Error()}
	}
	defer c.close()
	d, err := dumpKeys(c)
	if err != nil {
		return []string{"DUMP-ERROR " + err.Error()}
	}
	return d
}

// dumpKeys reads every key of the generator's key universe directly (a follower does not serve scans: they are
// routed to leaders only). Same line format as dump; a key that does not exist gives no line.
func dumpKeys(c *rconn) ([]string, error) {
	to := 10 * time.Second
	var out []string
	for n := 0; n < nKeys; n++ {
		v, isErr, err := c.do(to, "pfcount", key("p", n))
		if err != nil {
			return nil, err
		}
		if isErr {
			return nil, fmt.Errorf("pfcount: %s", v)
		}
		if v != ":0" {
			out = append(out, fmt.Sprintf("P p%d %s", n, v))
		}
		for _, q := range []struct {
			kind, tag string
			cmd       []string
		}{
			{"i", "K", []string{"get"}}, {"a", "K", []string{"get"}},
			{"l", "L", []string{"lrange", "0", "-1"}}, {"h", "H", []string{"hgetall"}},
			{"s", "S", []string{"smembers"}}, {"z", "Z", []string{"zrange", "0", "-1", "withscores"}},
		} {
			args := append([]string{q.cmd[0], key(q.kind, n)}, q.cmd[1:]...)
			g, isErr, err := c.do(to, args...)
			if err != nil {
				return nil, err
			}
			if isErr {
				return nil, fmt.Errorf("%s: %s", q.cmd[0], g)
			}
			if g == "nil" || g == "[]" {
				continue
			}
			k := fmt.Sprintf("%s%d", q.kind, n)
			switch q.tag {
			case "K", "L":
				out = append(out, q.tag+" "+k+" "+g)
			case "H", "Z":
				out = append(out, q.tag+" "+k+" "+sortPairs(g))
			case "S":
				out = append(out, q.tag+" "+k+" "+sortElems(g))
			}
		}
	}
	sort.Strings(out)
	return out, nil
}

func (gr *group) killAll() {
	for id := 1; id <= nReplica; id++ {
		if gr.nodes[id].alive() {
			gr.nodes[id].ch.kill()
		}
	}
}

// settle waits until the isolated replica has applied everything it knows to be committed
func settle(n *rnode, to time.Duration) (rstatus, bool) {
	deadline := time.Now().Add(to)
	var last rstatus
	stable := 0
	for time.Now().Before(deadline) {
		st, ok := n.status()
		if !ok {
			return st, false
		}
		if st.applied >= st.commit && st.applied == last.applied && st.commit == last.commit {
			stable++
			if stable >= 3 {
				return st, true
			}
		} else {
			stable = 0
		}
		last = st
		time.Sleep(30 * time.Millisecond)
	}
	return last, false
}

func runFollowerJob(self string, job follJob, base int, emit func(RunRec)) {
	r := hx.NewRng(job.seed)
	root, err := ioutil.TempDir("", "verif-crash3-")
	if err != nil {
		panic(err)
	}
	defer os.RemoveAll(root)
	gr := &group{self: self, root: root, g: &gen{r: r, tag: fmt.Sprintf("f%d", job.id)},
		cfg: childCfg{Engine: job.engine, SnapCount: 20, SegSize: 8192, Keep: 2, OptFsync: job.optFsync, Base: base, Root: root}}
	defer gr.killAll()
	run := 0
	newRec := func(spec string) *RunRec {
		return &RunRec{Dir: job.id, Run: run, Engine: job.engine, OptFsync: job.optFsync, Spec: spec, Death: "none", Role: "follower"}
	}
	fail := func(rec *RunRec, what string) {
		rec.Start = what
		emit(*rec)
	}
	// ---- life 0: the whole group starts on empty directories ----
	rec := newRec("X:pre:0")
	for id := 1; id <= nReplica; id++ {
		_, st := gr.start(id, 0, false, "")
		if st != "READY" {
			tl := tailFile(gr.nodes[id].ch.logf, 4000)
			if isEnvFailure(st, tl) {
				fail(rec, "env-failure")
			} else if !positiveEvidence(st, tl) {
				fail(rec, "inconclusive-slow")
			} else {
				rec.Log = tl
				fail(rec, "group-start "+st)
			}
			return
		}
	}
	if !gr.connect() {
		fail(rec, "env-failure no leader")
		return
	}
	victim := 3
	if gr.lead == 3 {
		victim = 2
	}
	F := func() *rnode { return gr.nodes[victim] }
	fdir := replicaDir(root, victim)
	rec.Start = "ready"
	for i := 0; i < job.preOps; i++ {
		gr.write()
	}
	finish := func(rec *RunRec, n *rnode) {
		if _, err := os.Stat(n.evlog); err == nil {
			rec.Events = hx.ReadLines(n.evlog)
		}
		rec.Listing = listingOf(fdir, victim)
		rec.LifeMs = time.Since(n.t0).Milliseconds()
		if len(rec.Events) > 0 && strings.HasPrefix(rec.Events[len(rec.Events)-1], "KILL ") {
			if rec.Start == "ready" {
				rec.Death = "crashpoint"
			} else {
				rec.Death = "startup-crashpoint"
			}
		}
		emit(*rec)
		run++
	}
	F().ch.kill()
	rec.Death = "external"
	finish(rec, F())

	for cyc := 0; cyc <= len(job.specs); cyc++ {
		final := cyc == len(job.specs)
		spec := "final"
		if !final {
			spec = job.specs[cyc]
		}
		// ---- the group goes on without the follower: snapshots, log compaction ----
		for i := 0; i < job.gapOps; i++ {
			gr.write()
		}
		rec := newRec(spec)
		env := ""
		f := strings.Split(spec, ":")
		if f[0] == "S" {
			env = f[1] + ":" + f[2]
		}
		n, st := gr.start(victim, run, true, env)
		if st != "READY" {
			switch {
			case st == "exited" || st == "":
				evs := hx.ReadLines(n.evlog)
				if len(evs) > 0 && strings.HasPrefix(evs[len(evs)-1], "KILL ") {
					rec.Start = "died-at-startup-point"
				} else {
					rec.Start = "FAIL exited"
					rec.Log = tailFile(n.ch.logf, 6000)
					if isEnvFailure("", rec.Log) {
						rec.Start = "env-failure"
					}
				}
			default:
				rec.Start = st
				rec.Log = tailFile(n.ch.logf, 6000)
				if isEnvFailure(st, rec.Log) {
					rec.Start = "env-failure"
				} else if !positiveEvidence(st, rec.Log) {
					// alive, no error in its log, not serving within the budget: a slow machine, not a failed recovery
					rec.Log = "start status: " + st + "\n" + rec.Log
					rec.Start = "inconclusive-slow"
				}
				if n.alive() {
					n.ch.kill()
				}
			}
			if rec.Start == "env-failure" {
				rec.Death = "env-exit"
			}
			finish(rec, n)
			if rec.Start != "died-at-startup-point" && rec.Start != "env-failure" {
				return
			}
			continue
		}
		rec.Start = "ready"
		rec.StartMs = n.startMs
		// ---- what the follower serves from its own directory ----
		stt, ok := settle(n, 60*time.Second)
		if ok {
			// the replay hands the committed entries to the apply loop asynchronously: wait for the commit index
			// the restart read from the WAL
			want := uint64(0)
			for _, e := range hx.ReadLines(n.evlog) {
				f := strings.Fields(e)
				if len(f) == 4 && f[0] == "rc.replay.after" {
					want, _ = strconv.ParseUint(f[3], 10, 64)
				}
			}
			for try := 0; try < 250 && ok && stt.applied < want; try++ {
				time.Sleep(20 * time.Millisecond)
				stt, ok = settle(n, 5*time.Second)
			}
		}
		if ok {
			rec.Applied = stt.applied
			rec.Dump = gr.dumpOf(victim)
			rec.History = append([]OpRec(nil), gr.hist...)
		} else if n.alive() {
			rec.Dump = []string{"DUMP-ERROR not settled"}
		}
		if n.alive() && f[0] == "P" {
			n.ctl(fmt.Sprintf("ARM %s %s %s", f[1], f[2], f[3]), "ARMED", 10*time.Second)
		}
		// ---- heal: it catches up (by an incoming snapshot when the leader has compacted its log) ----
		n.ctl("BLOCK", "BLOCKED", 10*time.Second)
		deadline := time.Now().Add(90 * time.Second)
		rec.Converged = "timeout"
		for time.Now().Before(deadline) {
			if !n.alive() {
				rec.Converged = "died"
				break
			}
			fs, ok1 := n.status()
			ls, ok2 := gr.nodes[gr.lead].status()
			if ok1 && ok2 && ls.lead && fs.applied >= ls.commit && ls.applied >= ls.commit {
				rec.Converged = "yes"
				break
			}
			if ok2 && !ls.lead {
				gr.connect()
			}
			time.Sleep(20 * time.Millisecond)
		}
		if rec.Converged == "yes" {
			rec.ConvDump = gr.dumpOf(victim)
			rec.LeadDump = gr.dumpOf(gr.lead)
			rec.Ops = append([]OpRec(nil), gr.hist...)
		}
		if final {
			if n.alive() {
				n.ch.kill()
			}
			rec.Death = "external"
			finish(rec, n)
			return
		}
		// ---- writes with the follower up ----
		extAfter := -1
		if f[0] == "X" {
			extAfter, _ = strconv.Atoi(f[1])
		}
		for i := 0; i < job.duringOps && n.alive(); i++ {
			if i == extAfter {
				q, _ := strconv.Atoi(f[2])
				go func(us int) {
					time.Sleep(time.Duration(us) * time.Microsecond)
					n.ch.cmd.Process.Kill()
				}(q * 250)
			}
			gr.write()
		}
		if n.alive() && !n.ch.waitExit(1500*time.Millisecond) {
			n.ch.kill()
		}
		rec.Death = "external"
		finish(rec, n)
	}
}

func runFollowerParent(pc parentCfg) {
	self, err := os.Executable()
	if err != nil {
		panic(err)
	}
	os.MkdirAll(pc.Out, 0755)
	tf, err := os.Create(filepath.Join(pc.Out, "trace.jsonl"))
	if err != nil {
		panic(err)
	}
	defer tf.Close()
	var mu sync.Mutex
	var all []RunRec
	emit := func(r RunRec) {
		b, _ := json.Marshal(r)
		mu.Lock()
		tf.Write(append(b, '\n'))
		all = append(all, r)
		mu.Unlock()
	}
	b, err := ioutil.ReadFile(pc.Replay)
	if err != nil {
		panic(err)
	}
	var rp struct {
		Jobs []struct {
			Seed      int64    `json:"seed"`
			Engine    string   `json:"engine"`
			OptFsync  bool     `json:"optfsync"`
			PreOps    int      `json:"pre_ops"`
			GapOps    int      `json:"gap_ops"`
			DuringOps int      `json:"during_ops"`
			Specs     []string `json:"specs"`
		} `json:"jobs"`
	}
	if err := json.Unmarshal(b, &rp); err != nil {
		panic(err)
	}
	slots := make(chan int, pc.Workers)
	for i := 0; i < pc.Workers; i++ {
		slots <- i
	}
	var wg sync.WaitGroup
	for i, j := range rp.Jobs {
		wg.Add(1)
		slot := <-slots
		job := follJob{id: i, seed: j.Seed, engine: j.Engine, optFsync: j.OptFsync, preOps: j.PreOps, gapOps: j.GapOps,
			duringOps: j.DuringOps, specs: j.Specs}
		go func(job follJob, slot int) {
			defer wg.Done()
			defer func() { slots <- slot }()
			runFollowerJob(self, job, pc.Port+slot*portsPerSlot, emit)
		}(job, slot)
	}
	wg.Wait()
	writeCases(pc.Out, all, 2)
}
