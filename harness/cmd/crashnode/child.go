package main

// child mode: a REAL single-replica ZanRedisDB data node (server.NewServer + InitKVNamespace) on a given
// directory, serving the redis protocol. It is started, killed (by a crash point or from outside) and
// restarted on the same directory by the parent.

import (
	"bufio"
	"fmt"
	"io/ioutil"
	"os"
	"path"
	"strconv"
	"strings"
	"time"

	"github.com/youzan/ZanRedisDB/common"
	"github.com/youzan/ZanRedisDB/node"
	"github.com/youzan/ZanRedisDB/rockredis"
	"github.com/youzan/ZanRedisDB/server"
	"github.com/youzan/ZanRedisDB/wal"
)

const nsName = "vns"

type childCfg struct {
	Dir       string
	Port      int
	Engine    string
	SnapCount int
	SegSize   int64
	Keep      int
	OptFsync  bool
}

func runChild(cfg childCfg) {
	wal.SegmentSizeBytes = cfg.SegSize
	// for the simulated power loss: remember where the tail segment was last fdatasync'ed
	syncFile := path.Join(cfg.Dir, "walsync")
	wal.VerifSyncHook = func(tail string, off int64) {
		ioutil.WriteFile(syncFile+".tmp", []byte(fmt.Sprintf("%s %d\n", tail, off)), 0644)
		os.Rename(syncFile+".tmp", syncFile)
	}
	if _, err := os.Stat(path.Join(cfg.Dir, "myid")); err != nil {
		ioutil.WriteFile(path.Join(cfg.Dir, "myid"), []byte("1"), common.FILE_PERM)
	}
	raftAddr := fmt.Sprintf("http://127.0.0.1:%d", cfg.Port+2)
	opts := server.ServerConfig{
		ClusterID:     "verif-crash",
		DataDir:       cfg.Dir,
		RedisAPIPort:  cfg.Port,
		HttpAPIPort:   cfg.Port + 1,
		GrpcAPIPort:   cfg.Port + 3,
		ProfilePort:   -1,
		LocalRaftAddr: raftAddr,
		BroadcastAddr: "127.0.0.1",
		TickMs:        100,
		ElectionTick:  5,
		KeepBackup:    cfg.Keep,
		KeepWAL:       cfg.Keep,
	}
	opts.RocksDBOpts.EngineType = cfg.Engine
	kv, err := server.NewServer(opts)
	if err != nil {
		fmt.Printf("FAIL newserver %v\n", err)
		os.Exit(3)
	}
	var replica node.ReplicaInfo
	replica.NodeID = 1
	replica.ReplicaID = 1
	replica.RaftAddr = raftAddr
	nsConf := node.NewNSConfig()
	nsConf.Name = nsName + "-0"
	nsConf.BaseName = nsName
	nsConf.EngType = rockredis.EngType
	nsConf.PartitionNum = 1
	nsConf.Replicator = 1
	nsConf.SnapCount = cfg.SnapCount
	nsConf.SnapCatchup = cfg.SnapCount / 2
	nsConf.OptimizedFsync = cfg.OptFsync
	nsConf.RaftGroupConf.GroupID = 1000
	nsConf.RaftGroupConf.SeedNodes = append(nsConf.RaftGroupConf.SeedNodes, replica)
	n, err := kv.InitKVNamespace(1, nsConf, false)
	if err != nil {
		// a node that cannot come back on its own data is what C06 forbids: the parent decides
		fmt.Printf("FAIL initns %v\n", err)
		os.Exit(4)
	}
	// nsMgr.Start ignores the error of the node start; start it here so that a failed recovery is seen at once
	if err := n.Start(false); err != nil {
		fmt.Printf("FAIL startraft %v\n", err)
		os.Exit(4)
	}
	kv.Start()
	deadline := time.Now().Add(25 * time.Second)
	for !n.Node.IsLead() {
		if time.Now().After(deadline) {
			fmt.Printf("FAIL noleader\n")
			os.Exit(5)
		}
		time.Sleep(10 * time.Millisecond)
	}
	fmt.Printf("READY\n")
	// control channel: "ARM <name> <k> <delay_ms>" arms a crash point at run time
	rd := bufio.NewReader(os.Stdin)
	for {
		line, err := rd.ReadString('\n')
		if err != nil {
			// parent gone: die
			os.Exit(0)
		}
		f := strings.Fields(line)
		if len(f) == 4 && f[0] == "ARM" {
			k, _ := strconv.ParseInt(f[2], 10, 64)
			ms, _ := strconv.ParseInt(f[3], 10, 64)
			common.VerifArmCrash(f[1], k, time.Duration(ms)*time.Millisecond)
			fmt.Printf("ARMED\n")
		}
	}
}
