package main

// child mode: a REAL single-replica ZanRedisDB data node (server.NewServer + InitKVNamespace) on a given
// directory, serving the redis protocol. It is started, killed (by a crash point or from outside) and
// restarted on the same directory by the parent.

import (
	"bufio"
	"fmt"
	"io/ioutil"
	"net"
	"net/http"
	"os"
	"path"
	"strconv"
	"strings"
	"time"

	"github.com/youzan/ZanRedisDB/common"
	"github.com/youzan/ZanRedisDB/node"
	"github.com/youzan/ZanRedisDB/pkg/fileutil"
	"github.com/youzan/ZanRedisDB/rockredis"
	"github.com/youzan/ZanRedisDB/server"
	"github.com/youzan/ZanRedisDB/wal"
)

const nsName = "vns"

type childCfg struct {
	Dir       string
	Port      int
	Engine    string
	SnapCount int
	SegSize   int64
	Keep      int
	OptFsync  bool
	// expire times kept in the value header and judged by every read and write (expiration policy wait_compact, value
	// header v1) instead of the default policy (local deletion by a scanner, reads never look at the expire time)
	WaitCompact bool
	// a second run of the node's WAL purger (fileutil.PurgeFile on the wal directory with KeepWAL, as raftNode.purgeFile
	// starts it) with a tick of 50 ms instead of 10 minutes, started once the node serves: the lives of this harness are
	// seconds long, the node's own purger only gets to its first pass
	PurgeTick bool
	// three-replica mode (follower lives): ID 1..3 of this replica, Base = first port of the group (replica j owns
	// Base+(j-1)*5 ..+4), Root = the directory that holds the data directories n1, n2, n3, Blocked = start with the
	// raft messages of the other replicas dropped (the node serves what it recovered, nothing else)
	ID      int
	Base    int
	Root    string
	Blocked bool
}

const nReplica = 3

func replicaPort(base, id int) int { return base + (id-1)*5 }
func replicaDir(root string, id int) string {
	return path.Join(root, "n"+strconv.Itoa(id))
}

// peerInfo: the other replicas as sources of a snapshot's checkpoint (same host, different data root: the code
// copies the checkpoint directory with cp instead of rsync)
type peerInfo struct {
	name string
	id   int
	base int
	root string
}

func (ci *peerInfo) GetClusterName() string { return ci.name }
func (ci *peerInfo) GetSnapshotSyncInfo(fullNS string) ([]common.SnapshotSyncInfo, error) {
	var l []common.SnapshotSyncInfo
	for j := 1; j <= nReplica; j++ {
		l = append(l, common.SnapshotSyncInfo{ReplicaID: uint64(j), NodeID: uint64(j), RemoteAddr: "127.0.0.1",
			HttpAPIPort: strconv.Itoa(replicaPort(ci.base, j) + 1), DataRoot: replicaDir(ci.root, j)})
	}
	return l, nil
}
func (ci *peerInfo) UpdateMeForNamespaceLeader(fullNS string) (bool, error) { return false, nil }

func othersOf(id int) []uint64 {
	var l []uint64
	for j := 1; j <= nReplica; j++ {
		if j != id {
			l = append(l, uint64(j))
		}
	}
	return l
}

func runChild(cfg childCfg) {
	wal.SegmentSizeBytes = cfg.SegSize
	// for the simulated power loss: remember where the tail segment was last fdatasync'ed
	syncFile := path.Join(cfg.Dir, "walsync")
	wal.VerifSyncHook = func(tail string, off int64) {
		ioutil.WriteFile(syncFile+".tmp", []byte(fmt.Sprintf("%s %d\n", tail, off)), 0644)
		os.Rename(syncFile+".tmp", syncFile)
	}
	cluster := cfg.ID > 0
	myID := 1
	if cluster {
		myID = cfg.ID
		cfg.Dir = replicaDir(cfg.Root, cfg.ID)
		cfg.Port = replicaPort(cfg.Base, cfg.ID)
		os.MkdirAll(cfg.Dir, 0755)
	}
	if _, err := os.Stat(path.Join(cfg.Dir, "myid")); err != nil {
		ioutil.WriteFile(path.Join(cfg.Dir, "myid"), []byte(strconv.Itoa(myID)), common.FILE_PERM)
	}
	raftAddr := fmt.Sprintf("http://127.0.0.1:%d", cfg.Port+2)
	opts := server.ServerConfig{
		ClusterID:     "verif-crash",
		DataDir:       cfg.Dir,
		RedisAPIPort:  cfg.Port,
		HttpAPIPort:   cfg.Port + 1,
		GrpcAPIPort:   cfg.Port + 3,
		ProfilePort:   -1,
		LocalRaftAddr: raftAddr,
		BroadcastAddr: "127.0.0.1",
		TickMs:        100,
		ElectionTick:  5,
		KeepBackup:    cfg.Keep,
		KeepWAL:       cfg.Keep,
	}
	opts.RocksDBOpts.EngineType = cfg.Engine
	kv, err := server.NewServer(opts)
	if err != nil {
		fmt.Printf("FAIL newserver %v\n", err)
		os.Exit(3)
	}
	var filter *server.VerifRaftFilter
	if cluster {
		kv.GetNsMgr().SetIClusterInfo(&peerInfo{name: opts.ClusterID, id: cfg.ID, base: cfg.Base, root: cfg.Root})
		filter = kv.VerifInstallRaftFilter()
		if cfg.Blocked {
			filter.SetBlocked(othersOf(cfg.ID))
		}
	}
	var replica node.ReplicaInfo
	replica.NodeID = 1
	replica.ReplicaID = 1
	replica.RaftAddr = raftAddr
	nsConf := node.NewNSConfig()
	nsConf.Name = nsName + "-0"
	nsConf.BaseName = nsName
	nsConf.EngType = rockredis.EngType
	nsConf.PartitionNum = 1
	nsConf.Replicator = 1
	nsConf.SnapCount = cfg.SnapCount
	nsConf.SnapCatchup = cfg.SnapCount / 2
	nsConf.OptimizedFsync = cfg.OptFsync
	if cfg.WaitCompact {
		nsConf.ExpirationPolicy = common.WaitCompactExpirationPolicy
		nsConf.DataVersion = common.ValueHeaderV1Str
	}
	nsConf.RaftGroupConf.GroupID = 1000
	nsConf.RaftGroupConf.SeedNodes = append(nsConf.RaftGroupConf.SeedNodes, replica)
	if cluster {
		nsConf.Replicator = nReplica
		// the leader keeps only a few entries behind its snapshot: a replica that was down during a snapshot gets MsgSnap
		nsConf.SnapCatchup = 3
		nsConf.RaftGroupConf.SeedNodes = nil
		for j := 1; j <= nReplica; j++ {
			nsConf.RaftGroupConf.SeedNodes = append(nsConf.RaftGroupConf.SeedNodes, node.ReplicaInfo{NodeID: uint64(j), ReplicaID: uint64(j),
				RaftAddr: fmt.Sprintf("http://127.0.0.1:%d", replicaPort(cfg.Base, j)+2)})
		}
	}
	n, err := kv.InitKVNamespace(uint64(myID), nsConf, false)
	if err != nil {
		// a node that cannot come back on its own data is what C06 forbids: the parent decides
		fmt.Printf("FAIL initns %v\n", err)
		os.Exit(4)
	}
	// nsMgr.Start ignores the error of the node start; start it here so that a failed recovery is seen at once
	if cluster {
		// with peers the transport has to run before the node starts; the namespace manager starts the node
		// (and swallows its error): a node that did not become ready failed to start
		kv.Start()
		dl := time.Now().Add(90 * time.Second)
		for !n.IsReady() {
			if time.Now().After(dl) {
				fmt.Printf("FAIL startraft not ready\n")
				os.Exit(4)
			}
			time.Sleep(10 * time.Millisecond)
		}
	} else {
		if err := n.Start(false); err != nil {
			fmt.Printf("FAIL startraft %v\n", err)
			os.Exit(4)
		}
		kv.Start()
	}
	if cluster {
		// reads are served by every replica (stale reads allowed): what a follower serves is what C06 looks at
		okStale := false
		for try := 0; try < 3000 && !okStale; try++ {
			resp, err := http.Post(fmt.Sprintf("http://127.0.0.1:%d/staleread?allow=true", cfg.Port+1), "application/json", nil)
			if err == nil {
				okStale = resp.StatusCode == 200
				resp.Body.Close()
			}
			if !okStale {
				time.Sleep(20 * time.Millisecond)
			}
		}
		if !okStale {
			fmt.Printf("FAIL staleread\n")
			os.Exit(5)
		}
	}
	// generous budgets: a slow machine (cold page cache, loaded cores) is not a node that cannot recover
	deadline := time.Now().Add(90 * time.Second)
	for !cluster && !n.Node.IsLead() {
		if time.Now().After(deadline) {
			fmt.Printf("FAIL noleader\n")
			os.Exit(5)
		}
		time.Sleep(10 * time.Millisecond)
	}
	// server.Start launches the API listeners asynchronously: READY only when the redis port accepts connections
	apiDl := time.Now().Add(60 * time.Second)
	for {
		cn, err := net.DialTimeout("tcp", fmt.Sprintf("127.0.0.1:%d", cfg.Port), 500*time.Millisecond)
		if err == nil {
			cn.Close()
			break
		}
		if time.Now().After(apiDl) {
			fmt.Printf("FAIL noapi %v\n", err)
			os.Exit(5)
		}
		time.Sleep(10 * time.Millisecond)
	}
	if cfg.PurgeTick {
		// (the node's own first pass is over by the time it leads and serves)
		stopPurge := make(chan struct{})
		fileutil.PurgeFile(path.Join(cfg.Dir, nsName+"-0", "wal-1"), "wal", uint(cfg.Keep), 50*time.Millisecond, stopPurge)
	}
	fmt.Printf("READY\n")
	// control channel: "ARM <name> <k> <delay_ms>" arms a crash point at run time
	rd := bufio.NewReader(os.Stdin)
	for {
		line, err := rd.ReadString('\n')
		if err != nil {
			// parent gone: die
			os.Exit(0)
		}
		f := strings.Fields(line)
		if len(f) == 4 && f[0] == "ARM" {
			k, _ := strconv.ParseInt(f[2], 10, 64)
			ms, _ := strconv.ParseInt(f[3], 10, 64)
			common.VerifArmCrash(f[1], k, time.Duration(ms)*time.Millisecond)
			fmt.Printf("ARMED\n")
		}
		if len(f) >= 1 && f[0] == "BLOCK" && filter != nil {
			// BLOCK <id>...: drop the raft messages arriving from these replicas (none = heal)
			var ids []uint64
			for _, x := range f[1:] {
				v, _ := strconv.ParseUint(x, 10, 64)
				ids = append(ids, v)
			}
			filter.SetBlocked(ids)
			fmt.Printf("BLOCKED\n")
		}
		if len(f) == 1 && f[0] == "STATUS" {
			lead := 0
			if n.Node.IsLead() {
				lead = 1
			}
			var leader uint64
			if m := n.Node.GetLeadMember(); m != nil {
				leader = m.ID
			}
			fmt.Printf("STATUS %d %d %d %d\n", lead, leader, n.Node.GetAppliedIndex(), n.Node.GetRaftStatus().Commit)
		}
	}
}
