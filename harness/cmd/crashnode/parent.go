package main

// parent mode: orchestrates kill/restart cycles of child data nodes and records everything the
// oracle (props/C06.py) and the path model (coq/Recover) need: the write history with acknowledgements,
// the dump served after every restart, the crash-point event log of every run, and the directory
// listing found after every death.

import (
	"bufio"
	"encoding/binary"
	"encoding/json"
	"fmt"
	"io/ioutil"
	"net"
	"os"
	"os/exec"
	"path/filepath"
	"regexp"
	"sort"
	"strconv"
	"strings"
	"sync"
	"syscall"
	"time"

	"verif/harness/internal/hx"
)

// ---------- minimal RESP client (replies kept as canonical strings) ----------

type rconn struct {
	c net.Conn
	r *bufio.Reader
}

func dial(port int, to time.Duration) (*rconn, error) {
	c, err := net.DialTimeout("tcp", "127.0.0.1:"+strconv.Itoa(port), to)
	if err != nil {
		return nil, err
	}
	return &rconn{c: c, r: bufio.NewReader(c)}, nil
}

func (rc *rconn) close() { rc.c.Close() }

// do sends one command; returns (canonical reply, isErrorReply, transportError)
func (rc *rconn) do(to time.Duration, args ...string) (string, bool, error) {
	var b strings.Builder
	fmt.Fprintf(&b, "*%d\r\n", len(args))
	for _, a := range args {
		fmt.Fprintf(&b, "$%d\r\n%s\r\n", len(a), a)
	}
	rc.c.SetDeadline(time.Now().Add(to))
	if _, err := rc.c.Write([]byte(b.String())); err != nil {
		return "", false, err
	}
	v, err := rc.read()
	if err != nil {
		return "", false, err
	}
	return v, strings.HasPrefix(v, "-"), nil
}

func (rc *rconn) read() (string, error) {
	line, err := rc.r.ReadString('\n')
	if err != nil {
		return "", err
	}
	line = strings.TrimRight(line, "\r\n")
	if line == "" {
		return "", fmt.Errorf("empty reply line")
	}
	switch line[0] {
	case '+', ':':
		return line, nil
	case '-':
		return line, nil
	case '$':
		n, _ := strconv.Atoi(line[1:])
		if n < 0 {
			return "nil", nil
		}
		buf := make([]byte, n+2)
		if _, err := readFull(rc.r, buf); err != nil {
			return "", err
		}
		return "$" + string(buf[:n]), nil
	case '*':
		n, _ := strconv.Atoi(line[1:])
		if n < 0 {
			return "nil", nil
		}
		parts := make([]string, 0, n)
		for i := 0; i < n; i++ {
			p, err := rc.read()
			if err != nil {
				return "", err
			}
			parts = append(parts, p)
		}
		return "[" + strings.Join(parts, ",") + "]", nil
	}
	return "", fmt.Errorf("bad reply %q", line)
}

func readFull(r *bufio.Reader, buf []byte) (int, error) {
	n := 0
	for n < len(buf) {
		m, err := r.Read(buf[n:])
		if err != nil {
			return n, err
		}
		n += m
	}
	return n, nil
}

// ---------- records ----------

type OpRec struct {
	Cmd    []string `json:"cmd"`
	Status string   `json:"status"` // ack | err | lost (no reply: connection died)
	Reply  string   `json:"reply,omitempty"`
}

type RunRec struct {
	Dir       int      `json:"dir"`
	Run       int      `json:"run"`
	Engine    string   `json:"engine"`
	OptFsync  bool     `json:"optfsync"`
	Spec      string   `json:"spec"`  // crash selection of this run
	Start     string   `json:"start"` // ready | died-at-startup-point | FAIL ... | timeout
	Marker    *OpRec   `json:"marker,omitempty"`
	Dump      []string `json:"dump,omitempty"` // served state right after the restart (sorted lines)
	Ops       []OpRec  `json:"ops"`            // writes issued in this run after the dump
	Death     string   `json:"death"`          // crashpoint | external | startup-crashpoint | unexpected-exit | none
	Events    []string `json:"events"`         // crash-point event log of this run
	Listing   []string `json:"listing"`        // wal/snap/checkpoint names found after the death
	PortRetry int      `json:"port_retry"`
	Tear      string   `json:"tear,omitempty"` // what the torn-tail simulation did after the death
	StartMs   int64    `json:"start_ms"`
	LifeMs    int64    `json:"life_ms"`       // from the start of the process to (just after) its death
	Log       string   `json:"log,omitempty"` // tail of the child's log when the start failed
	PowerLoss string   `json:"power_loss,omitempty"`
	// three-replica jobs (the life is one of the follower that is killed)
	Role      string   `json:"role,omitempty"`      // "follower"
	Applied   uint64   `json:"applied,omitempty"`   // applied index of the isolated follower when Dump was taken
	History   []OpRec  `json:"history,omitempty"`   // every write sent to the group before Dump was taken (in order)
	ConvDump  []string `json:"conv_dump,omitempty"` // what the follower serves once it has caught up (no write in flight)
	LeadDump  []string `json:"lead_dump,omitempty"` // what the leader serves at that moment
	Converged string   `json:"converged,omitempty"` // yes | died | timeout ...
}

// ---------- key universe and op generator ----------

const nKeys = 4

var kinds = []string{"i", "a", "l", "h", "s"}

func key(kind string, n int) string { return fmt.Sprintf("%s:t:%s%d", nsName, kind, n) }

type gen struct {
	r       *hx.Rng
	seq     int
	tag     string
	pending [][]string
}

func (g *gen) next() []string {
	if len(g.pending) > 0 {
		c := g.pending[0]
		g.pending = g.pending[1:]
		return c
	}
	g.seq++
	tok := fmt.Sprintf("%s%d.", g.tag, g.seq)
	n := g.r.Intn(nKeys)
	// a token some earlier write of this generator used (it may or may not be in the data any more)
	old := fmt.Sprintf("%s%d.", g.tag, 1+g.r.Intn(g.seq))
	switch g.r.Intn(13) {
	case 12:
		// a write the leader proposes and the state machine refuses when it applies it (SETEX with an expire time
		// of 0, or one that is not a number): it must not take any other write with it, live or in a replay
		// (it comes behind two writes on other keys that the state machine may collect in one write batch with it when
		// the entries are applied together, as a replay after a restart does)
		bad := "0"
		if g.r.Intn(3) == 0 {
			bad = "notanumber"
		}
		second := []string{"set", key("a", (n+2)%nKeys), tok + "b"}
		if g.r.Intn(2) == 0 {
			second = []string{"del", key("a", (n+2)%nKeys)}
		}
		g.pending = append(g.pending, second, []string{"setex", key("a", (n+3)%nKeys), bad, tok})
		return []string{"set", key("a", (n+1)%nKeys), tok + "a"}
	case 8:
		return []string{"del", key("a", n)}
	case 9:
		return []string{"lpop", key("l", n)}
	case 10:
		return []string{"hdel", key("h", n), "f" + strconv.Itoa(g.r.Intn(3))}
	case 11:
		if g.r.Intn(2) == 0 {
			return []string{"srem", key("s", n), old}
		}
		return []string{"zrem", key("z", n), old}
	case 6:
		// HyperLogLog: elements out of a small fixed universe (the write goes to an in-memory cache first)
		return []string{"pfadd", key("p", n), "e" + strconv.Itoa(g.r.Intn(16))}
	case 7:
		return []string{"zadd", key("z", n), strconv.Itoa(g.r.Intn(50)), tok}
	case 0:
		return []string{"incr", key("i", n)}
	case 1:
		return []string{"append", key("a", n), tok}
	case 2:
		return []string{"lpush", key("l", n), tok}
	case 3:
		return []string{"hincrby", key("h", n), "f" + strconv.Itoa(g.r.Intn(3)), strconv.Itoa(1 + g.r.Intn(9))}
	case 4:
		return []string{"sadd", key("s", n), tok}
	default:
		return []string{"set", key("a", n), tok}
	}
}

// ---------- dump ----------

func dump(c *rconn) ([]string, error) { return dumpTo(c, 10*time.Second) }

func dumpTo(c *rconn, to time.Duration) ([]string, error) {
	var out []string
	typeCmd := map[string]string{"kv": "", "list": "l", "hash": "h", "set": "s"}
	// HyperLogLog keys are served from a write cache and are not listed by a scan until they are flushed:
	// the known keys are asked for directly
	for n := 0; n < nKeys; n++ {
		v, isErr, err := c.do(to, "pfcount", key("p", n))
		if err != nil {
			return nil, err
		}
		if !isErr && v != ":0" {
			out = append(out, fmt.Sprintf("P p%d %s", n, v))
		}
	}
	for _, ty := range []string{"kv", "list", "hash", "set", "zset"} {
		cursor := ""
		for round := 0; round < 100; round++ {
			v, isErr, err := c.do(to, "advscan", nsName+":t:"+cursor, ty, "count", "1000")
			if err != nil {
				return nil, err
			}
			if isErr {
				return nil, fmt.Errorf("advscan %s: %s", ty, v)
			}
			// [$cursor,[$k1,$k2,...]]
			keys, next := parseScan(v)
			for _, k := range keys {
				full := nsName + ":t:" + k
				var line string
				switch ty {
				case "kv":
					if strings.HasPrefix(k, "p") {
						continue // a flushed HyperLogLog key: reported through PFCOUNT above
					}
					g, _, err := c.do(to, "get", full)
					if err != nil {
						return nil, err
					}
					if g == "nil" {
						continue // listed by the scan, expired for a read
					}
					line = "K " + k + " " + g
				case "zset":
					g, _, err := c.do(to, "zrange", full, "0", "-1", "withscores")
					if err != nil {
						return nil, err
					}
					line = "Z " + k + " " + sortPairs(g)
				case "list":
					g, _, err := c.do(to, "lrange", full, "0", "-1")
					if err != nil {
						return nil, err
					}
					line = "L " + k + " " + g
				case "hash":
					g, _, err := c.do(to, "hgetall", full)
					if err != nil {
						return nil, err
					}
					line = "H " + k + " " + sortPairs(g)
				case "set":
					g, _, err := c.do(to, "smembers", full)
					if err != nil {
						return nil, err
					}
					line = "S " + k + " " + sortElems(g)
				}
				out = append(out, line)
			}
			if next == "" {
				break
			}
			cursor = next
		}
		_ = typeCmd
	}
	sort.Strings(out)
	return out, nil
}

func splitTop(v string) []string {
	// v = "[a,b,[c,d]]" -> top-level elements; elements never contain ',' '[' ']' in our value alphabet
	if len(v) < 2 || v[0] != '[' {
		return nil
	}
	s := v[1 : len(v)-1]
	var out []string
	depth, start := 0, 0
	for i := 0; i < len(s); i++ {
		switch s[i] {
		case '[':
			depth++
		case ']':
			depth--
		case ',':
			if depth == 0 {
				out = append(out, s[start:i])
				start = i + 1
			}
		}
	}
	if len(s) > 0 {
		out = append(out, s[start:])
	}
	return out
}

func parseScan(v string) ([]string, string) {
	top := splitTop(v)
	if len(top) != 2 {
		return nil, ""
	}
	next := strings.TrimPrefix(top[0], "$")
	var keys []string
	for _, e := range splitTop(top[1]) {
		keys = append(keys, strings.TrimPrefix(e, "$"))
	}
	return keys, next
}

func sortElems(v string) string {
	e := splitTop(v)
	sort.Strings(e)
	return "[" + strings.Join(e, ",") + "]"
}

func sortPairs(v string) string {
	e := splitTop(v)
	var p []string
	for i := 0; i+1 < len(e); i += 2 {
		p = append(p, e[i]+"="+e[i+1])
	}
	sort.Strings(p)
	return "[" + strings.Join(p, ",") + "]"
}

// ---------- child process handling ----------

type child struct {
	cmd    *exec.Cmd
	stdin  *os.File
	lines  chan string
	exited chan struct{}
	logf   string
	port   int
}

func startChild(self string, cfg childCfg, evlog string, envCrash string, logPath string) (*child, error) {
	args := []string{"-child", "-dir", cfg.Dir, "-port", strconv.Itoa(cfg.Port), "-engine", cfg.Engine,
		"-snapcount", strconv.Itoa(cfg.SnapCount), "-segsize", strconv.FormatInt(cfg.SegSize, 10),
		"-keep", strconv.Itoa(cfg.Keep), "-optfsync=" + strconv.FormatBool(cfg.OptFsync), "-waitcompact=" + strconv.FormatBool(cfg.WaitCompact), "-purgetick=" + strconv.FormatBool(cfg.PurgeTick)}
	if cfg.ID > 0 {
		args = []string{"-child", "-id", strconv.Itoa(cfg.ID), "-root", cfg.Root, "-port", strconv.Itoa(cfg.Base), "-engine", cfg.Engine,
			"-snapcount", strconv.Itoa(cfg.SnapCount), "-segsize", strconv.FormatInt(cfg.SegSize, 10),
			"-keep", strconv.Itoa(cfg.Keep), "-optfsync=" + strconv.FormatBool(cfg.OptFsync), "-blocked=" + strconv.FormatBool(cfg.Blocked)}
	}
	cmd := exec.Command(self, args...)
	cmd.Env = append(os.Environ(), "VERIF_CRASH_LOG="+evlog)
	if envCrash != "" {
		cmd.Env = append(cmd.Env, "VERIF_CRASH="+envCrash)
	}
	pr, pw, err := os.Pipe()
	if err != nil {
		return nil, err
	}
	cmd.Stdin = pr
	lf, err := os.Create(logPath)
	if err != nil {
		return nil, err
	}
	cmd.Stderr = lf
	outr, outw, err := os.Pipe()
	if err != nil {
		return nil, err
	}
	cmd.Stdout = outw
	cmd.SysProcAttr = &syscall.SysProcAttr{Pdeathsig: syscall.SIGKILL}
	if err := cmd.Start(); err != nil {
		return nil, err
	}
	pr.Close()
	outw.Close()
	ch := &child{cmd: cmd, stdin: pw, lines: make(chan string, 64), exited: make(chan struct{}), logf: logPath, port: cfg.Port}
	go func() {
		sc := bufio.NewScanner(outr)
		sc.Buffer(make([]byte, 1<<20), 1<<24)
		for sc.Scan() {
			l := sc.Text()
			// the server logs to stdout as well: keep them in the log file, forward only control lines
			if l == "READY" || l == "ARMED" || l == "BLOCKED" || strings.HasPrefix(l, "STATUS ") || strings.HasPrefix(l, "FAIL ") {
				ch.lines <- l
			} else {
				lf.WriteString(l + "\n")
			}
		}
		outr.Close()
		cmd.Wait()
		lf.Close()
		close(ch.exited)
	}()
	return ch, nil
}

func (ch *child) kill() {
	ch.cmd.Process.Kill()
	<-ch.exited
	ch.stdin.Close()
}

func (ch *child) waitExit(to time.Duration) bool {
	select {
	case <-ch.exited:
		ch.stdin.Close()
		return true
	case <-time.After(to):
		return false
	}
}

// crashHead: the lines around the first sign of a crash in a child's log (the tail of a goroutine dump does not say why)
func crashHead(p string) string {
	b, err := ioutil.ReadFile(p)
	if err != nil {
		return ""
	}
	txt := string(b)
	best := -1
	for _, pat := range []string{"fatal error:", "SIGABRT", "SIGSEGV", "panic:", "terminate called", "Assertion", "pure virtual", "double free", "corrupted"} {
		if i := strings.Index(txt, pat); i >= 0 && (best < 0 || i < best) {
			best = i
		}
	}
	if best < 0 {
		return ""
	}
	from := best - 600
	if from < 0 {
		from = 0
	}
	to := best + 1800
	if to > len(txt) {
		to = len(txt)
	}
	return "--- first sign of the crash ---\n" + txt[from:to] + "\n--- tail ---\n"
}

func tailFile(p string, n int) string {
	b, err := ioutil.ReadFile(p)
	if err != nil {
		return ""
	}
	if len(b) > n {
		b = b[len(b)-n:]
	}
	return string(b)
}

func listing(dir string) []string { return listingOf(dir, 1) }

// listingOf: the names under the namespace directory of replica id; the wal and snap directories carry the replica id
// in their names, the listing always calls them wal-1 and snap-1
func listingOf(dir string, id int) []string {
	var out []string
	base := filepath.Join(dir, nsName+"-0")
	sid := strconv.Itoa(id)
	for _, sub := range [][2]string{{"wal-" + sid, "wal-1"}, {"snap-" + sid, "snap-1"}, {"rocksdb_backup", "rocksdb_backup"}} {
		ents, _ := ioutil.ReadDir(filepath.Join(base, sub[0]))
		for _, e := range ents {
			if sub[0] == "rocksdb_backup" && e.Name() == "remote" {
				continue
			}
			if strings.HasSuffix(e.Name(), ".broken") {
				continue // the copy wal.Repair keeps of a segment whose torn tail it cut off
			}
			out = append(out, sub[1]+"/"+e.Name())
		}
	}
	sort.Strings(out)
	return out
}

// ---------- crash specs ----------

// points that are passed while the node serves writes (armed after the restart was verified)
var runPoints = []string{
	"rd.begin", "rd.publish.before", "rd.walsave.before", "rd.walsave.after", "rd.append.after", "rd.advance.before",
	"ap.apply.before", "ap.apply.after", "ap.raftdone.after", "ap.trigger.before", "ap.trigger.after",
	"sn.ckpt.started", "sn.ckpt.done", "sn.create.after", "ps.snapfile.after", "sn.savesnap.after", "sn.sync.after",
	"sn.release.after", "sn.updstate.after", "sn.compact.after",
	"ck.cacheflush.after", "ck.save.before", "ck.save.after", "ck.purge.before", "ck.purge.after",
	"wl.cut.rename.before", "wl.cut.after",
}

// points passed during the start on an existing directory (selected through the environment);
// the snapshot points are reached by the first write after a restart that left a snapshot due
var startPoints = []string{
	"rc.snap.chosen", "rs.remove.after", "rs.copy.after", "rc.restore.after", "rc.replay.after",
	"pg.remove.before", "pg.remove.after", "rd.begin", "rd.walsave.before", "rd.walsave.after", "ap.apply.before",
	"ps.snapfile.after", "sn.savesnap.after", "ck.save.before",
}

// points of the incoming-snapshot path (a follower that is behind the leader's compacted log): reached by the
// three-replica jobs only
var followerPoints = []string{"rd.savesnap.before", "rd.savesnap.after", "rd.applysnap.before", "rd.applysnap.after", "rd.release.after", "rc.snap.none",
	"fs.local.ok", "fs.mark.after", "fs.copy.after", "fs.complete.after", "as.prepare.after", "as.raftdone.after", "as.restore.after"}

// AllPoints is every crash point name the harness knows; the check compares it with the names found in the source.
func AllPoints() []string {
	m := map[string]bool{}
	for _, p := range runPoints {
		m[p] = true
	}
	for _, p := range startPoints {
		m[p] = true
	}
	// follower-only points (incoming snapshot): never reached by a single-replica group
	for _, p := range followerPoints {
		m[p] = true
	}
	var out []string
	for p := range m {
		out = append(out, p)
	}
	sort.Strings(out)
	return out
}

func isSnapPoint(p string) bool {
	return strings.HasPrefix(p, "sn.") || strings.HasPrefix(p, "ck.") || strings.HasPrefix(p, "ps.")
}

func isCutPoint(p string) bool { return strings.HasPrefix(p, "wl.") }

// ---------- one directory ----------

type dirJob struct {
	id        int
	seed      int64
	engine    string
	optFsync  bool
	cycles    int
	opsMax    int
	specs     []string // forced specs (replay), else generated
	thorough  bool
	snapCount int    // raft snapshot every N applied entries (0: 20)
	mode      string // "big": one value above 1 MiB per life; "tear": a torn record behind the WAL's tail after every kill from outside;
	// "ttl": SETEX with a short expire time followed by INCR / INCRBY shortly before the kill, the restart after the expire time
}

// spec: "P:<name>:<k>:<stall_ms>"  crash point armed once the restart is verified (k-th hit from then on)
//
//	"S:<name>:<k>"             crash point armed through the environment (hits counted from the process start)
//	"X:<after_ops>:<quarter_ms>" kill -9 from outside while the given write is in flight
func pickSpec(r *hx.Rng, cyc int, opsMax int, snapCount int, thorough bool) string {
	c := r.Intn(100)
	switch {
	case cyc > 0 && c < 14:
		p := startPoints[r.Intn(len(startPoints))]
		return fmt.Sprintf("S:%s:1", p)
	case c < 30:
		return fmt.Sprintf("X:%d:%d", 1+r.Intn(opsMax), r.Intn(8))
	default:
		p := runPoints[r.Intn(len(runPoints))]
		var k int
		if isSnapPoint(p) {
			k = 1 + r.Intn(3) // first, second or third snapshot of the run
		} else if isCutPoint(p) {
			k = 1
		} else {
			switch r.Intn(3) {
			case 0:
				k = 1 + r.Intn(3) // first hits
			case 1:
				k = 1 + r.Intn(opsMax) // a random one
			default:
				k = opsMax - r.Intn(snapCount) // late: after several snapshot boundaries
				if k < 1 {
					k = 1
				}
			}
		}
		stall := 0
		if r.Intn(3) == 0 {
			stall = []int{5, 30, 120}[r.Intn(3)]
		}
		return fmt.Sprintf("P:%s:%d:%d", p, k, stall)
	}
}

// every worker slot owns three blocks of 5 ports and rotates through them: the previous child of the
// slot is dead before the next one starts, and no other slot ever touches these ports
type portAlloc struct {
	base int
	next int
}

const portsPerSlot = 15

func (pa *portAlloc) get() int {
	p := pa.base + (pa.next%3)*5
	pa.next++
	return p
}

func isEnvFailure(status, tail string) bool {
	lt, ls := strings.ToLower(tail), strings.ToLower(status)
	for _, pat := range []string{"address already in use", "too many open files", "cannot allocate memory", "no space left on device", "disk quota exceeded"} {
		if strings.Contains(lt, pat) || strings.Contains(ls, pat) {
			return true
		}
	}
	return false
}

// slowStatus: the child was alive, logged no recovery error, and did not get to serve within a budget: on its own
// this is a slow machine, not a node that cannot recover its data
func slowStatus(status string) bool {
	return strings.HasPrefix(status, "timeout") || status == "FAIL noleader" || status == "FAIL startraft not ready" || status == "FAIL staleread" ||
		strings.HasPrefix(status, "FAIL noapi") || strings.HasPrefix(status, "noconnect")
}

var recoveryErrRe = regexp.MustCompile(`panic: |fatal error: |index out of range|no backup|checkpoint not exist|crc mismatch|wal: file not found|wal: snapshot not found|snap: crc mismatch|snap: empty snapshot|failed to restore|failed to recover|corrupt`)

// positiveEvidence: the start failed and there is evidence that the node cannot recover its data: it exited or
// reported an error of its start (not a slow one), or its log holds a recovery error
func positiveEvidence(status, tail string) bool {
	return !slowStatus(status) || recoveryErrRe.MatchString(tail)
}

func (ch *child) alive() bool {
	select {
	case <-ch.exited:
		return false
	default:
		return true
	}
}

type live struct {
	ch    *child
	c     *rconn
	evlog string
	t0    time.Time
}

// startRun starts the child for run number rec.Run and waits until it serves or is dead; fills rec.Start.
func startRun(self string, cfg *childCfg, pa *portAlloc, dir string, rec *RunRec, startEnv string) *live {
	cfg.Port = pa.get()
	evlog := filepath.Join(dir, fmt.Sprintf("ev.%d.log", rec.Run))
	logPath := filepath.Join(dir, fmt.Sprintf("child.%d.log", rec.Run))
	os.Remove(evlog)
	t0 := time.Now()
	ch, err := startChild(self, *cfg, evlog, startEnv, logPath)
	if err != nil {
		panic(err)
	}
	status := ""
	// (the child has its own budgets: 90 s for the node, 60 s for the API, counted from the end of its start-up)
	budget := time.After(150 * time.Second)
	tick := time.NewTicker(2 * time.Second)
	defer tick.Stop()
	firstErr := time.Time{}
wait:
	for {
		select {
		case l := <-ch.lines:
			status = l
			break wait
		case <-ch.exited:
			select {
			case l := <-ch.lines:
				status = l
			default:
				status = "exited"
			}
			break wait
		case <-budget:
			status = "timeout"
			break wait
		case <-tick.C:
			// alive, not serving, and its log holds a recovery error that it keeps retrying (a checkpoint that does not
			// exist, a wal that cannot be read ...): 20 s after the first such line the start is given up as failed
			if recoveryErrRe.MatchString(tailFile(logPath, 8000)) {
				if firstErr.IsZero() {
					firstErr = time.Now()
				} else if time.Since(firstErr) > 20*time.Second {
					status = "timeout (not serving; recovery error in its log)"
					break wait
				}
			}
		}
	}
	rec.StartMs = time.Since(t0).Milliseconds()
	lv := &live{ch: ch, evlog: evlog, t0: t0}
	if status == "READY" {
		rec.Start = "ready"
		return lv
	}
	ch.kill()
	tail := crashHead(logPath) + tailFile(logPath, 6000)
	if startEnv != "" && strings.Contains(tailFile(evlog, 200), "KILL "+strings.Split(startEnv, ":")[0]) {
		rec.Start = "died-at-startup-point"
		return lv
	}
	if isEnvFailure(status, tail) {
		rec.Start = "env-failure"
		rec.Log = tail[len(tail)-min(len(tail), 600):]
		return lv
	}
	if status == "exited" && ch.cmd.ProcessState != nil {
		// killed by a signal that neither the harness nor a crash point sent (out-of-memory killer ...): the machine
		if ws, ok := ch.cmd.ProcessState.Sys().(syscall.WaitStatus); ok && ws.Signaled() && ws.Signal() == syscall.SIGKILL {
			rec.Start = "env-failure"
			rec.Log = "killed by SIGKILL from outside the harness during its start\n" + tail[len(tail)-min(len(tail), 600):]
			return lv
		}
		status = "exited (" + ch.cmd.ProcessState.String() + ")"
	}
	rec.Start = status
	rec.Log = tail
	return lv
}

func min(a, b int) int {
	if a < b {
		return a
	}
	return b
}

func finishRun(dir string, lv *live, rec *RunRec, emit func(RunRec)) {
	if _, err := os.Stat(lv.evlog); err == nil {
		rec.Events = hx.ReadLines(lv.evlog)
	}
	rec.Listing = listing(dir)
	rec.LifeMs = time.Since(lv.t0).Milliseconds()
	emit(*rec)
}

// markerAndDump issues the first write after a restart (it is ordered behind everything the restart replays)
// and reads the whole data back. Returns false when the connection died.
func markerAndDump(lv *live, g *gen, rec *RunRec) bool {
	mk := OpRec{Cmd: []string{"set", key("a", 0), fmt.Sprintf("%sm%d.", g.tag, rec.Run)}}
	alive := true
	for try := 0; try < 200; try++ {
		v, isErr, err := lv.c.do(15*time.Second, mk.Cmd...)
		if err != nil {
			mk.Status = "lost"
			alive = false
			break
		}
		if isErr {
			// not yet writable (leader just elected): the write was refused, not proposed
			mk.Status, mk.Reply = "err", v
			time.Sleep(50 * time.Millisecond)
			continue
		}
		mk.Status, mk.Reply = "ack", v
		break
	}
	rec.Marker = &mk
	if alive && mk.Status == "ack" {
		d, err := dump(lv.c)
		if ne, ok := err.(net.Error); ok && ne.Timeout() && lv.ch.alive() {
			// a reply that did not come in 10 s from a child that is alive: a slow machine until shown otherwise.
			// The connection is out of step after a timeout: a new one, and a budget of 90 s per command
			if c2, e2 := dial(lv.ch.port, 10*time.Second); e2 == nil {
				lv.c.close()
				lv.c = c2
				d, err = dumpTo(lv.c, 90*time.Second)
				if ne, ok := err.(net.Error); ok && ne.Timeout() && lv.ch.alive() {
					rec.Dump = []string{"DUMP-INCONCLUSIVE " + err.Error()}
					return false
				}
			}
		}
		if err != nil {
			alive = false
			rec.Dump = []string{"DUMP-ERROR " + err.Error()}
		} else {
			rec.Dump = d
		}
	}
	return alive
}

func runDir(self string, job dirJob, pa *portAlloc, emit func(RunRec)) {
	r := hx.NewRng(job.seed)
	dir, err := ioutil.TempDir("", "verif-crash-")
	if err != nil {
		panic(err)
	}
	defer os.RemoveAll(dir)
	cfg := childCfg{Dir: dir, Engine: job.engine, SnapCount: 20, SegSize: 8192, Keep: 2, OptFsync: job.optFsync, WaitCompact: strings.Contains(job.mode, "ttl"), PurgeTick: strings.Contains(job.mode, "purge")}
	if job.snapCount > 0 {
		cfg.SnapCount = job.snapCount
	}
	g := &gen{r: r, tag: fmt.Sprintf("d%d", job.id)}
	run := 0
	envFailures := 0
	slowRetries := 0
	slowPast := false
	var lastVolatile time.Time
	newRec := func(spec string) *RunRec {
		return &RunRec{Dir: job.id, Run: run, Engine: job.engine, OptFsync: job.optFsync, Spec: spec, Death: "none"}
	}
	for cyc := 0; cyc <= job.cycles; cyc++ {
		final := cyc == job.cycles
		var spec string
		switch {
		case final:
			spec = "final"
		case cyc < len(job.specs):
			spec = job.specs[cyc]
		default:
			spec = pickSpec(r, cyc, job.opsMax, cfg.SnapCount, job.thorough)
		}
		startEnv := ""
		if strings.HasPrefix(spec, "S:") {
			f := strings.Split(spec, ":")
			startEnv = f[1] + ":" + f[2]
		}
		rec := newRec(spec)
		if !lastVolatile.IsZero() {
			// every key written with an expire time is expired when the next life is read (the oracle counts on it)
			if w := time.Until(lastVolatile.Add(time.Duration(ttlSeconds)*time.Second + 1500*time.Millisecond)); w > 0 {
				time.Sleep(w)
			}
		}
		lv := startRun(self, &cfg, pa, dir, rec, startEnv)
		if rec.Start == "env-failure" {
			// the machine, not the node: this life of the process ended during its start; it is recorded as a
			// run of its own (the path model follows it) and the cycle is tried again
			rec.Death = "env-exit"
			finishRun(dir, lv, rec, emit)
			run++
			envFailures++
			if envFailures > 6 {
				return
			}
			cyc--
			continue
		}
		if rec.Start == "died-at-startup-point" {
			rec.Death = "startup-crashpoint"
			finishRun(dir, lv, rec, emit)
			run++
			continue
		}
		if rec.Start == "ready" {
			// the API listener is up when the child says READY; a refused connection is retried while the child lives
			var c *rconn
			var err error
			for dl := time.Now().Add(30 * time.Second); ; {
				c, err = dial(cfg.Port, 5*time.Second)
				if err == nil || time.Now().After(dl) || !lv.ch.alive() {
					break
				}
				time.Sleep(50 * time.Millisecond)
			}
			if err != nil {
				rec.Start = "noconnect " + err.Error()
				if !lv.ch.alive() {
					rec.Start = "exited after READY (" + err.Error() + ")"
				}
				lv.ch.kill()
				rec.Log = tailFile(lv.ch.logf, 6000)
			} else {
				lv.c = c
			}
		}
		if rec.Start != "ready" {
			// the node did not come back. That is a failure of the property only with positive evidence: the process
			// exited or reported an error of its start, or its log holds a recovery error. A child that was alive,
			// logged no error and was merely not serving within the (generous) budget is tried once more on fresh
			// ports; if that is slow again the directory is reported as inconclusive, not as a violation -- unless the
			// restart itself had finished both times (rc.replay.after logged: alive, past its start-up, refusing to serve)
			if !positiveEvidence(rec.Start, rec.Log) {
				evs := tailFile(lv.evlog, 1<<20)
				past := strings.Contains(evs, "rc.replay.after") || strings.Contains(evs, "rd.begin")
				if slowRetries < 1 {
					slowRetries++
					slowPast = past
					rec.Start = "slow-start"
					rec.Death = "external"
					finishRun(dir, lv, rec, emit)
					run++
					cyc--
					continue
				}
				if !(past && slowPast) {
					rec.Log = "start status: " + rec.Start + "\n" + rec.Log
					rec.Start = "inconclusive-slow"
					rec.Death = "external"
				}
			}
			finishRun(dir, lv, rec, emit)
			return
		}
		slowRetries = 0
		c := lv.c
		alive := markerAndDump(lv, g, rec)
		if final {
			c.close()
			lv.ch.kill()
			rec.Death = "external"
			finishRun(dir, lv, rec, emit)
			return
		}
		// ---- arm and write ----
		extAfter, extUs := -1, 0
		if alive {
			f := strings.Split(spec, ":")
			switch f[0] {
			case "P":
				fmt.Fprintf(lv.ch.stdin, "ARM %s %s %s\n", f[1], f[2], f[3])
				select {
				case <-lv.ch.lines:
				case <-lv.ch.exited:
					alive = false
				case <-time.After(10 * time.Second):
				}
			case "X", "W":
				extAfter, _ = strconv.Atoi(f[1])
				q, _ := strconv.Atoi(f[2])
				extUs = q * 250
			case "S":
				// the point was not reached by the start itself: it stays armed while we write
			}
		}
		if alive {
			// where the special writes of a job's mode go: a few writes before the kill from outside, or early in the life
			special := 12
			if extAfter >= 8 {
				special = extAfter - 6
			}
			for i := 0; i < job.opsMax; i++ {
				if i == special && strings.Contains(job.mode, "big") {
					// one value above 1 MiB (the wal encoder has a 1 MiB buffer; raft entries of that size go another way)
					g.seq++
					g.pending = append(g.pending, []string{"set", key("a", g.r.Intn(nKeys)), fmt.Sprintf("%s%d.", g.tag, g.seq) + strings.Repeat("v", 1100*1024)})
				}
				if i == special && strings.Contains(job.mode, "ttl") {
					// a key with an expire time, then counters on it: a replay must see it as the live apply saw it (the
					// expire time is judged with the timestamp of the raft entry), whenever the replay happens
					ek := key("e", g.r.Intn(nKeys))
					g.pending = append(g.pending, []string{"setex", ek, strconv.Itoa(ttlSeconds), "10"}, []string{"incr", ek}, []string{"incrby", ek, "5"})
				}
				op := OpRec{Cmd: g.next()}
				if strings.Contains(job.mode, "purge") && op.Cmd[0] == "set" && len(op.Cmd[2]) < 100 {
					// entries of a few KiB: several WAL segments between two snapshots (the purger has something to remove
					// while the newest snapshot lies inside an older segment)
					op.Cmd = []string{op.Cmd[0], op.Cmd[1], op.Cmd[2] + strings.Repeat("w", 7000)}
				}
				if op.Cmd[0] == "setex" && strings.HasPrefix(op.Cmd[1], nsName+":t:e") {
					lastVolatile = time.Now()
				}
				if extAfter >= 0 && i == extAfter {
					go func(us int) {
						time.Sleep(time.Duration(us) * time.Microsecond)
						lv.ch.cmd.Process.Kill()
					}(extUs)
				}
				v, isErr, err := c.do(20*time.Second, op.Cmd...)
				if err != nil {
					op.Status = "lost"
					rec.Ops = append(rec.Ops, op)
					alive = false
					break
				}
				if isErr {
					op.Status, op.Reply = "err", v
				} else {
					op.Status, op.Reply = "ack", v
				}
				rec.Ops = append(rec.Ops, op)
			}
		}
		c.close()
		exitedByItself := lv.ch.waitExit(3 * time.Second)
		if !exitedByItself {
			// the selected point was not reached within the run: kill -9 from outside
			lv.ch.kill()
		}
		evs := []string{}
		if _, err := os.Stat(lv.evlog); err == nil {
			evs = hx.ReadLines(lv.evlog)
		}
		switch {
		case len(evs) > 0 && strings.HasPrefix(evs[len(evs)-1], "KILL "):
			rec.Death = "crashpoint"
		case extAfter >= 0 || !exitedByItself:
			rec.Death = "external"
		default:
			rec.Death = "unexpected-exit"
			rec.Log = crashHead(lv.ch.logf) + tailFile(lv.ch.logf, 6000)
			if isEnvFailure("", rec.Log) {
				rec.Death = "env-exit"
			}
		}
		if strings.Contains(job.mode, "tear") && rec.Death == "external" {
			// the process died while its next record was being written: a torn record behind the WAL's tail
			rec.Tear = tornTail(dir, r)
		}
		if strings.HasPrefix(spec, "W:") && rec.Death == "external" {
			// power loss instead of process death: what the WAL's tail segment received after its last fdatasync is gone
			rec.PowerLoss = powerLoss(dir)
		}
		finishRun(dir, lv, rec, emit)
		run++
	}
}

const ttlSeconds = 2

// tornTail writes the beginning of a record behind the last record of the tail WAL segment: the length field of a
// record of 1200 bytes and the bytes of it up to the next 512-byte sector boundary, zeros behind (what a write that
// the death of the process, or of the machine, cut at a sector boundary leaves; wal.ReadAll answers ErrUnexpectedEOF
// and openWAL repairs the segment). Returns what it did.
func tornTail(dir string, r *hx.Rng) string {
	walDir := filepath.Join(dir, nsName+"-0", "wal-1")
	ents, _ := ioutil.ReadDir(walDir)
	tail := ""
	nseg := 0
	for _, e := range ents {
		if strings.HasSuffix(e.Name(), ".wal") {
			nseg++
			if e.Name() > tail {
				tail = e.Name()
			}
		}
	}
	if tail == "" {
		return "no-wal"
	}
	fp := filepath.Join(walDir, tail)
	b, err := ioutil.ReadFile(fp)
	if err != nil {
		return "read-failed"
	}
	off := int64(0)
	for off+8 <= int64(len(b)) {
		l := int64(binary.LittleEndian.Uint64(b[off : off+8]))
		if l == 0 {
			break
		}
		recBytes := int64(uint64(l) & ^(uint64(0xff) << 56))
		padBytes := int64(0)
		if l < 0 {
			padBytes = int64((uint64(l) >> 56) & 0x7)
		}
		if off+8+recBytes+padBytes > int64(len(b)) {
			return "tail-already-torn"
		}
		off += 8 + recBytes + padBytes
	}
	const recLen = 1200
	frame := make([]byte, 8+recLen)
	binary.LittleEndian.PutUint64(frame[0:8], uint64(recLen))
	dataOff := off + 8
	upTo := int(512 - dataOff%512) // bytes of the record that share the sector of its length field
	for i := 0; i < upTo && i < recLen; i++ {
		frame[8+i] = byte(1 + r.Intn(255))
	}
	fh, err := os.OpenFile(fp, os.O_WRONLY, 0600)
	if err != nil {
		return "open-failed"
	}
	defer fh.Close()
	if _, err := fh.WriteAt(frame, off); err != nil {
		return "write-failed"
	}
	return fmt.Sprintf("torn record at %d of %s (%d segments)", off, tail, nseg)
}

// powerLoss zeroes the tail WAL segment from the offset of the last fdatasync on (the child records name and
// offset of every sync through wal.VerifSyncHook). Returns what it did.
func powerLoss(dir string) string {
	b, err := ioutil.ReadFile(filepath.Join(dir, "walsync"))
	if err != nil {
		return "no-sync-record"
	}
	f := strings.Fields(string(b))
	if len(f) != 2 {
		return "bad-sync-record"
	}
	off, _ := strconv.ParseInt(f[1], 10, 64)
	walDir := filepath.Join(dir, nsName+"-0", "wal-1")
	ents, _ := ioutil.ReadDir(walDir)
	tail := ""
	for _, e := range ents {
		if strings.HasSuffix(e.Name(), ".wal") && e.Name() > tail {
			tail = e.Name()
		}
	}
	if tail == "" || tail != filepath.Base(f[0]) {
		return "tail-changed-since-last-sync"
	}
	fp := filepath.Join(walDir, tail)
	st, err := os.Stat(fp)
	if err != nil || st.Size() <= off {
		return "nothing-unsynced"
	}
	fh, err := os.OpenFile(fp, os.O_WRONLY, 0600)
	if err != nil {
		return "open-failed"
	}
	defer fh.Close()
	zeros := make([]byte, st.Size()-off)
	if _, err := fh.WriteAt(zeros, off); err != nil {
		return "write-failed"
	}
	return fmt.Sprintf("zeroed %d bytes from %d", len(zeros), off)
}

// ---------- parent main ----------

type parentCfg struct {
	Seed     int64
	Out      string
	Port     int
	Dirs     int
	Cycles   int
	OpsMax   int
	Workers  int
	Engines  []string
	Thorough bool
	Replay   string
}

var reWal = regexp.MustCompile(`^wal-1/([0-9a-f]{16})-([0-9a-f]{16})\.wal$`)
var reSnap = regexp.MustCompile(`^snap-1/([0-9a-f]{16})-([0-9a-f]{16})\.snap$`)
var reCk = regexp.MustCompile(`^rocksdb_backup/([0-9a-f]{16})-([0-9a-f]{16})$`)
var reCkTmp = regexp.MustCompile(`^rocksdb_backup/([0-9a-f]{16})-([0-9a-f]{16})\.tmp$`)

// hasTmpCheckpoint: a "<term>-<index>.tmp" directory left by a rocksdb checkpoint that was being written.
// It sorts as index 0 of its term and is skipped or removed by purgeOldCheckpoint in ways the path model
// (which has no terms) does not follow: from then on the checkpoint part of this directory's listings is not compared.
func hasTmpCheckpoint(lst []string) bool {
	for _, x := range lst {
		if reCkTmp.MatchString(x) {
			return true
		}
	}
	return false
}

// listingLine projects a directory listing the way the model prints its world: wal name indices / snap files / checkpoints
func listingLine(lst []string) string {
	var w, s, c []int
	for _, x := range lst {
		if m := reWal.FindStringSubmatch(x); m != nil {
			v, _ := strconv.ParseUint(m[2], 16, 64)
			w = append(w, int(v))
		}
		if m := reSnap.FindStringSubmatch(x); m != nil {
			v, _ := strconv.ParseUint(m[2], 16, 64)
			s = append(s, int(v))
		}
		if m := reCk.FindStringSubmatch(x); m != nil {
			v, _ := strconv.ParseUint(m[2], 16, 64)
			c = append(c, int(v))
		}
	}
	j := func(l []int) string {
		sort.Ints(l)
		p := make([]string, len(l))
		for i, v := range l {
			p[i] = strconv.Itoa(v)
		}
		return strings.Join(p, ",")
	}
	return j(w) + "/" + j(s) + "/" + j(c)
}

func isEvent(e string) bool {
	e = strings.TrimSpace(e)
	return e != "" && !strings.HasPrefix(e, "KILL") && !strings.HasPrefix(e, "ARM")
}

// writeCases turns the recorded runs into the model's input (cases.tsv: the event logs of every life of every
// directory) and the implementation's observables (impl.out: per life the number of events, the directory
// listing found after the death, and the log index up to which the NEXT start replayed).
func writeCases(out string, recs []RunRec, keep int) {
	byDir := map[int][]RunRec{}
	var ids []int
	for _, r := range recs {
		if _, ok := byDir[r.Dir]; !ok {
			ids = append(ids, r.Dir)
		}
		byDir[r.Dir] = append(byDir[r.Dir], r)
	}
	sort.Ints(ids)
	cf := hx.Create(filepath.Join(out, "cases.tsv"))
	io := hx.Create(filepath.Join(out, "impl.out"))
	for _, d := range ids {
		runs := byDir[d]
		sort.Slice(runs, func(i, j int) bool { return runs[i].Run < runs[j].Run })
		// directories with a simulated power loss are outside the path model's crash model (process death):
		// they are judged by the oracle only
		if runs[0].Role == "follower" && runs[0].Start != "ready" {
			// the group could not be started (ports taken, ...): nothing to compare
			continue
		}
		pl := false
		for _, r := range runs {
			if strings.HasPrefix(r.Spec, "W:") {
				pl = true
			}
		}
		if pl {
			continue
		}
		of := 0
		if runs[0].OptFsync {
			of = 1
		}
		var logs, outs []string
		untracked := false
		for i, r := range runs {
			if hasTmpCheckpoint(r.Listing) {
				untracked = true
			}
			ll := listingLine(r.Listing)
			if untracked {
				ll = ll[:strings.LastIndex(ll, "/")+1] + "~"
			}
			logs = append(logs, strings.Join(r.Events, ";")+"@@"+ll)
			n := 0
			for _, e := range r.Events {
				if isEvent(e) {
					n++
				}
			}
			rec := "?"
			if i+1 < len(runs) && runs[i+1].Role == "follower" {
				// a follower is restarted isolated: what it serves is its log up to the commit index it knew
				if runs[i+1].Start == "ready" && runs[i+1].Applied > 0 {
					rec = strconv.FormatUint(runs[i+1].Applied, 10)
				}
			} else if i+1 < len(runs) {
				base, seen := 0, false
				for _, e := range runs[i+1].Events {
					f := strings.Fields(e)
					if len(f) == 3 && f[0] == "rc.snap.chosen" {
						base, _ = strconv.Atoi(f[2])
					}
					if len(f) == 4 && f[0] == "rc.replay.after" {
						cnt, _ := strconv.Atoi(f[1])
						last, _ := strconv.Atoi(f[2])
						if cnt > 0 && last > base {
							base = last
						}
						seen = true
						break
					}
				}
				if seen {
					rec = strconv.Itoa(base)
				}
			}
			outs = append(outs, fmt.Sprintf("ok:%d L=%s rec=%s", n, ll, rec))
		}
		kind := "D"
		if runs[0].Role == "follower" {
			kind = "F"
		}
		cf.Printf("d%d\t%s\t%d,%d,%d\t%s\n", d, kind, keep, keep, of, strings.Join(logs, " | "))
		io.Printf("d%d\t%s\n", d, strings.Join(outs, " | "))
	}
	cf.Close()
	io.Close()
}

func runParent(pc parentCfg) {
	self, err := os.Executable()
	if err != nil {
		panic(err)
	}
	os.MkdirAll(pc.Out, 0755)
	tf, err := os.Create(filepath.Join(pc.Out, "trace.jsonl"))
	if err != nil {
		panic(err)
	}
	defer tf.Close()
	var mu sync.Mutex
	var all []RunRec
	emit := func(r RunRec) {
		b, _ := json.Marshal(r)
		mu.Lock()
		tf.Write(append(b, '\n'))
		all = append(all, r)
		mu.Unlock()
	}
	var jobs []dirJob
	if pc.Replay != "" {
		b, err := ioutil.ReadFile(pc.Replay)
		if err != nil {
			panic(err)
		}
		var rp struct {
			Jobs []struct {
				Seed     int64    `json:"seed"`
				Engine   string   `json:"engine"`
				OptFsync bool     `json:"optfsync"`
				OpsMax   int      `json:"ops_max"`
				Specs    []string `json:"specs"`
				SnapCnt  int      `json:"snap_count"`
				Mode     string   `json:"mode"`
			} `json:"jobs"`
		}
		if err := json.Unmarshal(b, &rp); err != nil {
			panic(err)
		}
		for i, j := range rp.Jobs {
			jobs = append(jobs, dirJob{id: i, seed: j.Seed, engine: j.Engine, optFsync: j.OptFsync, cycles: len(j.Specs),
				opsMax: j.OpsMax, specs: j.Specs, snapCount: j.SnapCnt, mode: j.Mode})
		}
	} else {
		master := hx.NewRng(pc.Seed)
		for i := 0; i < pc.Dirs; i++ {
			jobs = append(jobs, dirJob{id: i, seed: master.Int63(), engine: pc.Engines[i%len(pc.Engines)], optFsync: i%3 != 2,
				cycles: pc.Cycles, opsMax: pc.OpsMax, thorough: pc.Thorough})
		}
	}
	slots := make(chan int, pc.Workers)
	for i := 0; i < pc.Workers; i++ {
		slots <- i
	}
	var wg sync.WaitGroup
	for _, j := range jobs {
		wg.Add(1)
		slot := <-slots
		go func(j dirJob, slot int) {
			defer wg.Done()
			defer func() { slots <- slot }()
			runDir(self, j, &portAlloc{base: pc.Port + slot*portsPerSlot}, emit)
		}(j, slot)
	}
	wg.Wait()
	writeCases(pc.Out, all, 2)
}
