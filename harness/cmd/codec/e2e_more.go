package main

// More legs of the end-to-end check (see e2e.go):
//   multiReads — multi-key / multi-field READ commands with malformed keys interleaved: every reply slot must be
//                what the single-key read of exactly that argument gives (MGET, EXISTS, HMGET), and a multi-key
//                DEL with refused keys in between deletes exactly the valid ones;
//   bigScenario — range operations around RangeDeleteNum (5000), where the code switches from per-key deletes
//                to one engine DeleteRange: LTRIM dropping 4999/5000/5001 head or tail elements, clears of
//                hashes / sets / zsets with exactly 4999/5000/5001 elements: exactly the addressed element
//                keys disappear (list elements are recognised by their unique VALUE, so no key is decoded).

import (
	"bytes"
	"fmt"
	"math"
	"os"
	"sort"

	"github.com/youzan/ZanRedisDB/common"
	rr "github.com/youzan/ZanRedisDB/rockredis"
	"verif/harness/internal/hx"
)

func diffInto(rec *e2eRec, before, after map[string]string) {
	removed, added := map[string]bool{}, map[string]bool{}
	for k, v := range before {
		nv, ok := after[k]
		if !ok {
			if !isTableCounter(k) {
				removed[k] = true
			}
		} else if nv != v && !isTableCounter(k) {
			rec.Changed = append(rec.Changed, H([]byte(k)))
		}
	}
	for k := range after {
		if _, ok := before[k]; !ok && !isTableCounter(k) {
			added[k] = true
		}
	}
	rec.Removed, rec.Added = sortedHex(removed), sortedHex(added)
	sort.Strings(rec.Changed)
}

func errStr(err error) string {
	if err != nil {
		return "err"
	}
	return "ok"
}

// multiReads: one record per multi-argument read command
func (e *e2e) multiReads(idPrefix string, seed int64, emit func(e2eRec)) {
	r := e.r
	var kvs, hashes []collID
	for _, c := range e.order {
		if e.alive[c] == nil {
			continue
		}
		switch c.Typ {
		case "kv":
			kvs = append(kvs, c)
		case "hash":
			hashes = append(hashes, c)
		}
	}
	table := "t"
	if len(e.order) > 0 {
		table = e.order[0].Table
	}
	bigKey := append([]byte(table+":"), make([]byte, rr.MaxKeySize)...)
	malformed := [][]byte{[]byte("bad"), []byte(":x"), {}, bigKey, []byte("no-separator-at-all")}
	// argument list: malformed keys interleaved with stored and absent well-formed ones
	var args [][]byte
	args = append(args, malformed[r.Pick(len(malformed))])
	for i, c := range kvs {
		if i >= 4 {
			break
		}
		args = append(args, c.raw())
		if r.Chance(0.5) {
			args = append(args, malformed[r.Pick(len(malformed))])
		}
	}
	args = append(args, []byte(table+":absent-key"), malformed[r.Pick(len(malformed))])
	if len(kvs) > 0 {
		args = append(args, kvs[0].raw())
	}
	before := e.dump()
	{
		rec := e2eRec{ID: idPrefix + ".mget", Seed: seed, Policy: e.policy, Op: "MGET(mixed)"}
		vals, errs := e.db.MGet(args...)
		for i, a := range args {
			v1, err1 := e.db.KVGet(a)
			got := errStr(errs[i]) + ":" + H(vals[i])
			want := errStr(err1) + ":" + H(v1)
			if err1 != nil {
				// a key the single-key read refuses: the slot must be empty (nil), with or without an error
				if vals[i] != nil {
					rec.Logical = append(rec.Logical, fmt.Sprintf("MGET slot %d (refused argument %s) carries a value: %s", i, H(a), H(vals[i])))
				}
				continue
			}
			if got != want || (vals[i] == nil) != (v1 == nil) {
				rec.Logical = append(rec.Logical, fmt.Sprintf("MGET slot %d (argument %s) = %s but GET of that argument = %s", i, H(a), got, want))
			}
		}
		diffInto(&rec, before, e.dump())
		emit(rec)
	}
	{
		rec := e2eRec{ID: idPrefix + ".exists", Seed: seed, Policy: e.policy, Op: "EXISTS(mixed)"}
		n, err := e.db.KVExists(args...)
		want := int64(0)
		for _, a := range args {
			if c, err1 := e.db.KVExists(a); err1 == nil {
				want += c
			}
		}
		if err != nil || n != want {
			rec.Logical = append(rec.Logical, fmt.Sprintf("EXISTS of %d mixed arguments = %d (%v), the single-key calls add up to %d", len(args), n, err, want))
		}
		diffInto(&rec, before, e.dump())
		emit(rec)
	}
	for i, c := range hashes {
		if i >= 2 {
			break
		}
		rec := e2eRec{ID: fmt.Sprintf("%s.hmget%d", idPrefix, i), Seed: seed, Policy: e.policy, Op: "HMGET(mixed)", Targets: []string{c.String()}}
		fields := [][]byte{[]byte("no-such-field")}
		for _, m := range e.alive[c] {
			fields = append(fields, m)
			if r.Chance(0.4) {
				fields = append(fields, memberPool[r.Pick(len(memberPool))])
			}
		}
		fields = append(fields, []byte{}, []byte("zz"))
		vals, err := e.db.HMget(c.raw(), fields...)
		if err != nil {
			rec.Err = err.Error()
		} else {
			for j, f := range fields {
				v1, _ := e.db.HGet(c.raw(), f)
				if H(vals[j]) != H(v1) || (vals[j] == nil) != (v1 == nil) {
					rec.Logical = append(rec.Logical, fmt.Sprintf("HMGET slot %d (field %s) = %s but HGET of that field = %s", j, H(f), H(vals[j]), H(v1)))
				}
			}
		}
		diffInto(&rec, before, e.dump())
		emit(rec)
	}
}

// ---------- around RangeDeleteNum ----------

type bigCfg struct {
	kind        string // ltrim | hclear | sclear | zclear | zremrank | zremscore
	n           int
	start, stop int64
}

func bigConfigs() []bigCfg {
	R := rr.RangeDeleteNum
	var out []bigCfg
	n := int64(R + 7)
	// head drops of R-1, R, R+1 elements; tail drops likewise; both ends beyond R
	for _, d := range []int64{int64(R) - 1, int64(R), int64(R) + 1} {
		out = append(out, bigCfg{"ltrim", int(n), d, n - 1})
		out = append(out, bigCfg{"ltrim", int(n), 2, n - 1 - d})
	}
	out = append(out, bigCfg{"ltrim", 2*R + 9, int64(R) + 2, int64(R) + 4})
	out = append(out, bigCfg{"ltrim", int(n), int64(R) + 1, -3})
	for _, k := range []string{"hclear", "sclear", "zclear"} {
		for _, d := range []int{R - 1, R, R + 1} {
			out = append(out, bigCfg{k, d, 0, 0})
		}
	}
	out = append(out, bigCfg{"zremrank", R + 1, 0, -1}, bigCfg{"zremscore", R + 1, 0, 0})
	return out
}

func bigScenario(seed int64, policy string, ci int, cfg bigCfg, emit func(e2eRec)) {
	dir, err := os.MkdirTemp("", "verif-codec-big-")
	if err != nil {
		panic(err)
	}
	defer os.RemoveAll(dir)
	c0 := rr.NewRockRedisDBConfig()
	c0.EngineType = "mem"
	c0.DataDir = dir
	c0.EnableTableCounter = true
	if policy == "compact" {
		c0.ExpirationPolicy = common.WaitCompact
		c0.DataVersion = common.ValueHeaderV1
	}
	db, err := rr.OpenRockDB(c0)
	id := fmt.Sprintf("b%s%d", policy[:1], ci)
	if err != nil {
		emit(e2eRec{ID: id, Seed: seed, Policy: policy, Err: "open: " + err.Error()})
		return
	}
	defer db.Close()
	e := &e2e{db: db, r: hx.NewRng(seed*7 + int64(ci)), policy: policy, ts: 1700000000000000000, owned: map[collID]map[string]bool{}, alive: map[collID][][]byte{},
		mowned: map[collID]map[string]map[string]bool{}, score: map[collID]map[string]float64{}}
	typ := map[string]string{"ltrim": "list", "hclear": "hash", "sclear": "set", "zclear": "zset", "zremrank": "zset", "zremscore": "zset"}[cfg.kind]
	// neighbours of the same type whose names surround the big one
	for _, rk := range []string{"bif", "big\x00", "bih", "bi", "big:"} {
		e.populate(collID{typ, "t", rk}, [][]byte{{}, []byte("a"), []byte("b")})
	}
	e.populate(collID{typ, "t2", "big"}, [][]byte{{}, []byte("a")})
	big := collID{typ, "t", "big"}
	raw := big.raw()
	before0 := e.dump()
	val := func(i int) []byte { return []byte(fmt.Sprintf("e%06d", i)) }
	for lo := 0; lo < cfg.n && err == nil; lo += 2000 {
		hi := lo + 2000
		if hi > cfg.n {
			hi = cfg.n
		}
		switch typ {
		case "list":
			vs := make([][]byte, 0, hi-lo)
			for i := lo; i < hi; i++ {
				vs = append(vs, val(i))
			}
			_, err = db.RPush(e.tick(), raw, vs...)
		case "hash":
			kvs := make([]common.KVRecord, 0, hi-lo)
			for i := lo; i < hi; i++ {
				kvs = append(kvs, common.KVRecord{Key: val(i), Value: val(i)})
			}
			err = db.HMset(e.tick(), raw, kvs...)
		case "set":
			vs := make([][]byte, 0, hi-lo)
			for i := lo; i < hi; i++ {
				vs = append(vs, val(i))
			}
			_, err = db.SAdd(e.tick(), raw, vs...)
		case "zset":
			ps := make([]common.ScorePair, 0, hi-lo)
			for i := lo; i < hi; i++ {
				ps = append(ps, common.ScorePair{Score: float64(i%7) - 3, Member: val(i)})
			}
			_, err = db.ZAdd(e.tick(), raw, ps...)
		}
	}
	rec := e2eRec{ID: id, Seed: seed, Policy: policy, Targets: []string{big.String()}}
	if err != nil {
		rec.Err = "populate: " + err.Error()
		emit(rec)
		return
	}
	before := e.dump()
	owned, metaOwned := map[string]bool{}, map[string]bool{}
	byValue := map[string]string{} // list element value -> engine key
	for k, v := range before {
		if _, ok := before0[k]; !ok && !isTableCounter(k) {
			owned[k] = true
			if isMetaKey(k) {
				metaOwned[k] = true
			} else if typ == "list" {
				byValue[v] = k
			}
		}
	}
	logBefore := map[collID]string{}
	for _, o := range e.order {
		logBefore[o] = e.logical(o)
	}
	var opErr error
	n := int64(cfg.n)
	switch cfg.kind {
	case "ltrim":
		rec.Op = fmt.Sprintf("LTRIM(n=%d,%d,%d)", cfg.n, cfg.start, cfg.stop)
		opErr = db.LTrim(e.tick(), raw, cfg.start, cfg.stop)
		start, stop := cfg.start, cfg.stop
		if stop < 0 {
			stop = n + stop
		}
		rec.Partial = true
		sel := map[string]bool{}
		for i := int64(0); i < n; i++ {
			if i < start || i > stop {
				if k, ok := byValue[string(val(int(i)))]; ok {
					sel[k] = true
				} else {
					rec.Logical = append(rec.Logical, fmt.Sprintf("element %d was not stored", i))
				}
			}
		}
		rec.SelOwned = sortedHex(sel)
		// API-level view of the kept part
		ll, _ := db.LLen(raw)
		first, _ := db.LIndex(raw, 0)
		last, _ := db.LIndex(raw, -1)
		rg, _ := db.LRange(raw, 0, 2)
		if ll != stop-start+1 || !bytes.Equal(first, val(int(start))) || !bytes.Equal(last, val(int(stop))) ||
			len(rg) == 0 || !bytes.Equal(rg[0], val(int(start))) {
			rec.Logical = append(rec.Logical, fmt.Sprintf("after %s: LLEN %d (want %d), LINDEX 0 = %q (want %q), LINDEX -1 = %q (want %q), LRANGE 0 2 = %q",
				rec.Op, ll, stop-start+1, first, val(int(start)), last, val(int(stop)), rg))
		}
	case "hclear":
		rec.Op = fmt.Sprintf("HClear(n=%d)", cfg.n)
		_, opErr = db.HClear(e.tick(), raw)
	case "sclear":
		rec.Op = fmt.Sprintf("SClear(n=%d)", cfg.n)
		_, opErr = db.SClear(e.tick(), raw)
	case "zclear":
		rec.Op = fmt.Sprintf("ZClear(n=%d)", cfg.n)
		_, opErr = db.ZClear(e.tick(), raw)
	case "zremrank":
		rec.Op = fmt.Sprintf("ZRemRangeByRank(all,n=%d)", cfg.n)
		_, opErr = db.ZRemRangeByRank(e.tick(), raw, 0, -1)
	case "zremscore":
		rec.Op = fmt.Sprintf("ZRemRangeByScore(all,n=%d)", cfg.n)
		_, opErr = db.ZRemRangeByScore(e.tick(), raw, math.Inf(-1), math.Inf(1))
	}
	if opErr != nil {
		rec.Err = opErr.Error()
	}
	rec.Owned, rec.MetaOwned = sortedHex(owned), sortedHex(metaOwned)
	diffInto(&rec, before, e.dump())
	for _, o := range e.order {
		if got := e.logical(o); got != logBefore[o] {
			rec.Logical = append(rec.Logical, fmt.Sprintf("neighbour %s changed from %s to %s by %s", o, logBefore[o], got, rec.Op))
		}
	}
	if cfg.kind != "ltrim" {
		// the cleared collection must read empty and hold only a fresh member after re-creation
		if err := e.populate(big, [][]byte{[]byte("fresh")}); err != nil {
			rec.Logical = append(rec.Logical, "re-create failed: "+err.Error())
		} else {
			want := map[string]string{"hash": H([]byte("fresh")) + "=" + H([]byte("vfresh")), "set": H([]byte("fresh")), "zset": H([]byte("fresh")) + "@bff0000000000000"}[typ]
			if got := e.logical(big); got != want {
				rec.Logical = append(rec.Logical, fmt.Sprintf("after %s and re-creating the collection with one fresh member it reads %.200s, want %s", rec.Op, got, want))
			}
		}
	}
	// keep the record small: the judge needs the sets only when they differ
	if len(rec.Owned) > 64 {
		rem, own, sel := map[string]bool{}, map[string]bool{}, map[string]bool{}
		for _, k := range rec.Removed {
			rem[k] = true
		}
		for _, k := range rec.Owned {
			own[k] = true
		}
		for _, k := range rec.SelOwned {
			sel[k] = true
		}
		rec.Owned, rec.Removed, rec.SelOwned = symDiffTag(own, rem, sel, rec.Partial)
	}
	emit(rec)
}

// symDiffTag shrinks huge key sets to what decides the verdict: the elements on which expectation and
// observation differ (plus a marker so that equal sets stay equal and unequal sets stay unequal)
func symDiffTag(own, rem, sel map[string]bool, partial bool) (o, r, s []string) {
	exp := own
	if partial {
		exp = sel
	}
	for k := range exp {
		if !rem[k] {
			if partial {
				s = append(s, k)
			}
			o = append(o, k)
		}
	}
	for k := range rem {
		if !exp[k] {
			r = append(r, k)
		} else if !partial {
			// keep removed ⊆ owned decidable for the wait_compact rule
		}
	}
	sort.Strings(o)
	sort.Strings(r)
	sort.Strings(s)
	if len(o) > 50 {
		o = o[:50]
	}
	if len(r) > 50 {
		r = r[:50]
	}
	if len(s) > 50 {
		s = s[:50]
	}
	return
}

// ---------- background compaction under wait_compact ----------

// compactScenario: collections of DIFFERENT types with the SAME "table:key" name, all written with old raft
// timestamps (beyond the 48 h lazy window); per name one type is cleared and re-created (old generation dead,
// new one live), one is cleared (dead), one is given a TTL that ran out long ago (dead), the rest stay live.
// Then a full compaction is played: the registered compaction filter (rockredis.VerifCompactFilter — the
// production rockCompactFilter.Filter) is called for every engine pair in key order, twice, and what it
// condemns is removed at once, as a compaction does. Ownership oracle: only keys of DEAD generations of the
// (type, table, key) they belong to may disappear; every live collection reads as before.
func compactScenario(seed int64, idx int, emit func(e2eRec)) {
	dir, err := os.MkdirTemp("", "verif-codec-cmp-")
	if err != nil {
		panic(err)
	}
	defer os.RemoveAll(dir)
	c0 := rr.NewRockRedisDBConfig()
	c0.EngineType = "mem"
	c0.DataDir = dir
	c0.EnableTableCounter = true
	c0.ExpirationPolicy = common.WaitCompact
	c0.DataVersion = common.ValueHeaderV1
	db, err := rr.OpenRockDB(c0)
	id := fmt.Sprintf("cp%d", idx)
	rec := e2eRec{ID: id, Seed: seed, Policy: "compact", Op: "compaction(filter)"}
	if err != nil {
		rec.Err = "open: " + err.Error()
		emit(rec)
		return
	}
	defer db.Close()
	r := hx.NewRng(seed*13 + int64(idx)*4099 + 5)
	e := &e2e{db: db, r: r, policy: "compact", ts: 1700000000000000000, owned: map[collID]map[string]bool{}, alive: map[collID][][]byte{},
		mowned: map[collID]map[string]map[string]bool{}, score: map[collID]map[string]float64{}}
	names := [][2]string{{"t", "k"}, {"t", "kk"}, {"t2", "k"}, {"t", "k:"}}
	dead := map[string]bool{}
	kill := func(c collID) { // everything the collection owns right now belongs to a dead generation
		cur := e.dump()
		for k := range e.owned[c] {
			if _, ok := cur[k]; ok {
				dead[k] = true
			}
		}
		e.owned[c] = map[string]bool{}
		delete(e.mowned, c)
		delete(e.score, c)
		e.alive[c] = nil
	}
	// a string with a TTL that is long over comes first in key order: the filter reads the clock on it
	ttl := collID{"kv", "a", "ttl"}
	before0 := e.dump()
	if err := db.SetEx(e.tick(), ttl.raw(), 1, []byte("v")); err != nil {
		rec.Err = "setex: " + err.Error()
		emit(rec)
		return
	}
	e.owned[ttl] = map[string]bool{}
	for k := range e.dump() {
		if _, ok := before0[k]; !ok && !isTableCounter(k) {
			dead[k] = true
		}
	}
	for ni, nm := range names {
		types := []string{"hash", "list", "set", "zset"}
		if ni%2 == 0 {
			types = append(types, "bitmap")
		} else {
			types = append(types, "kv")
		}
		for _, typ := range types {
			c := collID{typ, nm[0], nm[1]}
			if err := e.populate(c, e.pickMembers(2+r.Pick(3), r.Chance(0.5))); err != nil {
				rec.Logical = append(rec.Logical, fmt.Sprintf("populate %s: %v", c, err))
			}
		}
		// per name: one type re-created, one cleared, one expired
		coll := []string{"hash", "list", "set", "zset"}
		r.Shuffle(len(coll), func(a, b int) { coll[a], coll[b] = coll[b], coll[a] })
		clearIt := func(c collID) {
			raw := c.raw()
			switch c.Typ {
			case "hash":
				db.HClear(e.tick(), raw)
			case "list":
				db.LClear(e.tick(), raw)
			case "set":
				db.SClear(e.tick(), raw)
			case "zset":
				db.ZClear(e.tick(), raw)
			}
			kill(c)
		}
		re := collID{coll[0], nm[0], nm[1]}
		clearIt(re)
		e.ts += 3600 * 1000000000
		if err := e.populate(re, e.pickMembers(2, false)); err != nil {
			rec.Logical = append(rec.Logical, fmt.Sprintf("re-create %s: %v", re, err))
		}
		if r.Chance(0.7) {
			clearIt(collID{coll[1], nm[0], nm[1]})
		}
		if r.Chance(0.7) {
			x := collID{coll[2], nm[0], nm[1]}
			var n int64
			var xerr error
			switch x.Typ {
			case "hash":
				n, xerr = db.HExpire(e.tick(), x.raw(), 1)
			case "list":
				n, xerr = db.LExpire(e.tick(), x.raw(), 1)
			case "set":
				n, xerr = db.SExpire(e.tick(), x.raw(), 1)
			case "zset":
				n, xerr = db.ZExpire(e.tick(), x.raw(), 1)
			}
			if xerr == nil && n == 1 {
				kill(x)
			}
		}
	}
	rec.Logical = append(rec.Logical, e.lentCheck()...)
	logBefore := map[collID]string{}
	for _, o := range e.order {
		logBefore[o] = e.logical(o)
	}
	before := e.dump()
	for k := range dead { // keys that a later command already removed are not the compaction's business
		if _, ok := before[k]; !ok {
			delete(dead, k)
		}
	}
	// the compaction: every pair in key order through the production filter, condemned keys go at once
	for pass := 0; pass < 2; pass++ {
		cur := e.dump()
		keys := make([]string, 0, len(cur))
		for k := range cur {
			keys = append(keys, k)
		}
		sort.Strings(keys)
		for _, k := range keys {
			rm, ok := db.VerifCompactFilter([]byte(k), []byte(cur[k]))
			if !ok {
				rec.Err = "no compaction filter registered"
				emit(rec)
				return
			}
			if rm {
				db.VerifRawDelete([][]byte{[]byte(k)})
			}
		}
	}
	after := e.dump()
	diffInto(&rec, before, after)
	rec.Owned = sortedHex(dead)
	if len(rec.Removed) == 0 {
		rec.Logical = append(rec.Logical, "the compaction removed nothing although dead generations exist (scenario without effect)")
	}
	for _, o := range e.order {
		if got := e.logical(o); got != logBefore[o] {
			rec.Logical = append(rec.Logical, fmt.Sprintf("%s read %s before the compaction and %s after it", o, logBefore[o], got))
		}
	}
	emit(rec)
}

// bitConvertScenario: a bitmap written in the old format (one string value) is converted to segment keys by the
// first new-format SETBIT; the conversion and the new bit touch the same segment key, every bit must survive
// and the neighbours must not change.
func bitConvertScenario(seed int64, policy string, emit func(e2eRec)) {
	dir, err := os.MkdirTemp("", "verif-codec-bit-")
	if err != nil {
		panic(err)
	}
	defer os.RemoveAll(dir)
	c0 := rr.NewRockRedisDBConfig()
	c0.EngineType = "mem"
	c0.DataDir = dir
	if policy == "compact" {
		c0.ExpirationPolicy = common.WaitCompact
		c0.DataVersion = common.ValueHeaderV1
	}
	db, err := rr.OpenRockDB(c0)
	rec := e2eRec{ID: "bm" + policy[:1], Seed: seed, Policy: policy, Op: "SETBIT converts an old-format bitmap"}
	if err != nil {
		rec.Err = "open: " + err.Error()
		emit(rec)
		return
	}
	defer db.Close()
	r := hx.NewRng(seed*3 + 11)
	ts := int64(1700000000000000000)
	db.BitSetOld(ts+1, []byte("t:bn"), 5, 1)
	db.BitSetV2(ts+2, []byte("t:bl"), 5, 1)
	ts += 10
	// the new bit in the first segment, at a segment border, in the last old segment, beyond the old data
	for i, newOff := range []int64{77, 8191, 8201, 20000 + 8192*2} {
		key := []byte(fmt.Sprintf("t:bm%d", i))
		offs := []int64{3, 10, 4000 + int64(r.Pick(100)), 8200, 20000 + int64(r.Pick(1000))}
		for _, o := range offs {
			ts += 1000
			if _, err := db.BitSetOld(ts, key, o, 1); err != nil {
				rec.Err = "BitSetOld: " + err.Error()
				emit(rec)
				return
			}
		}
		ts += 1000
		if _, err := db.BitSetV2(ts, key, newOff, 1); err != nil {
			rec.Err = "BitSetV2: " + err.Error()
		}
		for _, o := range append(offs, newOff) {
			if b, err := db.BitGetV2(key, o); err != nil || b != 1 {
				rec.Logical = append(rec.Logical, fmt.Sprintf("bit %d of the converted bitmap %s reads %d (%v) after SETBIT %d", o, key, b, err, newOff))
			}
		}
		if n, err := db.BitCountV2(key, 0, -1); err != nil || n != int64(len(offs)+1) {
			rec.Logical = append(rec.Logical, fmt.Sprintf("BITCOUNT of the converted bitmap %s = %d (%v), want %d", key, n, err, len(offs)+1))
		}
	}
	if b, _ := db.BitGetV2([]byte("t:bn"), 5); b != 1 {
		rec.Logical = append(rec.Logical, "the neighbour old-format bitmap t:bn lost its bit")
	}
	if b, _ := db.BitGetV2([]byte("t:bl"), 5); b != 1 {
		rec.Logical = append(rec.Logical, "the neighbour bitmap t:bl lost its bit")
	}
	emit(rec)
}
