package main

// End-to-end leg of C12 on a REAL RockDB (mem engine): collections of every type are populated under
// adversarial (table, key, member) names — including the EMPTY member/field name and members equal to the
// boundary bytes — then range operations (clear, multi-clear, remove-all-by-rank/score/lex, key delete,
// whole-table delete) are run one by one. Before and after every operation the raw engine content is listed.
// Ownership of an engine key is known BY CONSTRUCTION (the keys that appeared when its collection was
// populated), not by decoding, so the verdict does not depend on the codec under test:
//   removed keys == keys owned by the addressed collection(s)   (policies that delete element keys)
//   removed keys  ⊆ owned, the meta record is among them         (wait_compact: only the meta record goes)
//   every other engine key and value is byte-identical
//   reading the addressed collection gives nothing; after re-creating it with one fresh member exactly that
//   member is visible; every other collection reads as before.
// One JSON line per operation goes to e2e.jsonl; the Python oracle (props/C12.py) judges them.

import (
	"encoding/json"
	"fmt"
	"math"
	"os"
	"sort"
	"strings"

	"github.com/youzan/ZanRedisDB/common"
	"github.com/youzan/ZanRedisDB/engine"
	rr "github.com/youzan/ZanRedisDB/rockredis"
	"verif/harness/internal/hx"
)

// ---------- raw engine for RD cases (range iterator semantics) ----------

var rawEng engine.KVEngine
var rawDir string

func rawEngine() engine.KVEngine {
	if rawEng != nil {
		return rawEng
	}
	dir, err := os.MkdirTemp("", "verif-codec-raw-")
	if err != nil {
		panic(err)
	}
	rawDir = dir
	cfg := engine.NewRockConfig()
	cfg.DataDir = dir
	cfg.EngineType = "mem"
	eng, err := engine.NewKVEng(cfg)
	if err != nil {
		panic(err)
	}
	if err := eng.OpenEng(); err != nil {
		panic(err)
	}
	rawEng = eng
	return eng
}

func closeRaw() {
	if rawEng != nil {
		rawEng.CloseAll()
		os.RemoveAll(rawDir)
	}
}

// runRD: put the keys into an empty mem engine, iterate (lo, hi, rtype) forward, list the visited keys
func runRD(rtype uint8, lo, hi []byte, keys [][]byte, reverse bool) string {
	eng := rawEngine()
	wb := eng.NewWriteBatch()
	for _, k := range keys {
		wb.Put(k, []byte("v"))
	}
	if err := eng.Write(wb); err != nil {
		return "err " + err.Error()
	}
	wb.Clear()
	opts := engine.IteratorOpts{Range: engine.Range{Min: lo, Max: hi, Type: rtype}, Reverse: reverse}
	it, err := engine.NewDBRangeIteratorWithOpts(eng, opts)
	if err != nil {
		return "err"
	}
	var got [][]byte
	for ; it.Valid(); it.Next() {
		got = append(got, append([]byte{}, it.RefKey()...))
	}
	it.Close()
	for _, k := range keys {
		wb.Delete(k)
	}
	eng.Write(wb)
	wb.Destroy()
	if len(got) == 0 {
		return "~"
	}
	return hx.HL(got)
}

// runDR: put the keys into the empty mem engine, WriteBatch.DeleteRange(lo, hi), list what is left
func runDR(lo, hi []byte, keys [][]byte) string {
	eng := rawEngine()
	wb := eng.NewWriteBatch()
	for _, k := range keys {
		wb.Put(k, []byte("v"))
	}
	if err := eng.Write(wb); err != nil {
		return "err"
	}
	wb.Clear()
	wb.DeleteRange(lo, hi)
	if err := eng.Write(wb); err != nil {
		return "err"
	}
	wb.Clear()
	it, err := engine.NewDBRangeIteratorWithOpts(eng, engine.IteratorOpts{Range: engine.Range{Min: []byte{0}, Max: []byte{0xff, 0xff, 0xff, 0xff}, Type: common.RangeClose}})
	if err != nil {
		return "err"
	}
	var got [][]byte
	for ; it.Valid(); it.Next() {
		got = append(got, append([]byte{}, it.RefKey()...))
	}
	it.Close()
	for _, k := range got {
		wb.Delete(k)
	}
	eng.Write(wb)
	wb.Destroy()
	if len(got) == 0 {
		return "~"
	}
	return hx.HL(got)
}

// ---------- the scenario ----------

type collID struct {
	Typ   string
	Table string
	RK    string
}

func (c collID) raw() []byte { return []byte(c.Table + ":" + c.RK) }
func (c collID) String() string {
	return fmt.Sprintf("%s/%s/%s", c.Typ, H([]byte(c.Table)), H([]byte(c.RK)))
}

type e2eRec struct {
	ID        string   `json:"id"`
	Seed      int64    `json:"seed"`
	Policy    string   `json:"policy"`
	Op        string   `json:"op"`
	Targets   []string `json:"targets"`
	Removed   []string `json:"removed"`
	Owned     []string `json:"owned"`     // engine keys owned by the targets before the op
	MetaOwned []string `json:"metaowned"` // the meta / size / kv records among them
	Changed   []string `json:"changed"`   // keys whose value changed, "key:old>new"
	Added     []string `json:"added"`
	Allowed   []string `json:"allowed"` // keys that may change or disappear as a side effect (table counters)
	Logical   []string `json:"logical"` // API-level failures, empty = fine
	Members   []string `json:"members"` // members of the first target before the op
	Partial   bool     `json:"partial"`  // a sub-key level operation: only the selected members' keys may go
	SelOwned  []string `json:"selowned"` // engine keys owned by the selected members
	Err       string   `json:"err"`
}

type e2e struct {
	db     *rr.RockDB
	r      *hx.Rng
	policy string
	ts     int64
	owned  map[collID]map[string]bool
	mowned map[collID]map[string]map[string]bool // engine keys owned by one member of a hash/set/zset
	score  map[collID]map[string]float64         // zset member -> score
	alive  map[collID][][]byte                   // current members
	lentRaw, lentCopy [][]byte
	order  []collID
}

var memberPool = [][]byte{
	{}, []byte("a"), {'a', 0}, []byte("ab"), []byte(":"), []byte(";"), {0}, {0xff}, {0xff, 0xff}, []byte("a:b"),
	[]byte("12345678"), []byte("123456789"), {0, 0}, []byte("9"), {0x3a, 0}, {0x39}, {0x3b, 0}, []byte("b"),
}
var rkPool = [][]byte{[]byte("k"), []byte("k:"), []byte("k:k"), []byte("kk"), {0}, {0xff}, []byte("k;"), []byte("12345678"),
	[]byte("123456789"), {'k', 0}, {0, 1, 'k', ':'}}
var tablePool = [][]byte{[]byte("t"), []byte("t2"), []byte("tt"), {'t', 0}, []byte("t;"), {0xff}}

func (e *e2e) dump() map[string]string {
	out := map[string]string{}
	it, err := e.db.NewDBRangeIterator([]byte{0}, []byte{0xff, 0xff, 0xff, 0xff, 0xff}, common.RangeClose, false)
	if err != nil {
		panic(err)
	}
	for ; it.Valid(); it.Next() {
		out[string(it.RefKey())] = string(it.RefValue())
	}
	it.Close()
	return out
}

func sortedHex(m map[string]bool) []string {
	out := make([]string, 0, len(m))
	for k := range m {
		out = append(out, H([]byte(k)))
	}
	sort.Strings(out)
	return out
}

func (e *e2e) tick() int64 { e.ts += 1000; return e.ts }

// populate one collection with the given members; records ownership of the engine keys that appear
func (e *e2e) populate(c collID, members [][]byte) error {
	before := e.dump()
	raw := c.raw()
	var err error
	switch c.Typ {
	case "kv":
		err = e.db.KVSet(e.tick(), raw, append([]byte("v-"), members[0]...))
	case "hash":
		for _, m := range members {
			b0 := e.dump()
			pk, pa := e.asParsed("hset", raw, m, append([]byte("v"), m...))
			if _, err = e.db.HSet(e.tick(), false, pk, pa[0], pa[1]); err != nil {
				break
			}
			e.noteMember(c, m, b0)
		}
	case "set":
		for _, m := range members {
			b0 := e.dump()
			pk, pa := e.asParsed("sadd", raw, m, []byte("x"))
			if _, err = e.db.SAdd(e.tick(), pk, pa[0]); err != nil {
				break
			}
			e.noteMember(c, m, b0)
		}
	case "zset":
		if e.score[c] == nil {
			e.score[c] = map[string]float64{}
		}
		scs := []float64{-2.5, -1, 0, 1, 1, 3e10, math.Inf(-1), math.Inf(1), -1e-300}
		for i, m := range members {
			sc := scs[(i+len(members))%len(scs)]
			if string(m) == "fresh" {
				sc = -1
			}
			b0 := e.dump()
			pk, pa := e.asParsed("zadd", raw, []byte("1"), m, []byte("2"), []byte("y"))
			if _, err = e.db.ZAdd(e.tick(), pk, common.ScorePair{Score: sc, Member: pa[1]}); err != nil {
				break
			}
			e.score[c][string(m)] = sc
			e.noteMember(c, m, b0)
		}
	case "list":
		_, err = e.db.RPush(e.tick(), raw, members...)
	case "bitmap":
		for i := range members {
			if _, err = e.db.BitSetV2(e.tick(), raw, int64(i)*9000, 1); err != nil {
				break
			}
		}
	case "json":
		_, err = e.db.JSet(e.tick(), raw, []byte(""), []byte(fmt.Sprintf(`{"m":"%x","n":%d}`, members[0], len(members))))
	}
	if err != nil {
		return err
	}
	after := e.dump()
	if e.owned[c] == nil {
		e.owned[c] = map[string]bool{}
		e.order = append(e.order, c)
	}
	for k := range after {
		if _, ok := before[k]; !ok && !isTableCounter(k) {
			e.owned[c][k] = true
		}
	}
	e.alive[c] = members
	return nil
}

// asParsed lays the arguments of one command out the way the server sees them: ONE raw RESP buffer
// (common.BuildCommand, the same layout redcon.Parse yields), every argument a sub-slice of it, the key cut
// out of "ns:table:key". The returned check reports a command buffer that was modified while the store ran.
func (e *e2e) asParsed(name string, key []byte, rest ...[]byte) (k []byte, args [][]byte) {
	all := make([][]byte, 0, 2+len(rest))
	all = append(all, []byte(name), append([]byte("ns:"), key...))
	all = append(all, rest...)
	cmd := common.BuildCommand(all)
	e.lentRaw = append(e.lentRaw, cmd.Raw)
	e.lentCopy = append(e.lentCopy, append([]byte{}, cmd.Raw...))
	return cmd.Args[1][3:], cmd.Args[2:]
}

// lentCheck: every command buffer handed out since the last call must be byte-identical to what it was
func (e *e2e) lentCheck() []string {
	var out []string
	for i, raw := range e.lentRaw {
		if string(raw) != string(e.lentCopy[i]) {
			out = append(out, fmt.Sprintf("the store modified the command buffer it was lent: %q became %q", e.lentCopy[i], raw))
		}
	}
	e.lentRaw, e.lentCopy = nil, nil
	return out
}

// noteMember: the element keys that appeared when one member was added belong to that member
func (e *e2e) noteMember(c collID, m []byte, before map[string]string) {
	if e.mowned[c] == nil {
		e.mowned[c] = map[string]map[string]bool{}
	}
	mm := map[string]bool{}
	for k := range e.dump() {
		if _, ok := before[k]; !ok && !isTableCounter(k) && !isMetaKey(k) {
			mm[k] = true
		}
	}
	e.mowned[c][string(m)] = mm
}

func isTableCounter(k string) bool { return len(k) > 0 && (k[0] == rr.TableMetaType) }

// API-level content of a collection, canonical
func (e *e2e) logical(c collID) string {
	raw := c.raw()
	switch c.Typ {
	case "kv":
		v, err := e.db.KVGet(raw)
		if err != nil {
			return "err:" + err.Error()
		}
		return H(v)
	case "hash":
		_, recs, err := e.db.HGetAll(raw)
		if err != nil {
			return "err:" + err.Error()
		}
		var p []string
		for _, r := range recs {
			p = append(p, H(r.Rec.Key)+"="+H(r.Rec.Value))
		}
		sort.Strings(p)
		return strings.Join(p, ",")
	case "set":
		ms, err := e.db.SMembers(raw)
		if err != nil {
			return "err:" + err.Error()
		}
		var p []string
		for _, m := range ms {
			p = append(p, H(m))
		}
		sort.Strings(p)
		return strings.Join(p, ",")
	case "zset":
		ps, err := e.db.ZRange(raw, 0, -1)
		if err != nil {
			return "err:" + err.Error()
		}
		var p []string
		for _, s := range ps {
			p = append(p, fmt.Sprintf("%s@%x", H(s.Member), math.Float64bits(s.Score)))
		}
		return strings.Join(p, ",")
	case "list":
		vs, err := e.db.LRange(raw, 0, -1)
		if err != nil {
			return "err:" + err.Error()
		}
		var p []string
		for _, v := range vs {
			p = append(p, H(v))
		}
		return strings.Join(p, ",")
	case "json":
		vs, err := e.db.JGet(raw, []byte(""))
		if err != nil {
			return "err:" + err.Error()
		}
		return strings.Join(vs, ",")
	case "bitmap":
		n, err := e.db.BitCountV2(raw, 0, -1)
		if err != nil {
			return "err:" + err.Error()
		}
		var p []string
		for i := 0; i < 8; i++ {
			b, _ := e.db.BitGetV2(raw, int64(i)*9000)
			p = append(p, fmt.Sprint(b))
		}
		return fmt.Sprintf("%d:%s", n, strings.Join(p, ""))
	}
	return "?"
}

func emptyLogical(typ string) []string {
	switch typ {
	case "kv":
		return []string{"-"}
	case "bitmap":
		return []string{"0:00000000"}
	}
	return []string{""}
}

// a whole-table delete addresses every key of the table, of every data type
var dataTypesOfTableDelete = map[string]bool{"kv": true, "hash": true, "list": true, "set": true, "zset": true, "bitmap": true, "json": true}

func (e *e2e) pickMembers(n int, forceEmpty bool) [][]byte {
	seen := map[string]bool{}
	var out [][]byte
	if forceEmpty {
		out = append(out, []byte{})
		seen[""] = true
	}
	for len(out) < n {
		m := memberPool[e.r.Pick(len(memberPool))]
		if !seen[string(m)] {
			seen[string(m)] = true
			out = append(out, append([]byte{}, m...))
		}
	}
	return out
}

// runE2E: nscen scenarios per policy
func runE2E(seed int64, nscen int, out string) {
	f := hx.Create(out)
	defer f.Close()
	enc := func(r e2eRec) {
		b, _ := json.Marshal(r)
		f.Printf("%s\n", b)
	}
	for _, policy := range []string{"local", "compact"} {
		for s := 0; s < nscen; s++ {
			scenario(seed, policy, s, enc)
		}
	}
	// SETBIT on a bitmap stored in the old (string) format converts it: every old bit must survive
	// (both policies: the conversion under wait_compact was repaired in the repository, bcbd73e)
	for _, policy := range []string{"local", "compact"} {
		bitConvertScenario(seed, policy, enc)
	}
	// background compaction under wait_compact over same-named collections of different types
	ncp := nscen / 4
	if ncp < 3 {
		ncp = 3
	}
	for i := 0; i < ncp; i++ {
		compactScenario(seed, i, enc)
	}
	// secondary hash indexes on tables with prefix-related names
	nix := nscen / 8
	if nix < 2 {
		nix = 2
	}
	for i := 0; i < nix; i++ {
		indexScenario(seed, i, enc)
	}
	// range operations around RangeDeleteNum: every configuration under local_deletion; under wait_compact
	// the LTRIMs (the clears only drop the meta record there)
	if *e2eBig {
		for ci, cfg := range bigConfigs() {
			bigScenario(seed, "local", ci, cfg, enc)
			if cfg.kind == "ltrim" && ci%2 == 0 {
				bigScenario(seed, "compact", ci, cfg, enc)
			}
		}
	}
}

func scenario(seed int64, policy string, idx int, emit func(e2eRec)) {
	sseed := seed*1000003 + int64(idx)*7919
	if policy == "compact" {
		sseed += 500009
	}
	r := hx.NewRng(sseed)
	dir, err := os.MkdirTemp("", "verif-codec-e2e-")
	if err != nil {
		panic(err)
	}
	defer os.RemoveAll(dir)
	cfg := rr.NewRockRedisDBConfig()
	cfg.EngineType = "mem"
	cfg.DataDir = dir
	cfg.EnableTableCounter = true
	if policy == "compact" {
		cfg.ExpirationPolicy = common.WaitCompact
		cfg.DataVersion = common.ValueHeaderV1
	}
	db, err := rr.OpenRockDB(cfg)
	if err != nil {
		emit(e2eRec{ID: fmt.Sprintf("e%s%d.open", policy[:1], idx), Seed: seed, Policy: policy, Err: "open: " + err.Error()})
		return
	}
	defer db.Close()
	e := &e2e{db: db, r: r, policy: policy, ts: 1700000000000000000, owned: map[collID]map[string]bool{}, alive: map[collID][][]byte{},
		mowned: map[collID]map[string]map[string]bool{}, score: map[collID]map[string]float64{}}

	// population: 2 tables x 3 keys x all types; members from the pool, the empty member in most collections
	tabs := [][]byte{tablePool[r.Pick(len(tablePool))], tablePool[r.Pick(len(tablePool))]}
	if string(tabs[0]) == string(tabs[1]) {
		tabs[1] = append(append([]byte{}, tabs[0]...), 'x')
	}
	var rks [][]byte
	for len(rks) < 3 {
		k := rkPool[r.Pick(len(rkPool))]
		dup := false
		for _, o := range rks {
			if string(o) == string(k) {
				dup = true
			}
		}
		if !dup {
			rks = append(rks, k)
		}
	}
	types := []string{"kv", "hash", "set", "zset", "list", "bitmap", "json"}
	for _, t := range tabs {
		for _, k := range rks {
			hasKV := false
			for _, typ := range types {
				if r.Chance(0.15) {
					continue
				}
				// the bitmap commands fall back to (and convert) a string value stored under the same redis key:
				// by design the two share one name space, so they are never given the same key here
				if typ == "kv" {
					hasKV = true
				} else if typ == "bitmap" && hasKV {
					continue
				}
				c := collID{typ, string(t), string(k)}
				n := 1 + r.Pick(6)
				if err := e.populate(c, e.pickMembers(n, r.Chance(0.7))); err != nil {
					emit(e2eRec{ID: fmt.Sprintf("e%s%d.pop", policy[:1], idx), Seed: seed, Policy: policy, Op: "populate", Targets: []string{c.String()}, Err: err.Error()})
				}
			}
		}
	}
	if l := e.lentCheck(); len(l) > 0 {
		emit(e2eRec{ID: fmt.Sprintf("e%s%d.pop", policy[:1], idx), Seed: seed, Policy: policy, Op: "populate", Logical: l})
	}
	e.multiReads(fmt.Sprintf("e%s%d.r0", policy[:1], idx), seed, emit)
	// operations
	nops := 10 + r.Pick(8)
	for op := 0; op < nops; op++ {
		if op == nops/2 {
			e.multiReads(fmt.Sprintf("e%s%d.r1", policy[:1], idx), seed, emit)
		}
		var live []collID
		for _, c := range e.order {
			if e.alive[c] != nil {
				live = append(live, c)
			}
		}
		if len(live) == 0 {
			break
		}
		c := live[r.Pick(len(live))]
		rec := e2eRec{ID: fmt.Sprintf("e%s%d.%d", policy[:1], idx, op), Seed: seed, Policy: policy}
		targets := []collID{c}
		raw := c.raw()
		var opErr error
		// a second target of the same type for the multi-clear variants
		var other *collID
		for _, o := range live {
			if o.Typ == c.Typ && o != c {
				oo := o
				other = &oo
				break
			}
		}
		before := e.dump()
		logBefore := map[collID]string{}
		for _, o := range e.order {
			logBefore[o] = e.logical(o)
		}
		for _, m := range e.alive[c] {
			rec.Members = append(rec.Members, H(m))
		}
		variant := r.Pick(4)
		wholeTable := r.Chance(0.08) && dataTypesOfTableDelete[c.Typ]
		cntBefore := e.counters(tabs)
		if r.Chance(0.12) {
			e.msetAcrossTables(tabs, op, &rec, before, logBefore, emit)
			continue
		}
		if (c.Typ == "hash" || c.Typ == "set" || c.Typ == "zset" || c.Typ == "kv") && r.Chance(0.18) {
			e.rejectedWrite(c, op, &rec, before, logBefore, emit)
			continue
		}
		if (c.Typ == "hash" || c.Typ == "set" || c.Typ == "zset") && len(e.alive[c]) >= 2 && r.Chance(0.4) {
			if e.partialRemove(c, &rec, before, logBefore, emit) {
				continue
			}
		}
		expireIt := policy == "local" && r.Chance(0.12) && (c.Typ == "kv" || c.Typ == "hash" || c.Typ == "set" || c.Typ == "zset" || c.Typ == "list")
		switch {
		case expireIt:
			// expiry-driven delete: give the key a TTL that is already over on the wall clock (the scenario's
			// timestamps lie in 2023), then run one pass of the TTL checker of the local-deletion policy
			// (rockredis.VerifLocalExpireOnce: scan the expire index, delete through the *ClearWithBatch paths)
			rec.Op = "expire+ttl-checker"
			var n int64
			switch c.Typ {
			case "kv":
				n, opErr = e.db.Expire(e.tick(), raw, 1)
			case "hash":
				n, opErr = e.db.HExpire(e.tick(), raw, 1)
			case "set":
				n, opErr = e.db.SExpire(e.tick(), raw, 1)
			case "zset":
				n, opErr = e.db.ZExpire(e.tick(), raw, 1)
			case "list":
				n, opErr = e.db.LExpire(e.tick(), raw, 1)
			}
			if opErr == nil && n != 1 {
				opErr = fmt.Errorf("expire replied %d", n)
			}
			if opErr == nil {
				opErr = e.db.VerifLocalExpireOnce()
			}
		case wholeTable:
			rec.Op = "DeleteTableRange"
			targets = nil
			for _, o := range e.order { // also collections cleared earlier: wait_compact leaves their element keys behind
				if o.Table == c.Table && dataTypesOfTableDelete[o.Typ] {
					targets = append(targets, o)
				}
			}
			opErr = e.db.DeleteTableRange(false, c.Table, nil, nil)
		case c.Typ == "kv":
			if other != nil && variant <= 1 {
				// a multi-key DEL with refused keys in between deletes (and counts) exactly the valid stored ones
				rec.Op = "DelKeys(mixed)"
				targets = append(targets, *other)
				var n int64
				n, opErr = e.db.DelKeys([]byte("bad"), raw, []byte(":x"), other.raw(), []byte(c.Table+":absent-key"), []byte{})
				if opErr == nil && n != 2 {
					rec.Logical = append(rec.Logical, fmt.Sprintf("DEL of 2 stored keys among refused and absent ones replied %d", n))
				}
			} else {
				rec.Op = "DelKeys"
				_, opErr = e.db.DelKeys(raw)
			}
		case c.Typ == "hash":
			if variant == 0 && other != nil {
				rec.Op = "HMclear"
				targets = append(targets, *other)
				e.db.HMclear(raw, other.raw())
			} else {
				rec.Op = "HClear"
				_, opErr = e.db.HClear(e.tick(), raw)
			}
		case c.Typ == "set":
			if variant == 0 && other != nil {
				rec.Op = "SMclear"
				targets = append(targets, *other)
				_, opErr = e.db.SMclear(raw, other.raw())
			} else {
				rec.Op = "SClear"
				_, opErr = e.db.SClear(e.tick(), raw)
			}
		case c.Typ == "zset":
			switch variant {
			case 0:
				if other != nil {
					rec.Op = "ZMclear"
					targets = append(targets, *other)
					_, opErr = e.db.ZMclear(raw, other.raw())
				} else {
					rec.Op = "ZClear"
					_, opErr = e.db.ZClear(e.tick(), raw)
				}
			case 1:
				rec.Op = "ZRemRangeByRank(0,-1)"
				_, opErr = e.db.ZRemRangeByRank(e.tick(), raw, 0, -1)
			case 2:
				rec.Op = "ZRemRangeByScore(-inf,+inf)"
				_, opErr = e.db.ZRemRangeByScore(e.tick(), raw, math.Inf(-1), math.Inf(1))
			default:
				rec.Op = "ZClear"
				_, opErr = e.db.ZClear(e.tick(), raw)
			}
		case c.Typ == "list":
			if variant == 0 && other != nil {
				rec.Op = "LMclear"
				targets = append(targets, *other)
				_, opErr = e.db.LMclear(raw, other.raw())
			} else {
				rec.Op = "LClear"
				_, opErr = e.db.LClear(e.tick(), raw)
			}
		case c.Typ == "bitmap":
			rec.Op = "BitClear"
			_, opErr = e.db.BitClear(e.tick(), raw)
		case c.Typ == "json":
			rec.Op = "JDel(whole)"
			_, opErr = e.db.JDel(e.tick(), raw, []byte(""))
		}
		if opErr != nil {
			rec.Err = opErr.Error()
		}
		after := e.dump()
		ownedAll := map[string]bool{}
		metaOwned := map[string]bool{}
		for _, t := range targets {
			rec.Targets = append(rec.Targets, t.String())
			for k := range e.owned[t] {
				ownedAll[k] = true
				if isMetaKey(k) {
					metaOwned[k] = true
				}
			}
		}
		rec.Owned = sortedHex(ownedAll)
		rec.MetaOwned = sortedHex(metaOwned)
		removed, added := map[string]bool{}, map[string]bool{}
		for k, v := range before {
			nv, ok := after[k]
			if !ok {
				if isTableCounter(k) {
					rec.Allowed = append(rec.Allowed, H([]byte(k)))
				} else {
					removed[k] = true
				}
			} else if nv != v {
				if isTableCounter(k) {
					rec.Allowed = append(rec.Allowed, H([]byte(k)))
				} else {
					rec.Changed = append(rec.Changed, H([]byte(k))+":"+H([]byte(v))+">"+H([]byte(nv)))
				}
			}
		}
		for k := range after {
			if _, ok := before[k]; !ok && !isTableCounter(k) {
				added[k] = true
			}
		}
		rec.Removed = sortedHex(removed)
		rec.Added = sortedHex(added)
		sort.Strings(rec.Changed)
		// logical checks
		isTarget := map[collID]bool{}
		for _, t := range targets {
			isTarget[t] = true
		}
		for _, o := range e.order {
			got := e.logical(o)
			if isTarget[o] {
				okEmpty := false
				for _, w := range emptyLogical(o.Typ) {
					if got == w {
						okEmpty = true
					}
				}
				if !okEmpty {
					rec.Logical = append(rec.Logical, fmt.Sprintf("target %s still reads %s after %s", o, got, rec.Op))
				}
			} else if got != logBefore[o] {
				rec.Logical = append(rec.Logical, fmt.Sprintf("other collection %s changed from %s to %s by %s on %v", o, logBefore[o], got, rec.Op, rec.Targets))
			}
		}
		// forget the targets, then re-create the first one with one fresh member
		for _, t := range targets {
			for k := range e.owned[t] {
				if _, still := after[k]; !still {
					delete(e.owned[t], k)
				}
			}
			e.alive[t] = nil
			delete(e.mowned, t)
			delete(e.score, t)
		}
		rec.Logical = append(rec.Logical, e.lentCheck()...)
		// the key counter of a table no target belongs to is an observable of that table: it must not move
		touched := map[string]bool{}
		for _, t := range targets {
			touched[t.Table] = true
		}
		for tb, n := range e.counters(tabs) {
			if !touched[tb] && n != cntBefore[tb] {
				rec.Logical = append(rec.Logical, fmt.Sprintf("%s on %v changed the key counter of table %s from %d to %d", rec.Op, rec.Targets, H([]byte(tb)), cntBefore[tb], n))
			}
		}
		fresh := [][]byte{[]byte("fresh")}
		t0 := targets[0]
		if err := e.populate(t0, fresh); err != nil {
			rec.Logical = append(rec.Logical, fmt.Sprintf("re-create %s failed: %v", t0, err))
		} else {
			want := map[string]string{"kv": H([]byte("v-fresh")), "hash": H([]byte("fresh")) + "=" + H([]byte("vfresh")), "set": H([]byte("fresh")),
				"zset": H([]byte("fresh")) + "@bff0000000000000", "list": H([]byte("fresh")), "bitmap": "1:10000000",
				"json": `{"m":"6672657368","n":1}`}[t0.Typ]
			if got := e.logical(t0); got != want {
				rec.Logical = append(rec.Logical, fmt.Sprintf("after %s and re-creating %s with one fresh member it reads %s, want %s (members of the cleared collection resurfaced)", rec.Op, t0, got, want))
			}
		}
		emit(rec)
	}
}

// expected API-level content of a hash/set/zset from the harness's own book-keeping
func (e *e2e) expectLogical(c collID, members [][]byte) string {
	var p []string
	switch c.Typ {
	case "hash":
		for _, m := range members {
			p = append(p, H(m)+"="+H(append([]byte("v"), m...)))
		}
		sort.Strings(p)
	case "set":
		for _, m := range members {
			p = append(p, H(m))
		}
		sort.Strings(p)
	case "zset":
		ms := append([][]byte{}, members...)
		sc := e.score[c]
		sort.Slice(ms, func(a, b int) bool {
			sa, sb := sc[string(ms[a])], sc[string(ms[b])]
			if sa != sb {
				return sa < sb
			}
			return string(ms[a]) < string(ms[b])
		})
		for _, m := range ms {
			p = append(p, fmt.Sprintf("%s@%x", H(m), math.Float64bits(sc[string(m)])))
		}
	}
	return strings.Join(p, ",")
}

// partialRemove: a sub-key level removal (HDEL / SREM / ZREM / ZREMRANGEBYSCORE / ZREMRANGEBYRANK over a
// part of the collection): exactly the engine keys of the selected members disappear, only the meta record
// of the collection may change. Returns false if no proper part could be selected.
func (e *e2e) partialRemove(c collID, rec *e2eRec, before map[string]string, logBefore map[collID]string, emit func(e2eRec)) bool {
	members := e.alive[c]
	for _, m := range members {
		if e.mowned[c] == nil || e.mowned[c][string(m)] == nil {
			return false
		}
	}
	raw := c.raw()
	r := e.r
	sel := map[string]bool{}
	var opErr error
	kind := 0
	if c.Typ == "zset" {
		kind = r.Pick(3)
	}
	switch kind {
	case 0: // explicit members (+ one that does not exist)
		var args [][]byte
		for _, m := range members {
			if r.Chance(0.5) && len(sel) < len(members)-1 {
				sel[string(m)] = true
				args = append(args, m)
			}
		}
		if len(sel) == 0 {
			sel[string(members[0])] = true
			args = append(args, members[0])
		}
		args = append(args, []byte("no-such-member"))
		pk, pa := e.asParsed("rem", raw, args...)
		switch c.Typ {
		case "hash":
			rec.Op = "HDel(part)"
			_, opErr = e.db.HDel(e.tick(), pk, pa...)
		case "set":
			rec.Op = "SRem(part)"
			_, opErr = e.db.SRem(e.tick(), pk, pa...)
		case "zset":
			rec.Op = "ZRem(part)"
			_, opErr = e.db.ZRem(e.tick(), pk, pa...)
		}
	case 1: // by score interval
		bounds := [][2]float64{{-1, -1}, {-3, 0}, {0, 1}, {0.5, math.Inf(1)}, {math.Inf(-1), -1}, {-1e-300, 0}, {1, 3e10}}
		b := bounds[r.Pick(len(bounds))]
		for _, m := range members {
			if sc := e.score[c][string(m)]; sc >= b[0] && sc <= b[1] {
				sel[string(m)] = true
			}
		}
		if len(sel) == 0 || len(sel) == len(members) {
			return false
		}
		rec.Op = fmt.Sprintf("ZRemRangeByScore(%v,%v)", b[0], b[1])
		_, opErr = e.db.ZRemRangeByScore(e.tick(), raw, b[0], b[1])
	case 2: // by rank interval
		ms := append([][]byte{}, members...)
		sc := e.score[c]
		sort.Slice(ms, func(a, b int) bool {
			sa, sb := sc[string(ms[a])], sc[string(ms[b])]
			if sa != sb {
				return sa < sb
			}
			return string(ms[a]) < string(ms[b])
		})
		start := r.Pick(len(ms))
		stop := start + r.Pick(len(ms)-start)
		if start == 0 && stop == len(ms)-1 {
			return false
		}
		for i := start; i <= stop; i++ {
			sel[string(ms[i])] = true
		}
		rec.Op = fmt.Sprintf("ZRemRangeByRank(%d,%d)", start, stop)
		_, opErr = e.db.ZRemRangeByRank(e.tick(), raw, start, stop)
	}
	if opErr != nil {
		rec.Err = opErr.Error()
	}
	rec.Partial = true
	rec.Targets = []string{c.String()}
	selOwned := map[string]bool{}
	var rest [][]byte
	for _, m := range members {
		if sel[string(m)] {
			for k := range e.mowned[c][string(m)] {
				selOwned[k] = true
			}
		} else {
			rest = append(rest, m)
		}
	}
	rec.SelOwned = sortedHex(selOwned)
	metaOwned := map[string]bool{}
	for k := range e.owned[c] {
		if isMetaKey(k) {
			metaOwned[k] = true
		}
	}
	rec.MetaOwned = sortedHex(metaOwned)
	after := e.dump()
	removed, added := map[string]bool{}, map[string]bool{}
	for k, v := range before {
		nv, ok := after[k]
		if !ok {
			if !isTableCounter(k) {
				removed[k] = true
			}
		} else if nv != v && !isTableCounter(k) {
			rec.Changed = append(rec.Changed, H([]byte(k)))
		}
	}
	for k := range after {
		if _, ok := before[k]; !ok && !isTableCounter(k) {
			added[k] = true
		}
	}
	rec.Removed, rec.Added = sortedHex(removed), sortedHex(added)
	sort.Strings(rec.Changed)
	for _, o := range e.order {
		got := e.logical(o)
		if o == c {
			if want := e.expectLogical(c, rest); got != want {
				rec.Logical = append(rec.Logical, fmt.Sprintf("after %s on %s it reads %s, want %s", rec.Op, c, got, want))
			}
		} else if got != logBefore[o] {
			rec.Logical = append(rec.Logical, fmt.Sprintf("other collection %s changed from %s to %s by %s on %s", o, logBefore[o], got, rec.Op, c))
		}
	}
	rec.Logical = append(rec.Logical, e.lentCheck()...)
	for m := range sel {
		for k := range e.mowned[c][m] {
			delete(e.owned[c], k)
		}
		delete(e.mowned[c], m)
		delete(e.score[c], m)
	}
	e.alive[c] = rest
	emit(*rec)
	return true
}

// counters: the key counter of every table of the scenario (table counters are enabled)
func (e *e2e) counters(tabs [][]byte) map[string]int64 {
	out := map[string]int64{}
	for _, t := range tabs {
		n, _ := e.db.GetTableKeyCount(t)
		out[string(t)] = n
	}
	return out
}

// msetAcrossTables: ONE MSET with pairs in two tables — new keys in the first table, then a pair in the second
// table (an existing string when there is one). Each table's key counter must grow by exactly the number of
// keys the call created in THAT table; afterwards the new keys are deleted again and the counters must be back.
func (e *e2e) msetAcrossTables(tabs [][]byte, op int, rec *e2eRec, before map[string]string, logBefore map[collID]string, emit func(e2eRec)) {
	ta, tb := string(tabs[0]), string(tabs[1])
	rec.Op = "MSET across two tables"
	rec.Targets = []string{H(tabs[0]), H(tabs[1])}
	pairs := []collID{{"kv", ta, fmt.Sprintf("ms%da", op)}, {"kv", ta, fmt.Sprintf("ms%db", op)}}
	last := collID{"kv", tb, fmt.Sprintf("ms%dc", op)}
	for _, o := range e.order {
		if o.Typ == "kv" && o.Table == tb && e.alive[o] != nil {
			last = o
			break
		}
	}
	pairs = append(pairs, last)
	want := map[string]int64{}
	var args []common.KVRecord
	for _, p := range pairs {
		if n, err := e.db.KVExists(p.raw()); err == nil && n == 0 {
			want[p.Table]++
		}
		args = append(args, common.KVRecord{Key: p.raw(), Value: []byte("msv-" + p.Table + "-" + p.RK)})
	}
	c0 := e.counters(tabs)
	if err := e.db.MSet(e.tick(), args...); err != nil {
		rec.Err = err.Error()
	}
	c1 := e.counters(tabs)
	for _, t := range tabs {
		if d := c1[string(t)] - c0[string(t)]; d != want[string(t)] {
			rec.Logical = append(rec.Logical, fmt.Sprintf("MSET %v created %d key(s) in table %s but its key counter moved by %d (counters before %v, after %v)",
				pairs, want[string(t)], H(t), d, c0, c1))
		}
	}
	for _, p := range pairs {
		if v, err := e.db.KVGet(p.raw()); err != nil || string(v) != "msv-"+p.Table+"-"+p.RK {
			rec.Logical = append(rec.Logical, fmt.Sprintf("after MSET %s reads %q (%v)", p, v, err))
		}
	}
	// every other collection reads as before
	isPair := map[collID]bool{}
	for _, p := range pairs {
		isPair[p] = true
	}
	for _, o := range e.order {
		if !isPair[o] {
			if got := e.logical(o); got != logBefore[o] {
				rec.Logical = append(rec.Logical, fmt.Sprintf("collection %s changed from %s to %s by an MSET on other keys", o, logBefore[o], got))
			}
		}
	}
	// take the keys this call created away again: the counters must return to where they were
	var created [][]byte
	for _, p := range pairs {
		if e.alive[p] == nil {
			created = append(created, p.raw())
		}
	}
	if _, err := e.db.DelKeys(created...); err != nil {
		rec.Logical = append(rec.Logical, "DEL of the created keys: "+err.Error())
	}
	c2 := e.counters(tabs)
	for _, t := range tabs {
		if c2[string(t)] != c0[string(t)] {
			rec.Logical = append(rec.Logical, fmt.Sprintf("after MSET and DEL of the created keys the key counter of table %s is %d, it was %d", H(t), c2[string(t)], c0[string(t)]))
		}
	}
	// only the value of an overwritten existing string may differ from the state before
	after := e.dump()
	for k, v := range before {
		if nv, ok := after[k]; !isTableCounter(k) && (!ok || nv != v) && !(e.alive[last] != nil && e.owned[last][k]) {
			rec.Logical = append(rec.Logical, fmt.Sprintf("engine key %s changed by MSET + DEL on other keys", H([]byte(k))))
		}
	}
	for k := range after {
		if _, ok := before[k]; !ok && !isTableCounter(k) {
			rec.Logical = append(rec.Logical, fmt.Sprintf("engine key %s left behind by MSET + DEL", H([]byte(k))))
		}
	}
	if e.alive[last] != nil {
		e.alive[last] = [][]byte{[]byte("overwritten")}
	}
	rec.Owned, rec.MetaOwned = nil, nil
	emit(*rec)
}

// rejectedWrite: a multi-member write on c whose LAST member is over the size limit must fail as a whole and
// leave nothing behind — neither at once nor when the next write (a string set on a fresh, unrelated key)
// commits the shared write batch.
func (e *e2e) rejectedWrite(c collID, op int, rec *e2eRec, before map[string]string, logBefore map[collID]string, emit func(e2eRec)) {
	raw := c.raw()
	big := make([]byte, rr.MaxSubKeyLen+1)
	good1, good2 := []byte("leak1"), []byte{}
	var err error
	lastVal := []byte("z")
	if c.Typ == "hash" && e.r.Chance(0.4) {
		// the other way a multi-field write is refused at its last element: a value over the size limit
		big = []byte("lastfield")
		lastVal = make([]byte, rr.MaxValueSize+1)
	}
	// removal variant: an EXISTING member first, then the refused one (the staged delete must not survive)
	removal := e.r.Chance(0.45) && len(e.alive[c]) > 0 && c.Typ != "kv"
	first := good1
	if removal {
		first = e.alive[c][e.r.Pick(len(e.alive[c]))]
		big = make([]byte, rr.MaxSubKeyLen+1)
		lastVal = []byte("z")
	}
	raw, pa := e.asParsed("multi", raw, first, []byte("x"), good2, []byte("y"), big, lastVal)
	good1, good2, big = pa[0], pa[2], pa[4]
	callerAborts := false // the command stages into the shared batch and ends with MaybeCommitBatch
	switch {
	case c.Typ == "hash" && removal:
		rec.Op = "rejected HDel + KVSet elsewhere"
		_, err = e.db.HDel(e.tick(), raw, good1, big)
		callerAborts = true
	case c.Typ == "hash":
		rec.Op = "rejected HMset + KVSet elsewhere"
		if len(lastVal) > 1 {
			rec.Op = "rejected HMset(value size) + KVSet elsewhere"
		}
		err = e.db.HMset(e.tick(), raw, common.KVRecord{Key: good1, Value: pa[1]}, common.KVRecord{Key: good2, Value: pa[3]},
			common.KVRecord{Key: big, Value: pa[5]})
		callerAborts = true
	case c.Typ == "set" && removal:
		rec.Op = "rejected SRem + KVSet elsewhere"
		_, err = e.db.SRem(e.tick(), raw, good1, big)
	case c.Typ == "set":
		rec.Op = "rejected SAdd + KVSet elsewhere"
		_, err = e.db.SAdd(e.tick(), raw, good1, good2, big)
	case c.Typ == "zset" && removal:
		rec.Op = "rejected ZRem + KVSet elsewhere"
		_, err = e.db.ZRem(e.tick(), raw, good1, big)
	case c.Typ == "zset":
		rec.Op = "rejected ZAdd + KVSet elsewhere"
		_, err = e.db.ZAdd(e.tick(), raw, common.ScorePair{Score: 7, Member: good1}, common.ScorePair{Score: 8, Member: good2},
			common.ScorePair{Score: 9, Member: big})
	case c.Typ == "kv":
		// MSET: a new key, the existing one, then a pair whose value is over the size limit
		rec.Op = "rejected MSet(value size) + KVSet elsewhere"
		err = e.db.MSet(e.tick(), common.KVRecord{Key: []byte(c.Table + ":msleak"), Value: []byte("x")},
			common.KVRecord{Key: raw, Value: []byte("y")},
			common.KVRecord{Key: []byte(c.Table + ":mslast"), Value: make([]byte, rr.MaxValueSize+1)})
		callerAborts = true
	}
	rec.Logical = append(rec.Logical, e.lentCheck()...)
	rec.Targets = []string{c.String()}
	if err == nil {
		rec.Err = "the over-long element was not rejected"
	} else if callerAborts && rr.IsNeedAbortError(err) {
		// HMSET / HDEL / MSET stage into the shared batch and end with MaybeCommitBatch: the batch may already
		// hold earlier batched commands, so they can not clear it themselves; the caller aborts the batch on
		// error, exactly as node.kvbatchOperator.AbortBatchForError does in the apply loop (for every error
		// rockredis.IsNeedAbortError says so). SADD / SREM / ZADD / ZREM write the batch themselves and own it
		// (defer wb.Clear()): they get no such help here.
		e.db.AbortBatch()
	}
	mid := e.dump()
	for k, v := range before {
		if nv, ok := mid[k]; !ok || nv != v {
			rec.Logical = append(rec.Logical, fmt.Sprintf("the rejected write changed engine key %s at once", H([]byte(k))))
		}
	}
	for k := range mid {
		if _, ok := before[k]; !ok {
			rec.Logical = append(rec.Logical, fmt.Sprintf("the rejected write created engine key %s at once", H([]byte(k))))
		}
	}
	// the next write, on an unrelated fresh key
	d := collID{"kv", c.Table, fmt.Sprintf("fresh%d", op)}
	if err := e.populate(d, [][]byte{[]byte("x")}); err != nil {
		rec.Logical = append(rec.Logical, "KVSet elsewhere failed: "+err.Error())
	}
	after := e.dump()
	removed, added := map[string]bool{}, map[string]bool{}
	for k, v := range before {
		nv, ok := after[k]
		if !ok && !isTableCounter(k) {
			removed[k] = true
		} else if ok && nv != v && !isTableCounter(k) {
			rec.Changed = append(rec.Changed, H([]byte(k))+":"+H([]byte(v))+">"+H([]byte(nv)))
		}
	}
	for k := range after {
		if _, ok := before[k]; !ok && !isTableCounter(k) {
			added[k] = true
		}
	}
	rec.Removed = sortedHex(removed)
	rec.Added = sortedHex(added)
	// by construction exactly one engine key may appear: the string record of d (owned = what must NOT be touched: nothing)
	if len(added) != 1 {
		rec.Logical = append(rec.Logical, fmt.Sprintf("a rejected write on %s followed by one KVSet on %s created %d engine keys instead of 1", c, d, len(added)))
	}
	// populate() attributed every new key to d; give leaked keys back to nobody so later checks stay exact
	for _, o := range e.order {
		if got := e.logical(o); o != d && got != logBefore[o] {
			rec.Logical = append(rec.Logical, fmt.Sprintf("collection %s changed from %s to %s after a REJECTED write on %s and a KVSet on %s", o, logBefore[o], got, c, d))
		}
	}
	rec.Owned, rec.MetaOwned = nil, nil
	emit(*rec)
}

// meta / size / kv records: type bytes of the non-element records
func isMetaKey(k string) bool {
	if len(k) == 0 {
		return false
	}
	switch k[0] {
	case rr.KVType, rr.HSizeType, rr.LMetaType, rr.ZSizeType, rr.SSizeType, rr.BitmapMetaType, rr.JSONType:
		return true
	}
	return false
}
