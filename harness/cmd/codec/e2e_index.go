package main

// The secondary (hash field) index in the end-to-end check: "index keys" of property C12.
// Tables with prefix-related names (T, T2, T_bak, Tx, T;, a shorter one) hold hashes with an indexed field; an
// index is created on T (and on one relative) AFTER some hashes exist — so the background build scan runs —
// and more hashes are written, changed and deleted afterwards — so the incremental path runs. Then
//   * a search over the index of T returns exactly the hashes of T that carry the field, with their values;
//   * every index record in the raw engine content (type byte IndexDataType) belongs to an indexed table and
//     names a hash of THAT table whose field has that value (records decoded with the production decoder);
//   * tables without an index have no index records.

import (
	"fmt"
	"os"
	"sort"
	"strconv"
	"strings"
	"time"

	"github.com/youzan/ZanRedisDB/common"
	rr "github.com/youzan/ZanRedisDB/rockredis"
	"verif/harness/internal/hx"
)

func indexScenario(seed int64, idx int, emit func(e2eRec)) {
	r := hx.NewRng(seed*31 + int64(idx)*1009 + 17)
	id := fmt.Sprintf("ix%d", idx)
	rec := e2eRec{ID: id, Seed: seed, Policy: "local"}
	dir, err := os.MkdirTemp("", "verif-codec-ix-")
	if err != nil {
		panic(err)
	}
	defer os.RemoveAll(dir)
	cfg := rr.NewRockRedisDBConfig()
	cfg.EngineType = "mem"
	cfg.DataDir = dir
	db, err := rr.OpenRockDB(cfg)
	if err != nil {
		rec.Err = "open: " + err.Error()
		emit(rec)
		return
	}
	defer db.Close()
	base := []string{"user", "t", "ab", "tbl"}[r.Pick(4)]
	tables := []string{base, base + "2", base + "_bak", base + "x", base + ";", base + "0", base[:len(base)-1] + "", base + "\x3b\x3a"[:1]}
	tables = uniqStrings(append(tables, base[:len(base)-1]))
	var tabs []string
	for _, t := range tables {
		if t != "" && !strings.Contains(t, ":") {
			tabs = append(tabs, t)
		}
	}
	indexed := []string{base, base + "_bak"}
	rec.Op = "hash-index(" + base + ")"
	rec.Targets = indexed
	ts := int64(1700000000000000000)
	tick := func() int64 { ts += 1000; return ts }
	// model of the hashes: table -> key -> age (present) ; written through the store API
	age := map[string]map[string]int64{}
	setAge := func(t, k string, v int64) error {
		if age[t] == nil {
			age[t] = map[string]int64{}
		}
		_, err := db.HSet(tick(), false, []byte(t+":"+k), []byte("age"), []byte(strconv.FormatInt(v, 10)))
		if err == nil {
			age[t][k] = v
		}
		return err
	}
	keys := []string{"alice", "bob", "carol", "dave", "k:1", "", "z"}
	for _, t := range tabs {
		for i, k := range keys {
			if k == "" {
				continue
			}
			if r.Chance(0.7) {
				if err := setAge(t, k, int64(10*(i+1)+r.Pick(5)-40)); err != nil {
					rec.Logical = append(rec.Logical, "hset before the index: "+err.Error())
				}
			} else {
				db.HSet(tick(), false, []byte(t+":"+k), []byte("name"), []byte("n-"+k))
			}
		}
	}
	for _, t := range indexed {
		schema := &common.HsetIndexSchema{Name: "age_idx", IndexField: "age", ValueType: common.Int64V, State: common.InitIndex}
		if err := db.AddHsetIndex(t, schema); err != nil {
			rec.Err = "AddHsetIndex: " + err.Error()
			emit(rec)
			return
		}
		schema.State = common.BuildingIndex
		if err := db.UpdateHsetIndexState(t, schema); err != nil {
			rec.Err = "UpdateHsetIndexState: " + err.Error()
			emit(rec)
			return
		}
		start := time.Now()
		for {
			time.Sleep(5 * time.Millisecond)
			s, err := db.GetIndexSchema(t)
			if err == nil && len(s.HsetIndexes) == 1 && s.HsetIndexes[0].State == common.BuildDoneIndex {
				break
			}
			if time.Since(start) > 20*time.Second {
				// not a verdict: the background build did not finish in time on this machine
				rec.Op = "hash-index(inconclusive)"
				emit(rec)
				return
			}
		}
		schema.State = common.ReadyIndex
		if err := db.UpdateHsetIndexState(t, schema); err != nil {
			rec.Err = "UpdateHsetIndexState(ready): " + err.Error()
			emit(rec)
			return
		}
	}
	// the incremental path: new hashes in every table, changed values, removed fields
	for _, t := range tabs {
		for i := 0; i < 3; i++ {
			k := fmt.Sprintf("new%d", i)
			if err := setAge(t, k, int64(r.Pick(200)-100)); err != nil {
				rec.Logical = append(rec.Logical, fmt.Sprintf("hset after the index on %s: %v", t, err))
			}
		}
		for k := range age[t] {
			switch r.Pick(5) {
			case 0:
				setAge(t, k, age[t][k]+7)
			case 1:
				if _, err := db.HDel(tick(), []byte(t+":"+k), []byte("age")); err == nil {
					delete(age[t], k)
				}
			}
		}
	}
	// expectation per table
	expect := func(t string, min int64, useMin bool) []string {
		var out []string
		for k, v := range age[t] {
			if !useMin || v >= min {
				out = append(out, fmt.Sprintf("%s=%d", t+":"+k, v))
			}
		}
		sort.Strings(out)
		return out
	}
	for _, t := range indexed {
		for _, useMin := range []bool{false, true} {
			cond := &rr.IndexCondition{Offset: 0, Limit: -1}
			if useMin {
				cond.StartKey, cond.IncludeStart = []byte("0"), true
			}
			_, cnt, res, err := db.HsetIndexSearch([]byte(t), []byte("age"), cond, false)
			if err != nil {
				rec.Logical = append(rec.Logical, fmt.Sprintf("index search on %s: %v", t, err))
				continue
			}
			var got []string
			for _, x := range res {
				got = append(got, fmt.Sprintf("%s=%d", x.PKey, x.IndexIntValue))
			}
			sort.Strings(got)
			want := expect(t, 0, useMin)
			if strings.Join(got, ",") != strings.Join(want, ",") || int(cnt) != len(want) {
				rec.Logical = append(rec.Logical, fmt.Sprintf("index search on table %q (from 0: %v) returns %d: %q, the hashes of that table with the field are %q",
					t, useMin, cnt, got, want))
			}
		}
	}
	// raw engine content: every index record names a hash of its own (indexed) table
	it, err := db.NewDBRangeIterator([]byte{rr.IndexDataType}, []byte{rr.IndexDataType + 1}, common.RangeROpen, false)
	if err == nil {
		perTable := map[string][]string{}
		for ; it.Valid(); it.Next() {
			raw := append([]byte{}, it.RefKey()...)
			t, name, v, pk, derr := rr.VerifDecodeHsetIndexNumberKey(raw)
			if derr != nil {
				rec.Logical = append(rec.Logical, fmt.Sprintf("index record %s does not decode: %v", H(raw), derr))
				continue
			}
			_ = name
			perTable[string(t)] = append(perTable[string(t)], fmt.Sprintf("%s=%d", pk, v))
		}
		it.Close()
		isIndexed := map[string]bool{}
		for _, t := range indexed {
			isIndexed[t] = true
		}
		for t, recs := range perTable {
			sort.Strings(recs)
			if !isIndexed[t] {
				rec.Logical = append(rec.Logical, fmt.Sprintf("index records under table %q, which has no index: %q", t, recs))
				continue
			}
			if want := expect(t, 0, false); strings.Join(recs, ",") != strings.Join(want, ",") {
				rec.Logical = append(rec.Logical, fmt.Sprintf("the index records stored under table %q are %q, the hashes of that table with the field are %q", t, recs, want))
			}
		}
		for _, t := range indexed {
			if len(perTable[t]) == 0 && len(expect(t, 0, false)) > 0 {
				rec.Logical = append(rec.Logical, fmt.Sprintf("no index records for table %q", t))
			}
		}
	}
	emit(rec)
}

func uniqStrings(in []string) []string {
	seen := map[string]bool{}
	var out []string
	for _, s := range in {
		if !seen[s] {
			seen[s] = true
			out = append(out, s)
		}
	}
	return out
}
