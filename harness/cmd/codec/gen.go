package main

import (
	"bytes"
	"encoding/binary"
	"fmt"
	"math"
	"sort"

	rr "github.com/youzan/ZanRedisDB/rockredis"
	"verif/harness/internal/hx"
)

// ---------- adversarial pools ----------

var fixedNames = [][]byte{
	{}, []byte("a"), []byte("b"), []byte("ab"), []byte("aa"), []byte("a:"), []byte("a:b"), []byte(":"), []byte(";"),
	[]byte("a;"), []byte("a:b:c"), []byte("b:c"), {0}, {0, 0}, {0xff}, {0xff, 0xff}, {0, 1}, {0, 1, 'a'}, {0, 1, 'a', ':'},
	{'a', 0}, {'a', 0xff}, {'a', ':', 0, 1, 'b', ':'}, []byte("9"), []byte("a9"), []byte("meta:"), []byte("meta:a"),
	[]byte("aaaaaaa"), []byte("aaaaaaaa"), []byte("aaaaaaaaa"), {'a', 'a', 'a', 'a', 'a', 'a', 'a', 'a', 0},
	{'a', 'a', 'a', 'a', 'a', 'a', 'a', 0}, {'a', 'a', 'a', 'a', 'a', 'a', 'a', 0, 0}, {0, 0, 0, 0, 0, 0, 0, 0}, {0, 0, 0, 0, 0, 0, 0, 0, 0},
	{0, 0, 0, 0, 0, 0, 0}, {0xff, 0xff, 0xff, 0xff, 0xff, 0xff, 0xff, 0xff}, {0xff, 0xff, 0xff, 0xff, 0xff, 0xff, 0xff, 0xff, 0xff},
	[]byte("aaaaaaaaaaaaaaaa"), []byte("aaaaaaaaaaaaaaaaa"), []byte("aaaaaaaaaaaaaaa"), {1}, {3}, {5}, {0xf7}, {0xfe},
	{3, 0x80, 0, 0, 0, 0, 0, 0, 0x3a}, {1, 'a', 0, 0, 0, 0, 0, 0, 0, 0xf8},
}

var alpha = []byte{'a', 'b', ':', ';', 0, 1, 0xff, '9', 0xf7, 0xfe, 3}

func advName(r *hx.Rng) []byte {
	switch r.Pick(8) {
	case 0, 1, 2:
		return append([]byte{}, fixedNames[r.Pick(len(fixedNames))]...)
	case 3:
		return r.Bytes(r.Pick(13), alpha)
	case 4:
		// lengths around the 8-byte group boundaries
		n := []int{6, 7, 8, 9, 10, 14, 15, 16, 17, 18, 23, 24, 25}[r.Pick(13)]
		b := make([]byte, n)
		for i := range b {
			b[i] = 'a'
		}
		switch r.Pick(4) {
		case 0:
			b[n-1] = 0
		case 1:
			b[n-1] = 0xff
		case 2:
			b[r.Pick(n)] = alpha[r.Pick(len(alpha))]
		}
		return b
	case 5:
		x, y := fixedNames[r.Pick(len(fixedNames))], fixedNames[r.Pick(len(fixedNames))]
		switch r.Pick(4) {
		case 0:
			return append(append(append([]byte{}, x...), ':'), y...)
		case 1:
			l := make([]byte, 2)
			binary.BigEndian.PutUint16(l, uint16(len(x)))
			return append(append(l, x...), ':')
		case 2:
			return rr.EncodeBytes(nil, x)
		default:
			return rr.VerifEncodeVerKey(int64(r.Pick(3)), x)
		}
	case 6:
		return r.Bytes(r.Pick(21), nil)
	default:
		return r.Bytes(1+r.Pick(3), alpha)
	}
}

func noColon(b []byte) []byte {
	out := make([]byte, 0, len(b))
	for _, c := range b {
		if c != ':' {
			out = append(out, c)
		}
	}
	return out
}

var scoreBits = []uint64{
	0, 0x8000000000000000, 0x3ff0000000000000, 0xbff0000000000000, 1, 0x8000000000000001, 0x000fffffffffffff,
	0x800fffffffffffff, 0x0010000000000000, 0x8010000000000000, 0x7fefffffffffffff, 0xffefffffffffffff,
	0x7ff0000000000000, 0xfff0000000000000, 0x3fb999999999999a, 0x54b249ad2594c37d, 0x4000000000000000,
	0x0007fffffffffffe, 0x8007fffffffffffe, 0x3ff0000000000001, 0xbff0000000000001,
}
var nanBits = []uint64{
	0x7ff8000000000000, 0x7ff8000000000001, 0xfff8000000000000, 0xfff8000000000001, 0x7ff0000000000001,
	0xfff0000000000001, 0x7fffffffffffffff, 0xffffffffffffffff,
}

func advScore(r *hx.Rng, nan bool) uint64 {
	switch r.Pick(6) {
	case 0, 1, 2:
		return scoreBits[r.Pick(len(scoreBits))]
	case 3:
		if nan {
			return nanBits[r.Pick(len(nanBits))]
		}
		return math.Float64bits(float64(r.Pick(7) - 3))
	case 4:
		return math.Float64bits(float64(r.Pick(2000)-1000) / 8)
	default:
		for {
			u := r.Uint64()
			if nan || !math.IsNaN(math.Float64frombits(u)) {
				return u
			}
		}
	}
}

var intPool = []int64{0, 1, -1, 2, 57, 58, 59, 255, 256, -255, -256, 1000, 1024, 8192, math.MinInt64, math.MaxInt64,
	math.MinInt64 + 1, math.MaxInt64 - 1, 1 << 62, -(1 << 62), 1<<62 - 1000, 1<<32 - 1, 1 << 32, -(1 << 32), 1 << 31, 1<<8 - 1, 1 << 56, -(1 << 56)}

func advInt(r *hx.Rng) int64 {
	switch r.Pick(4) {
	case 0, 1:
		return intPool[r.Pick(len(intPool))]
	case 2:
		return int64(r.Pick(9) - 4)
	default:
		return int64(r.Uint64())
	}
}

func advVals(r *hx.Rng, dense bool) []interface{} {
	n := r.Pick(6)
	vs := make([]interface{}, n)
	for i := range vs {
		switch r.Pick(7) {
		case 0:
			vs[i] = nil
		case 1, 2, 3:
			if dense {
				vs[i] = append([]byte{}, fixedNames[r.Pick(len(fixedNames))]...)
			} else {
				vs[i] = advName(r)
			}
		case 4, 5:
			if dense {
				vs[i] = intPool[r.Pick(8)]
			} else {
				vs[i] = advInt(r)
			}
		default:
			if dense {
				vs[i] = math.Float64frombits(scoreBits[r.Pick(6)])
			} else {
				vs[i] = math.Float64frombits(advScore(r, true))
			}
		}
	}
	return vs
}

// mutate a valid encoding into a (probably) malformed one
func mutate(r *hx.Rng, e []byte) []byte {
	b := append([]byte{}, e...)
	for k := 1 + r.Pick(2); k > 0; k-- {
		switch r.Pick(8) {
		case 0:
			if len(b) > 0 {
				b = b[:r.Pick(len(b))]
			}
		case 1:
			if len(b) > 0 {
				b[r.Pick(len(b))] ^= byte(1 << uint(r.Pick(8)))
			}
		case 2:
			p := r.Pick(len(b) + 1)
			b = append(b[:p], append([]byte{alpha[r.Pick(len(alpha))]}, b[p:]...)...)
		case 3:
			if len(b) > 0 {
				b[r.Pick(len(b))] = []byte{0, 0xff, 0xf7, 0xfe, ':', ';', 1, 3, 5}[r.Pick(9)]
			}
		case 4:
			b = append(b, r.Bytes(1+r.Pick(10), alpha)...)
		case 5:
			if len(b) > 0 {
				b[0] = []byte{rr.KVType, rr.HashType, rr.ListType, rr.ZSetType, rr.ZScoreType, rr.SetType, rr.BitmapType, rr.JSONType, 0}[r.Pick(9)]
			}
		case 6:
			if len(b) > 3 {
				p := 1 + r.Pick(3)
				if p < len(b) {
					b = append(b[:p], b[p+1:]...)
				}
			}
		default:
			// keep as is (valid input to a decoder)
		}
	}
	return b
}

// ---------- generation ----------

type gen struct {
	r     *hx.Rng
	cases []cs
	n     int
	pref  string
}

func (g *gen) add(kind string, f ...string) {
	g.n++
	g.cases = append(g.cases, cs{fmt.Sprintf("%s%d", g.pref, g.n), kind, f})
}

func pickDistinct(r *hx.Rng, n int, mk func() []byte) [][]byte {
	var out [][]byte
	seen := map[string]bool{}
	for tries := 0; len(out) < n && tries < 50*n; tries++ {
		b := mk()
		if !seen[string(b)] {
			seen[string(b)] = true
			out = append(out, b)
		}
	}
	return out
}

var collTypes = []byte{rr.HashType, rr.SetType, rr.ZSetType}

// a world: a dense population of guarded tuples (':'-free tables, non-empty keys within the limits);
// the oracle checks distinctness, range containment/exclusion and order over the whole world
func (g *gen) world(w int) {
	r := g.r
	g.pref = fmt.Sprintf("w%d.", w)
	g.n = 0
	tables := pickDistinct(r, 3, func() []byte {
		t := noColon(advName(r))
		if len(t) > 30 {
			t = t[:30]
		}
		return t
	})
	rks := pickDistinct(r, 4, func() []byte {
		k := advName(r)
		if len(k) == 0 {
			k = []byte{0}
		}
		return k
	})
	// collection-key slot K: raw key (local policy) and/or versioned key (compact policy)
	vers := []int64{0, 1, []int64{-1, 2, math.MaxInt64, math.MinInt64, 1600000000000000000}[r.Pick(5)]}
	mode := r.Pick(3)
	var ks [][]byte
	for _, rk := range rks {
		if mode != 1 {
			ks = append(ks, rk)
		}
		if mode != 0 {
			nv := 1 + r.Pick(2)
			for i := 0; i < nv; i++ {
				v := vers[r.Pick(len(vers))]
				g.add("VK", fz(v), H(rk))
				ks = append(ks, rr.VerifEncodeVerKey(v, rk))
			}
		}
	}
	ks = pickDistinctFrom(ks)
	subs := pickDistinct(r, 6, func() []byte { return advName(r) })
	scores := []uint64{advScore(r, false), advScore(r, false), advScore(r, false)}
	c := rr.VerifConsts()
	seqs := []int64{c["list_min_seq"], c["list_initial_seq"], c["list_initial_seq"] - 1, c["list_initial_seq"] + 1, c["list_max_seq"],
		c["list_min_seq"] + int64(r.Pick(100000))}
	idxs := []int64{0, 1024, 2048, int64(r.Pick(1<<20)) * 1024}

	for _, tb := range tables {
		for _, dt := range []byte{rr.KVType, rr.HashType, rr.ListType, rr.ZSetType, rr.ZScoreType, rr.SetType, rr.JSONType, rr.BitmapType} {
			g.add("TP", fmt.Sprint(dt), H(tb))
		}
		for _, p := range [][2]byte{{rr.KVType, rr.KVType}, {rr.HashType, rr.HSizeType}, {rr.ListType, rr.LMetaType}, {rr.SetType, rr.SSizeType}, {rr.ZSetType, rr.ZSizeType}} {
			g.add("TR", fmt.Sprint(p[0]), fmt.Sprint(p[1]), H(tb), "~", "~")
		}
		g.add("TM", H(tb), fmt.Sprint(1+r.Pick(2)))
		for _, rk := range rks {
			raw := append(append(append([]byte{}, tb...), ':'), rk...)
			g.add("XT", H(raw))
			g.add("SK", H(raw))
			g.add("JK", H(tb), H(rk))
			g.add("XK", fmt.Sprint(collTypes[r.Pick(3)]), H(raw), fz(int64(1600000000+r.Pick(1000))))
		}
		for _, k := range ks {
			for _, sub := range subs {
				for _, dt := range collTypes {
					g.add("CS", fmt.Sprint(dt), H(tb), H(k), H(sub))
				}
			}
			for _, s := range seqs {
				g.add("LK", H(tb), H(k), fz(s))
			}
			for _, sc := range scores {
				g.add("ZR", H(tb), H(k), fu(sc))
				for i := 0; i < 3; i++ {
					g.add("ZS", "00", H(tb), H(k), H(subs[(i*2+int(sc%3))%len(subs)]), fu(sc))
				}
			}
			for _, ix := range idxs {
				g.add("BK", H(tb), H(k), fz(ix))
			}
		}
	}
}

func pickDistinctFrom(in [][]byte) [][]byte {
	var out [][]byte
	seen := map[string]bool{}
	for _, b := range in {
		if !seen[string(b)] {
			seen[string(b)] = true
			out = append(out, b)
		}
	}
	return out
}

func generate(r *hx.Rng, worlds, n int) []cs {
	g := &gen{r: r}
	for w := 1; w <= worlds; w++ {
		g.world(w)
	}
	g.pref, g.n = "x", 0
	// --- memcomparable codec ---
	for _, b := range fixedNames {
		g.add("EB", H(b))
	}
	for i := 0; i < n; i++ {
		g.add("EB", H(advName(r)))
	}
	for i := 0; i < 64; i++ { // all lengths 0..63
		g.add("EB", H(r.Bytes(i, alpha)))
	}
	for i := 0; i < n; i++ {
		e := rr.EncodeBytes(nil, advName(r))
		if r.Chance(0.3) {
			e = rr.EncodeBytesDesc(nil, advName(r))
		}
		g.add("DB", H(mutate(r, e)))
	}
	for _, v := range intPool {
		g.add("EI", fz(v))
		g.add("EU", fu(uint64(v)))
	}
	for i := 0; i < n/2; i++ {
		g.add("EI", fz(advInt(r)))
		g.add("EU", fu(uint64(advInt(r))))
	}
	for _, u := range scoreBits {
		g.add("EF", fu(u))
	}
	for _, u := range nanBits {
		g.add("EF", fu(u))
	}
	for i := 0; i < n/2; i++ {
		g.add("EF", fu(advScore(r, true)))
	}
	for i := 0; i < n/2; i++ {
		g.add("DN", H(r.Bytes(r.Pick(12), nil)))
	}
	all := append(append([]uint64{}, scoreBits...), nanBits...)
	for _, a := range all {
		for _, b := range all {
			g.add("FC", fu(a), fu(b))
		}
	}
	for i := 0; i < n; i++ {
		g.add("FC", fu(advScore(r, true)), fu(advScore(r, true)))
	}
	for i := 0; i < n; i++ {
		g.add("MC", fmtVals(advVals(r, i%2 == 0)))
	}
	for i := 0; i < n; i++ {
		e, _ := rr.EncodeMemCmpKey(nil, advVals(r, false)...)
		g.add("MD", H(mutate(r, e)))
	}
	// --- keys: free-form (any bytes, also unguarded) ---
	dts := []byte{rr.KVType, rr.HashType, rr.HSizeType, rr.ListType, rr.LMetaType, rr.ZSetType, rr.ZSizeType, rr.ZScoreType, rr.SetType,
		rr.SSizeType, rr.JSONType, rr.BitmapType, rr.BitmapMetaType, 0, 10, 11, 40, 101, 255}
	for i := 0; i < n/2; i++ {
		dt := dts[r.Pick(len(dts))]
		tb, k, sub := advName(r), advName(r), advName(r)
		g.add("TP", fmt.Sprint(dt), H(tb))
		g.add("DTP", fmt.Sprint(dts[r.Pick(len(dts))]), H(mutate(r, rr.VerifEncodeDataTableStart(dt, tb))))
		g.add("XT", H(advName(r)))
		g.add("CS", fmt.Sprint(dt), H(tb), H(k), H(sub))
		cdt := collTypes[r.Pick(3)]
		g.add("CS", fmt.Sprint(cdt), H(tb), H(k), H(sub))
		g.add("DCS", H(mutate(r, rr.VerifEncodeCollSubKey(cdt, tb, k, sub))))
		seq := advInt(r)
		g.add("LK", H(tb), H(k), fz(seq))
		g.add("DLK", H(mutate(r, rr.VerifLEncodeListKey(tb, k, seq))))
		sc := advScore(r, true)
		fl := []string{"00", "01", "10", "11"}[r.Pick(4)]
		g.add("ZS", fl, H(tb), H(k), H(sub), fu(sc))
		g.add("ZR", H(tb), H(k), fu(sc))
		g.add("DZS", H(mutate(r, rr.VerifZEncodeScoreKey(false, false, tb, k, sub, math.Float64frombits(sc)))))
		bk, _ := rr.VerifEncodeBitmapKey(tb, k, seq)
		g.add("BK", H(tb), H(k), fz(seq))
		g.add("DBK", H(mutate(r, bk)))
		g.add("VK", fz(seq), H(k))
		g.add("DVK", H(mutate(r, rr.VerifEncodeVerKey(seq, k))))
		g.add("MK", fmt.Sprint(dt), H(k))
		g.add("SK", H(k))
		mk, _ := rr.VerifEncodeMetaKey(dts[r.Pick(13)], k)
		g.add("DMK", H(mutate(r, mk)))
		g.add("TM", H(tb), fmt.Sprint(r.Pick(256)))
		if r.Chance(0.5) {
			g.add("DTM", H(mutate(r, rr.VerifEncodeTableMetaKey(tb))))
		} else {
			g.add("DTM", H(mutate(r, rr.VerifEncodeTableIndexMetaKey(tb, byte(r.Pick(3))))))
		}
		st, en := "~", "~"
		if r.Chance(0.5) {
			st = H(advName(r))
		}
		if r.Chance(0.5) {
			en = H(advName(r))
		}
		g.add("TR", fmt.Sprint(dt), fmt.Sprint(dts[r.Pick(len(dts))]), H(tb), st, en)
		jk, _ := rr.VerifEncodeJSONKey(tb, k)
		g.add("JK", H(tb), H(k))
		g.add("DJK", H(mutate(r, jk)))
		stopf := "0"
		if r.Chance(0.2) {
			stopf = "1"
		}
		g.add("HK", H(tb), H(k), fz(seq), H(sub), H(advName(r)), stopf)
		if r.Chance(0.5) {
			hk, _ := rr.VerifEncodeHsetIndexNumberKey(tb, k, seq, sub, false)
			g.add("DHK", H(mutate(r, hk)))
		} else {
			hk, _ := rr.VerifEncodeHsetIndexStringKey(tb, k, sub, advName(r), false)
			g.add("DHK", H(mutate(r, hk)))
		}
		g.add("XK", fmt.Sprint(dt), H(k), fz(seq))
		if r.Chance(0.5) {
			g.add("DXK", H(mutate(r, rr.VerifExpEncodeTimeKey(dt, k, seq))))
		} else {
			g.add("DXK", H(mutate(r, rr.VerifExpEncodeMetaKey(dt, k))))
		}
	}
	// decoders on short raw strings (truncation faults)
	for i := 0; i < n/4; i++ {
		raw := r.Bytes(r.Pick(6), []byte{rr.HashType, rr.ListType, rr.ZScoreType, rr.BitmapType, rr.JSONType, 0, 1, ':', 3})
		if r.Chance(0.3) {
			raw = append([]byte{rr.IndexDataType, 1}, r.Bytes(r.Pick(12), []byte{0, 1, ':', 3, 'a'})...)
		}
		for _, k := range []string{"DCS", "DLK", "DZS", "DBK", "DJK", "DVK", "DMK", "DTM", "DXK", "MD", "DB", "DHK"} {
			g.add(k, H(raw))
		}
		g.add("DTP", fmt.Sprint(raw0(raw)), H(raw))
	}
	// engine range iterator semantics over collection ranges (open / closed bounds; the empty member = start key)
	for i := 0; i < n/6; i++ {
		dt := collTypes[r.Pick(3)]
		tb, k := noColon(advName(r)), advName(r)
		var keys [][]byte
		seen := map[string]bool{}
		addk := func(b []byte) {
			if !seen[string(b)] {
				seen[string(b)] = true
				keys = append(keys, b)
			}
		}
		addk(rr.VerifEncodeCollSubKey(dt, tb, k, []byte{}))
		for j := r.Pick(6); j > 0; j-- {
			addk(rr.VerifEncodeCollSubKey(dt, tb, k, advName(r)))
		}
		for j := r.Pick(4); j > 0; j-- {
			addk(rr.VerifEncodeCollSubKey(collTypes[r.Pick(3)], tb, advName(r), advName(r)))
		}
		if r.Chance(0.3) {
			addk(rr.VerifHEncodeStopKey(tb, k))
		}
		sort.Slice(keys, func(a, b int) bool { return bytes.Compare(keys[a], keys[b]) < 0 })
		var lo, hi []byte
		switch dt {
		case rr.HashType:
			lo, hi = rr.VerifHEncodeStartKey(tb, k), rr.VerifHEncodeStopKey(tb, k)
		case rr.SetType:
			lo, hi = rr.VerifSEncodeStartKey(tb, k), rr.VerifSEncodeStopKey(tb, k)
		default:
			lo, hi = rr.VerifZEncodeStartSetKey(tb, k), rr.VerifZEncodeStopSetKey(tb, k)
		}
		ks := "~"
		if len(keys) > 0 {
			ks = hx.HL(keys)
		}
		rt := fmt.Sprint([]int{0, 1, 16, 17}[r.Pick(4)])
		g.add("RD", rt, H(lo), H(hi), ks)
		// the same range backwards (reverse scans; shared with C13 / C20): also with bounds that fall before the
		// first or after the last stored key
		if r.Chance(0.3) && len(keys) > 0 {
			lo = append([]byte{}, keys[0]...)
			lo[len(lo)-1]--
		}
		if r.Chance(0.3) && len(keys) > 0 {
			hi = append(append([]byte{}, keys[len(keys)-1]...), 0xff)
		}
		g.add("RDR", rt, H(lo), H(hi), ks)
		if i%3 == 0 {
			// WriteBatch.DeleteRange over list sequence keys: [key(a), key(b)) as LTRIM uses it
			var lks [][]byte
			base := int64(1) << 61
			for s := int64(0); s < 8; s++ {
				lks = append(lks, rr.VerifLEncodeListKey(tb, k, base+s))
			}
			lks = append(lks, rr.VerifLEncodeListKey(tb, append(append([]byte{}, k...), 0), base+2))
			sort.Slice(lks, func(a, b int) bool { return bytes.Compare(lks[a], lks[b]) < 0 })
			a := base + int64(r.Pick(5))
			b := a + int64(r.Pick(5))
			g.add("DR", H(rr.VerifLEncodeListKey(tb, k, a)), H(rr.VerifLEncodeListKey(tb, k, b)), hx.HL(lks))
		}
	}
	// size limits
	mk := int(rr.VerifConsts()["max_key_size"])
	for _, l := range []int{0, 1, mk - 1, mk, mk + 1, 2 * mk} {
		for _, s := range []int{0, 1, mk, mk + 1} {
			g.add("CK", fmt.Sprint(l), fmt.Sprint(s))
		}
	}
	g.add("XT", H(append([]byte("t:"), make([]byte, mk-2)...)))
	g.add("XT", H(append([]byte("t:"), make([]byte, mk-1)...)))
	// u16 length fields beyond 65535 (unguarded: table names have no length limit in the code)
	big := make([]byte, 65536+3)
	for i := range big {
		big[i] = 'a'
	}
	g.add("TP", fmt.Sprint(rr.HashType), H(big))
	g.add("TP", fmt.Sprint(rr.HashType), H(big[:65535]))
	g.add("TP", fmt.Sprint(rr.HashType), H(big[:65536]))
	g.add("CS", fmt.Sprint(rr.HashType), H(big[:65536]), H([]byte("k")), H([]byte("f")))
	g.add("CS", fmt.Sprint(rr.SetType), H([]byte("t")), H(big[:65537]), H([]byte("f")))
	g.add("LK", H([]byte("t")), H(big[:65536]), fz(1000))
	return g.cases
}

func raw0(b []byte) int {
	if len(b) == 0 {
		return 0
	}
	return int(b[0])
}
