package main

import (
	"fmt"
	"go/ast"
	"go/parser"
	"go/token"
	"os"
	"sort"
	"strings"

	"github.com/youzan/ZanRedisDB/common"
)

// rangeTypeConsts reads, from the SOURCE of the repository, which range type (open/closed bounds) each
// function of the collection files passes to the engine iterator, and prints one Coq constant per function
// that uses exactly one distinct common.Range* value: rtype_<file>_<func>.
func rangeTypeConsts() {
	repo := os.Getenv("VERIF_REPO")
	if repo == "" {
		repo = "/repo"
	}
	vals := map[string]uint8{"RangeClose": common.RangeClose, "RangeLOpen": common.RangeLOpen,
		"RangeROpen": common.RangeROpen, "RangeOpen": common.RangeOpen}
	fmt.Printf("Definition range_close : N := %d%%N.\n", common.RangeClose)
	fmt.Printf("Definition range_lopen : N := %d%%N.\n", common.RangeLOpen)
	fmt.Printf("Definition range_ropen : N := %d%%N.\n", common.RangeROpen)
	fmt.Printf("Definition range_open : N := %d%%N.\n", common.RangeOpen)
	for _, f := range []string{"t_hash", "t_set", "t_zset", "t_list", "t_bitmap"} {
		fset := token.NewFileSet()
		file, err := parser.ParseFile(fset, repo+"/rockredis/"+f+".go", nil, 0)
		if err != nil {
			fmt.Printf("(* parse error %s: %v *)\n", f, err)
			continue
		}
		var lines []string
		for _, d := range file.Decls {
			fd, ok := d.(*ast.FuncDecl)
			if !ok || fd.Body == nil {
				continue
			}
			seen := map[string]bool{}
			ast.Inspect(fd.Body, func(n ast.Node) bool {
				if se, ok := n.(*ast.SelectorExpr); ok {
					if x, ok := se.X.(*ast.Ident); ok && x.Name == "common" {
						if _, ok := vals[se.Sel.Name]; ok {
							seen[se.Sel.Name] = true
						}
					}
				}
				return true
			})
			if len(seen) == 1 {
				for k := range seen {
					lines = append(lines, fmt.Sprintf("Definition rtype_%s_%s : N := %d%%N. (* common.%s *)",
						strings.TrimPrefix(f, "t_"), fd.Name.Name, vals[k], k))
				}
			}
		}
		sort.Strings(lines)
		for _, l := range lines {
			fmt.Println(l)
		}
	}
}
