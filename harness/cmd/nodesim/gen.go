package main

import (
	"bytes"
	"fmt"
	"strings"
	"time"

	"verif/harness/internal/hx"
)

const NS = "vns"

// templates: at least one valid command per registered command name. Commands registered at run
// time that have no template here get generic templates (see genericTemplates), so a newly
// registered command is still exercised.
var templates = map[string][][]string{
	// kv reads
	"get": {{"get", "vns:t:k1"}}, "stale.get": {{"stale.get", "vns:t:k1"}}, "stale.getversion": {{"stale.getversion", "vns:t:k1"}},
	"stale.getexpired": {{"stale.getexpired", "vns:t:k1"}}, "strlen": {{"strlen", "vns:t:k1"}},
	"getrange": {{"getrange", "vns:t:k1", "0", "1"}}, "getnolock": {{"getnolock", "vns:t:k1"}},
	"getbit": {{"getbit", "vns:t:b1", "7"}}, "bitcount": {{"bitcount", "vns:t:b1"}, {"bitcount", "vns:t:b1", "0", "-1"}},
	"mget": {{"mget", "vns:t:k1", "vns:t:num"}}, "pfcount": {{"pfcount", "vns:t:p1"}},
	// kv writes
	"noopwrite": {{"noopwrite", "vns:t:k1", "x"}},
	"set":       {{"set", "vns:t:k1", "v2"}, {"set", "vns:t:k2", "v", "ex", "100000"}, {"set", "vns:t:k1", "v", "nx"}, {"set", "vns:t:k1", "v", "xx", "ex", "100000"}},
	"append":    {{"append", "vns:t:k1", "xy"}}, "setrange": {{"setrange", "vns:t:k1", "1", "zz"}},
	"getset": {{"getset", "vns:t:k1", "v3"}}, "setbit": {{"setbit", "vns:t:b2", "9", "1"}}, "setbitv2": {{"setbitv2", "vns:t:b1", "9", "1"}},
	"setnx": {{"setnx", "vns:t:knew", "v"}, {"setnx", "vns:t:k1", "v"}}, "setifeq": {{"setifeq", "vns:t:k1", "v1", "v9"}, {"setifeq", "vns:t:k1", "v1", "v9", "ex", "100000"}},
	"delifeq": {{"delifeq", "vns:t:k1", "v1"}}, "incr": {{"incr", "vns:t:num"}}, "incrby": {{"incrby", "vns:t:num", "5"}},
	"pfadd": {{"pfadd", "vns:t:p1", "c", "d"}}, "bitclear": {{"bitclear", "vns:t:b1"}},
	// hash
	"hget": {{"hget", "vns:t:h1", "f1"}}, "stale.hget.version": {{"stale.hget.version", "vns:t:h1", "f1"}},
	"stale.hgetall.expired": {{"stale.hgetall.expired", "vns:t:h1"}}, "stale.hmget.expired": {{"stale.hmget.expired", "vns:t:h1", "f1", "f2"}},
	"hgetall": {{"hgetall", "vns:t:h1"}}, "hkeys": {{"hkeys", "vns:t:h1"}}, "hvals": {{"hvals", "vns:t:h1"}},
	"hexists": {{"hexists", "vns:t:h1", "f1"}}, "hmget": {{"hmget", "vns:t:h1", "f1", "nof"}}, "hlen": {{"hlen", "vns:t:h1"}},
	"hset": {{"hset", "vns:t:h1", "f3", "v3"}}, "hsetnx": {{"hsetnx", "vns:t:h1", "f4", "v4"}},
	"hmset": {{"hmset", "vns:t:h1", "f5", "v5", "f6", "v6"}, {"hmset", "vns:t:h3", "a", "1"}, {"hmset", "vns:t:h4", "a", "1", "b", "2", "c", "3"}}, "hdel": {{"hdel", "vns:t:h1", "f1", "f5"}},
	"hincrby": {{"hincrby", "vns:t:h1", "f2", "3"}}, "hclear": {{"hclear", "vns:t:h2"}},
	// json
	"json.get": {{"json.get", "vns:t:j1", "a"}, {"json.get", "vns:t:j1"}}, "json.keyexists": {{"json.keyexists", "vns:t:j1"}},
	"json.mkget": {{"json.mkget", "vns:t:j1", "vns:t:j2", "a"}}, "json.type": {{"json.type", "vns:t:j1", "a"}},
	"json.arrlen": {{"json.arrlen", "vns:t:j1", "a"}}, "json.objkeys": {{"json.objkeys", "vns:t:j1"}}, "json.objlen": {{"json.objlen", "vns:t:j1"}},
	"json.set": {{"json.set", "vns:t:j1", "c", "3"}}, "json.del": {{"json.del", "vns:t:j1", "b"}},
	"json.arrappend": {{"json.arrappend", "vns:t:j1", "a", "3", "4"}}, "json.arrpop": {{"json.arrpop", "vns:t:j1", "a"}},
	// list
	"lindex": {{"lindex", "vns:t:l1", "1"}}, "llen": {{"llen", "vns:t:l1"}}, "lrange": {{"lrange", "vns:t:l1", "0", "-1"}},
	"lfixkey": {{"lfixkey", "vns:t:l1"}}, "lpop": {{"lpop", "vns:t:l1"}}, "lpush": {{"lpush", "vns:t:l1", "x", "y"}},
	"lset": {{"lset", "vns:t:l1", "0", "q"}}, "ltrim": {{"ltrim", "vns:t:l1", "0", "5"}}, "rpop": {{"rpop", "vns:t:l1"}},
	"rpush": {{"rpush", "vns:t:l1", "z"}}, "lclear": {{"lclear", "vns:t:l2"}},
	// zset
	"zscore": {{"zscore", "vns:t:z1", "m1"}}, "zcount": {{"zcount", "vns:t:z1", "1", "(3"}}, "zcard": {{"zcard", "vns:t:z1"}},
	"zlexcount": {{"zlexcount", "vns:t:z1", "[a", "(z"}}, "zrange": {{"zrange", "vns:t:z1", "0", "-1"}, {"zrange", "vns:t:z1", "0", "1", "withscores"}},
	"zrevrange":        {{"zrevrange", "vns:t:z1", "0", "-1", "withscores"}},
	"zrangebylex":      {{"zrangebylex", "vns:t:z1", "-", "+"}, {"zrangebylex", "vns:t:z1", "[a", "(z", "limit", "0", "2"}},
	"zrangebyscore":    {{"zrangebyscore", "vns:t:z1", "-inf", "+inf"}, {"zrangebyscore", "vns:t:z1", "(1", "3", "withscores", "limit", "0", "2"}},
	"zrevrangebyscore": {{"zrevrangebyscore", "vns:t:z1", "+inf", "-inf", "limit", "1", "1"}},
	"zrank":            {{"zrank", "vns:t:z1", "m2"}}, "zrevrank": {{"zrevrank", "vns:t:z1", "m2"}},
	"zfixkey": {{"zfixkey", "vns:t:z1"}}, "zadd": {{"zadd", "vns:t:z1", "4", "m4"}, {"zadd", "vns:t:z1", "1.5", "m1", "-2", "m5"}},
	"zincrby": {{"zincrby", "vns:t:z1", "2.5", "m1"}}, "zrem": {{"zrem", "vns:t:z1", "m1", "nom"}},
	"zremrangebyrank": {{"zremrangebyrank", "vns:t:z1", "0", "0"}}, "zremrangebyscore": {{"zremrangebyscore", "vns:t:z1", "(1", "2"}},
	"zremrangebylex": {{"zremrangebylex", "vns:t:z1", "[m1", "(m2"}}, "zclear": {{"zclear", "vns:t:z2"}},
	// set
	"scard": {{"scard", "vns:t:s1"}}, "sismember": {{"sismember", "vns:t:s1", "m1"}}, "smembers": {{"smembers", "vns:t:s1"}},
	"srandmember": {{"srandmember", "vns:t:s1"}, {"srandmember", "vns:t:s1", "2"}}, "spop": {{"spop", "vns:t:s1"}, {"spop", "vns:t:s1", "2"}},
	"sadd": {{"sadd", "vns:t:s1", "m1", "m9"}}, "srem": {{"srem", "vns:t:s1", "m2", "nom"}}, "sclear": {{"sclear", "vns:t:s2"}},
	// ttl
	"ttl": {{"ttl", "vns:t:kex"}}, "httl": {{"httl", "vns:t:h1"}}, "lttl": {{"lttl", "vns:t:l1"}}, "sttl": {{"sttl", "vns:t:s1"}},
	"zttl": {{"zttl", "vns:t:z1"}}, "bttl": {{"bttl", "vns:t:b1"}},
	"hkeyexist": {{"hkeyexist", "vns:t:h1"}}, "lkeyexist": {{"lkeyexist", "vns:t:l1"}}, "skeyexist": {{"skeyexist", "vns:t:s1"}},
	"zkeyexist": {{"zkeyexist", "vns:t:z1"}}, "bkeyexist": {{"bkeyexist", "vns:t:b1"}},
	"setex":  {{"setex", "vns:t:kex2", "100000", "v"}},
	"expire": {{"expire", "vns:t:k1", "100000"}}, "hexpire": {{"hexpire", "vns:t:h1", "100000"}}, "lexpire": {{"lexpire", "vns:t:l1", "100000"}},
	"sexpire": {{"sexpire", "vns:t:s1", "100000"}}, "zexpire": {{"zexpire", "vns:t:z1", "100000"}}, "bexpire": {{"bexpire", "vns:t:b1", "100000"}},
	"persist": {{"persist", "vns:t:kex"}}, "hpersist": {{"hpersist", "vns:t:h1"}}, "lpersist": {{"lpersist", "vns:t:l1"}},
	"spersist": {{"spersist", "vns:t:s1"}}, "zpersist": {{"zpersist", "vns:t:z1"}}, "bpersist": {{"bpersist", "vns:t:b1"}},
	// scans
	"hscan": {{"hscan", "vns:t:h1", "", "count", "2"}, {"hscan", "vns:t:h1", "f1", "match", "f*"}}, "sscan": {{"sscan", "vns:t:s1", "", "count", "2"}},
	"zscan": {{"zscan", "vns:t:z1", "", "count", "2"}}, "hrevscan": {{"hrevscan", "vns:t:h1", "f9", "count", "2"}},
	"srevscan": {{"srevscan", "vns:t:s1", "m9"}}, "zrevscan": {{"zrevscan", "vns:t:z1", "m9", "match", "m*", "count", "5"}},
	// geo
	"geoadd":  {{"geoadd", "vns:t:g1", "13.583333", "37.316667", "Agrigento"}, {"geoadd", "vns:t:g1", "2.35", "48.85", "Paris", "-0.12", "51.5", "London"}},
	"geohash": {{"geohash", "vns:t:g1", "Palermo", "nom"}}, "geodist": {{"geodist", "vns:t:g1", "Palermo", "Catania", "km"}},
	"geopos": {{"geopos", "vns:t:g1", "Palermo"}}, "georadius": {{"georadius", "vns:t:g1", "15", "37", "200", "km", "withdist", "count", "3", "asc"}},
	"georadiusbymember": {{"georadiusbymember", "vns:t:g1", "Palermo", "200", "km", "withcoord", "desc"}},
	// merge
	"scan": {{"scan", "vns:t:", "count", "5"}, {"scan", "vns:t:", "match", "k*"}}, "advscan": {{"advscan", "vns:t:", "hash", "count", "5"}, {"advscan", "vns:t:", "kv"}},
	"revscan": {{"revscan", "vns:t:", "count", "5"}}, "advrevscan": {{"advrevscan", "vns:t:", "zset", "count", "5"}},
	"fullscan": {{"fullscan", "vns:t:", "kv", "count", "5"}, {"fullscan", "vns:t:", "hash", "count", "3"}, {"fullscan", "vns:t:", "set"}, {"fullscan", "vns:t:", "zset", "match", "z*"}, {"fullscan", "vns:t:", "list"}},
	"hidx.from": {{"hidx.from", "vns:t", "where", "f1 > 1", "hget", "$", "f2"}, {"hidx.from", "vns:t", "where", "f1 = 1"},
		{"hidx.from", "vns:t", "where", "\"f1 >= 1 and f1 < 9\"", "limit", "0", "5", "hmget", "$", "f1", "f2"}, {"hidx.from", "vns:t", "where", "f1<=3", "hgetall", "$"}},
	"exists": {{"exists", "vns:t:k1", "vns:t:nok"}}, "del": {{"del", "vns:t:k1", "vns:t:num"}, {"del", "vns:t:kdel"}},
	"plset": {{"plset", "vns:t:pa", "1", "vns:t:pb", "2"}},
	// internal-only names (no client route): tried anyway
	"mset": {{"mset", "vns:t:ma", "1", "vns:t:mb", "2"}}, "hmclear": {{"hmclear", "vns:t:h1"}}, "lmclear": {{"lmclear", "vns:t:l1"}},
	"smclear": {{"smclear", "vns:t:s1"}}, "zmclear": {{"zmclear", "vns:t:z1"}},
}

// initial state: loaded through the normal command path before the vectors
var initState = [][]string{
	{"set", "vns:t:k1", "v1"}, {"set", "vns:t:num", "10"}, {"setex", "vns:t:kex", "100000", "v"}, {"set", "vns:t:kdel", "x"},
	{"hmset", "vns:t:h1", "f1", "v1", "f2", "2"}, {"hmset", "vns:t:h2", "a", "b"},
	{"rpush", "vns:t:l1", "a", "b", "c", "d", "e", "f"}, {"rpush", "vns:t:l2", "x"},
	{"sadd", "vns:t:s1", "m1", "m2", "m3", "m4", "m5"}, {"sadd", "vns:t:s2", "x"},
	{"zadd", "vns:t:z1", "1", "m1", "2", "m2", "3", "m3"}, {"zadd", "vns:t:z2", "1", "x"},
	{"json.set", "vns:t:j1", ".", `{"a":[1,2],"b":"x"}`}, {"json.set", "vns:t:j2", ".", `{"a":7}`},
	{"setbitv2", "vns:t:b1", "7", "1"}, {"pfadd", "vns:t:p1", "a", "b"},
	{"geoadd", "vns:t:g1", "13.361389", "38.115556", "Palermo", "15.087269", "37.502669", "Catania"},
}

var maintenance = [][]string{
	{"lclear", "vns:t:l1"}, {"lclear", "vns:t:l2"}, {"hclear", "vns:t:h1"}, {"hclear", "vns:t:h2"}, {"sclear", "vns:t:s1"},
	{"sclear", "vns:t:s2"}, {"zclear", "vns:t:z1"}, {"zclear", "vns:t:z2"}, {"zclear", "vns:t:g1"}, {"del", "vns:t:k1", "vns:t:j1", "vns:t:j2", "vns:t:p1"},
	{"json.del", "vns:t:j1"}, {"json.del", "vns:t:j2"}, {"bitclear", "vns:t:b1"}, {"bitclear", "vns:t:b2"},
	{"lclear", "vns:t:lbig"}, {"hclear", "vns:t:hbig"}, {"sclear", "vns:t:sbig"}, {"zclear", "vns:t:zbig"},
}

func genericTemplates(name string) [][]string {
	var out [][]string
	pool := []string{"a", "1", "b", "2", "c", "3"}
	for n := 0; n <= 6; n++ {
		t := []string{name, "vns:t:k1"}
		t = append(t, pool[:n]...)
		out = append(out, t)
	}
	return out
}

var longKey = bytes.Repeat([]byte("K"), 10241)

// valuePool: adversarial replacement values
var valuePool = [][]byte{
	[]byte(""), []byte("-0"), []byte("1e400"), []byte("-1e400"), []byte("9223372036854775807"), []byte("9223372036854775808"),
	[]byte("-9223372036854775808"), []byte("-9223372036854775807"), []byte("-9223372036854775809"), []byte("9223372036854775806"), []byte("\x00"), []byte("\xff\xfe\x80"), []byte("nan"), []byte("NaN"),
	[]byte("inf"), []byte("-inf"), []byte("+inf"), []byte("Infinity"), []byte("("), []byte("["), []byte("(1"), []byte("[1"), []byte("(inf"), []byte("(nan"),
	[]byte("-1"), []byte("0"), []byte("1"), []byte("2"), []byte("+5"), []byte("4294967295"), []byte("4294967296"), []byte("2147483648"), []byte("-2147483649"),
	[]byte("18446744073709551616"), []byte("1.5"), []byte(" 1"), []byte("1 "), []byte("0x10"), []byte("1_000"), []byte("1e3"), []byte("abc"), []byte(":"),
	[]byte(" "), []byte("-"), []byte("+"), []byte("--1"), []byte("+-1"), []byte("00"), []byte("007"), []byte("1e"), []byte(".5"), []byte("5."), []byte("."),
	[]byte("limit"), []byte("LIMIT"), []byte("withscores"), []byte("WITHSCORES"), []byte("count"), []byte("COUNT"), []byte("match"), []byte("ex"), []byte("EX"),
	[]byte("nx"), []byte("xx"), []byte("NX"), []byte("px"), []byte("kv"), []byte("KV"), []byte("hash"), []byte("zset"), []byte("list"), []byte("set"), []byte("bogus"),
	[]byte("m"), []byte("km"), []byte("ft"), []byte("mi"), []byte("asc"), []byte("desc"), []byte("withdist"), []byte("withcoord"), []byte("withhash"), []byte("store"),
	[]byte("181"), []byte("-181"), []byte("86"), []byte("-86"), []byte("90"), []byte("1e308"), []byte("-1e308"), []byte("4.9e-324"), []byte("1e-400"),
	[]byte("where"), []byte("$"), []byte("*"), []byte("[*"), []byte("a[0]"), []byte("a.b"), []byte("{"), []byte(`{"x":1}`), []byte(`"s"`), []byte("[1,2]"), []byte("null"),
	[]byte("m1"), []byte("f1"), []byte("v1"), []byte("Palermo"),
	// HIDX.FROM where-expressions (node/secondary_index.go parseIndexQueryWhere)
	[]byte("="), []byte("<"), []byte(">"), []byte("<="), []byte(">="), []byte("and"), []byte("f1=1"), []byte("=1"), []byte("f1="),
	[]byte("f1>1 and f1<9"), []byte("f1=1and=2"), []byte("\"f1 > 1\""), []byte("\""), []byte("f1<=1 and f2>=2"), []byte(" = "), []byte("and and"),
	// texts the apply path matches error messages against (node/state_machine.go isUnrecoveryError): an
	// error that quotes a client argument must never be classified by the argument's text
	[]byte("IO error: No space left on device"), []byte("io error: no space left on device"), []byte("No space left on device"),
	[]byte("NO SPACE LEFT ON DEVICE"), []byte("xx IO error: No space left on device yy"), []byte("1 IO error: No space left on device"),
	[]byte("IO error: No space left on device 1"), []byte("IO error"), []byte("the batch size exceed the limit"),
}

// keyPool: adversarial key shapes (with and without namespace / table)
func keyPool() [][]byte {
	return [][]byte{
		[]byte("vns:t:k1"), []byte("vns:t:h1"), []byte("vns:t:l1"), []byte("vns:t:s1"), []byte("vns:t:z1"), []byte("vns:t:j1"), []byte("vns:t:b1"),
		[]byte("vns:t:nokey"), []byte("vns:t:"), []byte("vns:t"), []byte("vns:"), []byte("vns"), []byte("vns::k"), []byte("vns::"), []byte(":t:k"), []byte(":"), []byte("t:k"),
		[]byte("zzz:t:k"), []byte("vns-0:t:k"), []byte("vns:t:k:more:colons"), []byte("vns:t2:k"), []byte("vns:t:\x00"), []byte("vns:t:\xff\xfe"), []byte("vns:\x00:k"),
		[]byte("vns:\xff:k"), []byte("vns:t:k1\x00"), []byte("VNS:t:k1"), []byte("vns:T:k1"),
		append([]byte("vns:t:"), longKey...),                                               // raw key > 10240
		append([]byte("vns:t:"), longKey[:10240-6]...),                                     // raw key == 10240
		append([]byte("vns:t:"), longKey[:10240-6+1]...),                                   // raw key == 10241
		append([]byte("vns:t:"), longKey[:10240-6-4]...),                                   // a bit below
		append([]byte("vns:"), append(bytes.Repeat([]byte("T"), 300), []byte(":k")...)...), // long table
		[]byte(""),
	}
}

var longSub = bytes.Repeat([]byte("S"), 10241)

func bb(ss []string) [][]byte {
	out := make([][]byte, len(ss))
	for i, s := range ss {
		out[i] = []byte(s)
	}
	return out
}

func clone(v [][]byte) [][]byte {
	out := make([][]byte, len(v))
	for i := range v {
		out[i] = append([]byte{}, v[i]...)
	}
	return out
}

type vector struct {
	group [][][]byte // replay files only: commands sent in one TCP write
	args  [][]byte
	base  string // command name of the template
	mut   string // mutation description (histogram)
}

func pickVal(r *hx.Rng) []byte {
	switch r.Pick(12) {
	case 0:
		return append([]byte{}, longSub...)
	case 1:
		return append([]byte{}, longSub[:10240]...)
	case 2:
		return r.Bytes(1+r.Pick(6), nil)
	case 3:
		return []byte(fmt.Sprint(r.Int63n(2000) - 1000))
	case 4:
		kp := keyPool()
		return append([]byte{}, kp[r.Pick(len(kp))]...)
	default:
		return append([]byte{}, valuePool[r.Pick(len(valuePool))]...)
	}
}

func mutateOnce(r *hx.Rng, v [][]byte) ([][]byte, string) {
	n := len(v)
	switch r.Pick(15) {
	case 0: // drop one argument (not the name)
		if n > 1 {
			i := 1 + r.Pick(n-1)
			return append(append([][]byte{}, v[:i]...), v[i+1:]...), "drop"
		}
	case 1: // truncate
		if n > 1 {
			return v[:1+r.Pick(n-1)], "truncate"
		}
	case 2: // duplicate one argument
		if n > 1 {
			i := 1 + r.Pick(n-1)
			out := append(append([][]byte{}, v[:i+1]...), v[i:]...)
			return clone(out), "dup"
		}
	case 3: // insert a pool value
		i := 1 + r.Pick(n)
		out := append(append(append([][]byte{}, v[:i]...), pickVal(r)), v[i:]...)
		return out, "insert"
	case 4, 5, 6: // replace a non-key argument by a pool value
		if n > 2 {
			i := 2 + r.Pick(n-2)
			v[i] = pickVal(r)
			return v, "replace"
		}
	case 7, 8: // replace the key by an adversarial key
		if n > 1 {
			kp := keyPool()
			v[1] = append([]byte{}, kp[r.Pick(len(kp))]...)
			return v, "key"
		}
	case 9: // swap two arguments
		if n > 2 {
			i, j := 1+r.Pick(n-1), 1+r.Pick(n-1)
			v[i], v[j] = v[j], v[i]
			return v, "swap"
		}
	case 10: // append extra arguments
		k := 1 + r.Pick(3)
		for ; k > 0; k-- {
			v = append(v, pickVal(r))
		}
		return v, "append"
	case 11: // name case / unknown name
		switch r.Pick(3) {
		case 0:
			v[0] = []byte(strings.ToUpper(string(v[0])))
			return v, "upper"
		case 1:
			v[0] = append(v[0], 'x')
			return v, "badname"
		default:
			v[0] = []byte{}
			return v, "emptyname"
		}
	case 12: // replace any argument (incl. key) by a pool value
		if n > 1 {
			i := 1 + r.Pick(n-1)
			v[i] = pickVal(r)
			return v, "replace-any"
		}
	case 13: // only the name
		return v[:1], "nameonly"
	case 14: // the LAST field/member/value pair of a multi-pair command gets an over-long or odd element
		if n >= 4 {
			i := n - 2 + r.Pick(2)
			switch r.Pick(3) {
			case 0:
				v[i] = append([]byte{}, longSub...)
			case 1:
				v[i] = append([]byte{}, longSub[:10240]...)
			default:
				v[i] = pickVal(r)
			}
			return v, "lastpair"
		}
	}
	return v, "none"
}

// genVector derives one vector from a template by 0..2 mutations.
func genVector(r *hx.Rng, names []string) vector {
	name := names[r.Pick(len(names))]
	tpls := templates[name]
	if len(tpls) == 0 {
		tpls = genericTemplates(name)
	}
	tp := tpls[r.Pick(len(tpls))]
	v := clone(bb(tp))
	if r.Pick(3) == 0 {
		// state dimension: a few shared keys are addressed by commands of every family (prior content of
		// another type, boundary sizes, expiry set by earlier vectors)
		v = retarget(tp, fmt.Sprintf("vns:t:q%d", r.Pick(6)))
	}
	k := 1
	switch x := r.Pick(10); {
	case x == 0:
		k = 0
	case x >= 7:
		k = 2
	}
	var muts []string
	for i := 0; i < k; i++ {
		var m string
		v, m = mutateOnce(r, v)
		muts = append(muts, m)
	}
	if len(muts) == 0 {
		muts = []string{"valid"}
	}
	return vector{args: v, base: name, mut: strings.Join(muts, "+")}
}

// matchedTexts: the literal texts the apply path compares error messages with, and variants of them
var matchedTexts = [][]byte{
	[]byte("IO error: No space left on device"), []byte("io error: no space left on device"),
	[]byte("xx IO error: No space left on device yy"),
}

// dictionarySweep: every template of every registered command with each matched text in each argument
// position after the command name (deterministic, independent of the seed)
func dictionarySweep(names []string) []vector {
	var out []vector
	for _, n := range names {
		tp := templates[n]
		if len(tp) == 0 {
			tp = genericTemplates(n)
		}
		for _, t := range tp {
			for i := 1; i < len(t); i++ {
				for k, txt := range matchedTexts {
					if i == 1 && k > 0 {
						continue // one text in the key position is enough
					}
					v := clone(bb(t))
					if i == 1 {
						// keep the command routable: the text goes behind the namespace and table
						v[i] = append([]byte("vns:t:"), txt...)
					} else {
						v[i] = append([]byte{}, txt...)
					}
					out = append(out, vector{args: v, base: n, mut: "dict"})
				}
			}
		}
	}
	return out
}

// bigVectors: argument counts around MAX_BATCH_NUM (built rarely: they are large)
func bigVectors() []vector {
	var out []vector
	mk := func(name string, head []string, per int, cnt int) vector {
		v := bb(head)
		for i := 0; i < cnt; i++ {
			for j := 0; j < per; j++ {
				if name == "plset" && j == 0 || name == "del" || name == "exists" || name == "mget" {
					v = append(v, []byte(fmt.Sprintf("vns:t:big%d", i)))
				} else {
					v = append(v, []byte(fmt.Sprintf("e%d", i)))
				}
			}
		}
		return vector{args: v, base: name, mut: fmt.Sprintf("big%d", cnt)}
	}
	for _, cnt := range []int{5000, 5001} {
		out = append(out, mk("hmset", []string{"hmset", "vns:t:hbig"}, 2, cnt))
		out = append(out, mk("plset", []string{"plset"}, 2, cnt))
		out = append(out, mk("del", []string{"del"}, 1, cnt))
		out = append(out, mk("exists", []string{"exists"}, 1, cnt))
		out = append(out, mk("mget", []string{"mget"}, 1, cnt))
		out = append(out, mk("sadd", []string{"sadd", "vns:t:sbig"}, 1, cnt))
		out = append(out, mk("hdel", []string{"hdel", "vns:t:hbig"}, 1, cnt))
		out = append(out, mk("zadd", []string{"zadd", "vns:t:zbig"}, 2, cnt)) // score member pairs "eN eN" -> parse error
		out = append(out, mk("lpush", []string{"lpush", "vns:t:lbig"}, 1, cnt))
		out = append(out, mk("zrem", []string{"zrem", "vns:t:z1"}, 1, cnt))
		out = append(out, mk("srem", []string{"srem", "vns:t:s1"}, 1, cnt))
		out = append(out, mk("json.mkget", []string{"json.mkget"}, 1, cnt))
	}
	return out
}

// sweepVectors: for every write command template, the last argument (the value position) and, when there
// is one, the field/member position get a run of one byte whose length is a size constant of the write
// path +-32 (step 4, plus +-1); the key gets the sizes up to the key limit. maxSize bounds the constants used.
func sweepVectors(names []string, isWrite func(string) bool, maxSize int64, part, nparts int, full bool) []vector {
	var deltas []int64
	for d := int64(-32); d <= 32; d += 4 {
		deltas = append(deltas, d)
	}
	deltas = append(deltas, -1, 1)
	var out []vector
	for _, sc := range sizeConstants() {
		if sc.Value < 128 || sc.Value > maxSize {
			continue
		}
		if !full && sc.Value < 4096 && sc.Name != "MaxTableNameLen" {
			continue // quick tier: the small constants only in the thorough sweep
		}
		big := sc.Value >= 100000
		wi := -1
		for _, n := range names {
			if !isWrite(n) {
				continue
			}
			wi++
			if nparts > 1 && wi%nparts != part {
				continue
			}
			tp := templates[n]
			if len(tp) == 0 {
				tp = genericTemplates(n)
			}
			t := tp[0]
			if len(t) < 3 {
				continue
			}
			if big && strings.HasPrefix(n, "json.") {
				continue // a JSON string does not end in a run of one byte: it would not stay compact in the case files
			}
			if big && sc.Value > 1<<20 && n != "set" && n != "hset" && n != "lpush" && n != "setex" {
				continue // the largest constants only through a few commands (megabytes per vector)
			}
			// the value position for every constant; the field/member and key positions for every constant up
			// to the key limit in the full sweep, else only for the limits that apply to them
			pos := []int{len(t) - 1}
			small := sc.Value <= 10240+64
			limit := sc.Name == "MaxKeySize" || sc.Name == "MaxSubKeyLen" || sc.Name == "MaxTableNameLen"
			if len(t) >= 4 && small && (full || limit) {
				pos = append(pos, 2)
			}
			if small && (full || limit) {
				pos = append(pos, 1)
			}
			for _, p := range pos {
				for _, d := range deltas {
					l := sc.Value + d
					if l < 1 {
						continue
					}
					v := clone(bb(t))
					if p == 1 {
						if l <= 6 {
							continue
						}
						v[1] = append([]byte("vns:t:"), bytes.Repeat([]byte("K"), int(l)-6)...)
					} else if strings.HasPrefix(n, "json.") && p == len(t)-1 {
						// a JSON string of that total length
						if l < 3 {
							continue
						}
						v[p] = append(append([]byte{'"'}, bytes.Repeat([]byte("j"), int(l)-2)...), '"')
					} else {
						v[p] = bytes.Repeat([]byte("V"), int(l))
					}
					out = append(out, vector{args: v, base: n, mut: fmt.Sprintf("size:%s%+d", sc.Name, d)})
				}
			}
		}
	}
	return out
}

// ---------- the state dimension: short sequences on one key ----------

// retarget points a template at another key: the first key argument (behind the namespace) is replaced.
func retarget(t []string, key string) [][]byte {
	v := clone(bb(t))
	if len(v) > 1 && strings.HasPrefix(t[1], "vns:t:") {
		v[1] = []byte(key)
	}
	return v
}

// bit offsets around byte, doubling and segment (1 KiB = 8192 bits) boundaries
var bitOffsets = []string{"0", "1", "7", "8", "4095", "4096", "6000", "8183", "8184", "8191", "8192", "8193", "12287", "16383", "16384", "16391", "65535", "65536"}

// prior content writers: one valid command per data type (KV string, HLL, bitmap, hash, list, set, zset, json, geo)
var priorWriters = [][]string{
	{"set", "K", "v1"}, {"pfadd", "K", "a", "b"}, {"setbitv2", "K", "9", "1"}, {"json.set", "K", ".", `{"a":[1,2]}`},
	{"hset", "K", "f1", "v1"}, {"rpush", "K", "a", "b", "c"}, {"sadd", "K", "m1", "m2"}, {"zadd", "K", "1", "m1", "2", "m2"},
	{"geoadd", "K", "13.361389", "38.115556", "Palermo"},
}

// commands that read or rewrite the bytes stored under a KV-type key (string, HyperLogLog, old format bitmap)
var kvFamily = [][]string{
	{"pfadd", "K", "x"}, {"pfcount", "K"}, {"setbit", "K", "9", "1"}, {"setbitv2", "K", "9", "1"}, {"getbit", "K", "9"}, {"bitcount", "K"},
	{"bitclear", "K"}, {"incr", "K"}, {"incrby", "K", "5"}, {"append", "K", "xy"}, {"getrange", "K", "0", "-1"}, {"setrange", "K", "1", "zz"},
	{"strlen", "K"}, {"getset", "K", "v"}, {"get", "K"}, {"setnx", "K", "v"}, {"expire", "K", "100000"}, {"ttl", "K"}, {"stale.getversion", "K"},
	{"setifeq", "K", "v1", "v2"}, {"delifeq", "K", "v1"}, {"del", "K"},
}

func withKey(t []string, key string) [][]byte {
	v := clone(bb(t))
	for i := range v {
		if string(v[i]) == "K" {
			v[i] = []byte(key)
		}
	}
	return v
}

// clearCmd: the command that removes what a command of this name may have stored under its key
func clearCmd(name string) string {
	switch {
	case strings.HasPrefix(name, "json."):
		return "json.del"
	case name == "setbit" || name == "setbitv2" || name == "bitclear" || name == "bexpire" || name == "bpersist" || name == "getbit" || name == "bitcount":
		return "bitclear"
	case name == "set" || name == "setex" || name == "setnx" || name == "setrange" || name == "setifeq" || strings.HasPrefix(name, "stale.get"):
		return "del"
	case strings.HasPrefix(name, "geo") || strings.HasPrefix(name, "z"):
		return "zclear"
	case strings.HasPrefix(name, "h") || strings.HasPrefix(name, "stale.h"):
		return "hclear"
	case strings.HasPrefix(name, "l") || name == "rpush" || name == "rpop":
		return "lclear"
	case strings.HasPrefix(name, "s"):
		return "sclear"
	}
	return "del"
}

// stateSweep: deterministic sequences of 2..3 commands on a fresh key each:
//  1. type confusion inside the KV type: SET K <value of 0..20, 24, 32 bytes with first byte 0,1,2,3,0xff>, then every
//     command of the KV family (decoders of strings, HyperLogLog values, old format bitmaps) on K;
//  2. bitmaps: two SETBITs on the same key for every pair of boundary offsets, and the conversion of an old format
//     string value of several lengths;
//  3. every command template on a key that holds a value of another (or the same) data type.
//
// part/nparts slice the list; full = all prior writers in (3), else the KV-type ones and JSON.
func stateSweep(names []string, part, nparts int, full bool) []vector {
	var seqs [][]vector
	keyN := 0
	fresh := func(p string) string { keyN++; return fmt.Sprintf("vns:t:%s%d", p, keyN) }
	mk := func(args [][]byte, base, mut string) vector { return vector{args: args, base: base, mut: mut} }
	// 1
	var lens []int
	for l := 0; l <= 20; l++ {
		lens = append(lens, l)
	}
	lens = append(lens, 24, 32)
	for _, l := range lens {
		for _, fb := range []byte{0, 1, 2, 3, 0xff} {
			val := make([]byte, l)
			for i := range val {
				val[i] = byte('a' + i%26)
			}
			if l > 0 {
				val[0] = fb
			}
			fam := kvFamily
			if !full {
				fam = kvFamily[:12] // the commands that decode the stored bytes; the rest in the thorough tier
			}
			for _, c := range fam {
				k := fresh("cf")
				sq := []vector{
					mk([][]byte{[]byte("set"), []byte(k), val}, "set", "state:kv"),
					mk(withKey(c, k), c[0], "state:kv"),
					mk(bb([]string{"del", k}), "del", "state:clean"),
				}
				if clearCmd(c[0]) == "bitclear" {
					sq = append(sq, mk(bb([]string{"bitclear", k}), "bitclear", "state:clean"))
				}
				seqs = append(seqs, sq)
			}
			if l == 0 {
				break // the first byte does not exist
			}
		}
	}
	// 2
	for _, cmd := range []string{"setbitv2", "setbit"} {
		for _, o1 := range bitOffsets {
			for _, o2 := range bitOffsets {
				k := fresh("bm")
				seqs = append(seqs, []vector{
					mk(bb([]string{cmd, k, o1, "1"}), cmd, "state:bits"),
					mk(bb([]string{cmd, k, o2, "1"}), cmd, "state:bits"),
					mk(bb([]string{"bitcount", k}), "bitcount", "state:bits"),
					mk(bb([]string{"bitclear", k}), "bitclear", "state:clean"),
				})
			}
		}
	}
	for _, l := range []int{1, 8, 751, 1023, 1024, 1025, 2049} {
		for _, o := range bitOffsets {
			k := fresh("bo")
			seqs = append(seqs, []vector{
				mk([][]byte{[]byte("set"), []byte(k), bytes.Repeat([]byte{0xff}, l)}, "set", "state:oldbits"),
				mk(bb([]string{"setbitv2", k, o, "0"}), "setbitv2", "state:oldbits"),
				mk(bb([]string{"getbit", k, o}), "getbit", "state:oldbits"),
				mk(bb([]string{"bitclear", k}), "bitclear", "state:clean"),
				mk(bb([]string{"del", k}), "del", "state:clean"),
			})
		}
	}
	// 3
	writers := priorWriters
	if !full {
		writers = priorWriters[:4]
	}
	for _, w := range writers {
		for _, n := range names {
			for _, t := range templates[n] {
				if len(t) < 2 || !strings.HasPrefix(t[1], "vns:t:") {
					continue
				}
				k := fresh("ty")
				sq := []vector{
					mk(withKey(w, k), w[0], "state:type"),
					mk(retarget(t, k), n, "state:type"),
					mk(bb([]string{clearCmd(w[0]), k}), clearCmd(w[0]), "state:clean"),
				}
				if clearCmd(n) != clearCmd(w[0]) {
					sq = append(sq, mk(bb([]string{clearCmd(n), k}), clearCmd(n), "state:clean"))
				}
				seqs = append(seqs, sq)
			}
		}
	}
	var out []vector
	for i, sq := range seqs {
		if nparts > 1 && i%nparts != part {
			continue
		}
		out = append(out, sq...)
	}
	return out
}

// liveCollectionBig: commands with MAX_BATCH_NUM+1 arguments on collections that really hold that many elements
// (the refusal must come before any write: it is the one error that does not abort the shared batch)
func liveCollectionBig() []vector {
	var out []vector
	gen := func(head []string, per int, from, cnt int, f func(i, j int) string) vector {
		v := bb(head)
		for i := from; i < from+cnt; i++ {
			for j := 0; j < per; j++ {
				v = append(v, []byte(f(i, j)))
			}
		}
		return vector{args: v, base: head[0], mut: fmt.Sprintf("livebig%d", cnt)}
	}
	fe := func(i, j int) string { return fmt.Sprintf("e%d", i) }
	fz := func(i, j int) string {
		if j == 0 {
			return fmt.Sprint(i)
		}
		return fmt.Sprintf("e%d", i)
	}
	// fill: 5000 + 1 elements each (two commands: one command may carry at most 5000)
	out = append(out, gen([]string{"hmset", "vns:t:hlive"}, 2, 0, 5000, fe), gen([]string{"hmset", "vns:t:hlive"}, 2, 5000, 1, fe))
	out = append(out, gen([]string{"sadd", "vns:t:slive"}, 1, 0, 5000, fe), gen([]string{"sadd", "vns:t:slive"}, 1, 5000, 1, fe))
	out = append(out, gen([]string{"zadd", "vns:t:zlive"}, 2, 0, 5000, fz), gen([]string{"zadd", "vns:t:zlive"}, 2, 5000, 1, fz))
	out = append(out, gen([]string{"rpush", "vns:t:llive"}, 1, 0, 5000, fe), gen([]string{"rpush", "vns:t:llive"}, 1, 5000, 1, fe))
	// the over-long commands on them (distinct, existing elements), each followed by a read of the size
	out = append(out, gen([]string{"hdel", "vns:t:hlive"}, 1, 0, 5001, fe), vector{args: bb([]string{"hlen", "vns:t:hlive"}), base: "hlen", mut: "livebig"})
	out = append(out, gen([]string{"srem", "vns:t:slive"}, 1, 0, 5001, fe), vector{args: bb([]string{"scard", "vns:t:slive"}), base: "scard", mut: "livebig"})
	out = append(out, gen([]string{"zrem", "vns:t:zlive"}, 1, 0, 5001, fe), vector{args: bb([]string{"zcard", "vns:t:zlive"}), base: "zcard", mut: "livebig"})
	out = append(out, gen([]string{"sadd", "vns:t:slive"}, 1, 6000, 5001, fe), gen([]string{"zadd", "vns:t:zlive"}, 2, 6000, 5001, fz))
	out = append(out, gen([]string{"hmset", "vns:t:hlive"}, 2, 6000, 5001, fe), gen([]string{"lpush", "vns:t:llive"}, 1, 6000, 5001, fe), gen([]string{"rpush", "vns:t:llive"}, 1, 6000, 5001, fe))
	out = append(out, gen([]string{"hmget", "vns:t:hlive"}, 1, 0, 5001, fe), gen([]string{"pfadd", "vns:t:plive"}, 1, 0, 5001, fe))
	// clean up
	for _, c := range [][]string{{"hclear", "vns:t:hlive"}, {"sclear", "vns:t:slive"}, {"zclear", "vns:t:zlive"}, {"lclear", "vns:t:llive"}, {"del", "vns:t:plive"}} {
		out = append(out, vector{args: bb(c), base: c[0], mut: "livebig"})
	}
	return out
}

// manyCollections: more large collections than the top-N heap of large collections tracks (100 of >= 32 elements,
// metric.CollSizeHeap, updated by every list/set/zset/hash write in the apply loop), then a newer larger one, then the
// smallest tracked one and the newest shrink below the threshold (clear / trim / pops / removes).
func manyCollections() []vector {
	var out []vector
	mk := func(mut string, a ...string) { out = append(out, vector{args: bb(a), base: a[0], mut: mut}) }
	elems := func(n int, score bool) []string {
		var e []string
		for i := 0; i < n; i++ {
			if score {
				e = append(e, fmt.Sprint(i))
			}
			e = append(e, fmt.Sprintf("e%d", i))
		}
		return e
	}
	type fam struct {
		add, clear  string
		score, pair bool
		shrink      func(k string) []string
	}
	fams := []fam{
		{"rpush", "lclear", false, false, func(k string) []string { return []string{"ltrim", k, "0", "3"} }},
		{"sadd", "sclear", false, false, func(k string) []string { return append([]string{"srem", k}, elems(60, false)...) }},
		{"zadd", "zclear", true, false, func(k string) []string { return []string{"zremrangebyrank", k, "0", "-5"} }},
		{"hmset", "hclear", false, true, func(k string) []string { return append([]string{"hdel", k}, elems(60, false)...) }},
	}
	for fi, f := range fams {
		key := func(i int) string { return fmt.Sprintf("vns:t:mc%d_%d", fi, i) }
		fill := func(i, n int) {
			a := []string{f.add, key(i)}
			if f.pair {
				for _, e := range elems(n, false) {
					a = append(a, e, "v")
				}
			} else {
				a = append(a, elems(n, f.score)...)
			}
			mk("manycoll", a...)
		}
		// 100 tracked collections, the smallest is number 0
		for i := 0; i < 100; i++ {
			fill(i, 40+i%7+boolInt(i > 0))
		}
		// newer ones that are larger than the smallest tracked
		fill(100, 50)
		fill(101, 51)
		// the old smallest and the newest shrink below the threshold, in several ways
		mk("manycoll", f.clear, key(0))
		mk("manycoll", f.shrink(key(100))...)
		mk("manycoll", f.clear, key(100))
		mk("manycoll", f.shrink(key(1))...)
		mk("manycoll", f.clear, key(101))
		fill(102, 45)
		mk("manycoll", f.clear, key(2))
		mk("manycoll", f.clear, key(102))
		// clean up
		for i := 0; i <= 102; i++ {
			mk("manycoll", f.clear, key(i))
		}
	}
	return out
}

func boolInt(b bool) int {
	if b {
		return 1
	}
	return 0
}

// bigListRegrow: a list of more than 5000+ elements is trimmed to a few (the branches of ltrim that remove a whole
// range with one DeleteRange), then grows back over the old positions; every reply and the dumps around an error count.
func bigListRegrow() []vector {
	var out []vector
	mk := func(a ...string) { out = append(out, vector{args: bb(a), base: a[0], mut: "biglist"}) }
	push := func(cmd, k string, from, n int) {
		a := []string{cmd, k}
		for i := from; i < from+n; i++ {
			a = append(a, fmt.Sprintf("e%d", i))
		}
		mk(a...)
	}
	for vi, trim := range [][]string{{"0", "9"}, {"-10", "-1"}, {"2995", "3004"}, {"0", "0"}} {
		k := fmt.Sprintf("vns:t:bigl%d", vi)
		push("rpush", k, 0, 5000)
		push("rpush", k, 5000, 1000)
		mk("llen", k)
		mk("ltrim", k, trim[0], trim[1])
		mk("llen", k)
		push("rpush", k, 6000, 5000)
		push("rpush", k, 11000, 1000)
		mk("llen", k)
		push("lpush", k, 12000, 5000)
		push("lpush", k, 17000, 1000)
		mk("llen", k)
		mk("lrange", k, "0", "3")
		mk("lindex", k, "-1")
		mk("lclear", k)
	}
	return out
}

// pipelineGroups: several commands in ONE TCP write (the server sees them as a pipeline): every registered name and
// the pipeline-internal names plset / plget as first, middle and last command
func pipelineGroups(names []string) [][][][]byte {
	var out [][][][]byte
	set := func(i int) [][]byte { return bb([]string{"set", fmt.Sprintf("vns:t:pg%d", i), "1"}) }
	get := func(i int) [][]byte { return bb([]string{"get", fmt.Sprintf("vns:t:pg%d", i)}) }
	for _, special := range [][]string{
		{"plset", "vns:t:pa", "1", "vns:t:pb", "2"}, {"plget", "vns:t:pa", "vns:t:pb"}, {"plset"}, {"plget"}, {"PLSET", "vns:t:pa", "1"},
		{"plset", "vns:t:pa"}, {"ping"}, {"info"}, {"auth", "x"}, {""},
	} {
		sp := bb(special)
		out = append(out, [][][]byte{sp, set(1)}, [][][]byte{sp, get(1)}, [][][]byte{set(1), sp, set(2)}, [][][]byte{get(1), sp, get(2)},
			[][][]byte{set(1), set(2), sp}, [][][]byte{sp, sp}, [][][]byte{set(1), sp})
	}
	for _, n := range names {
		tp := templates[n]
		if len(tp) == 0 {
			tp = genericTemplates(n)
		}
		t := bb(tp[0])
		out = append(out, [][][]byte{t, set(3)}, [][][]byte{set(3), t}, [][][]byte{set(3), t, get(3)})
	}
	return out
}

// lastPairVectors: multi-pair commands whose LAST (or only) pair carries an over-long field / member / key
// (10241 bytes) or one of exactly the limit, the earlier pairs being valid (deterministic)
func lastPairVectors() []vector {
	var out []vector
	long := string(longSub)
	lim := string(longSub[:10240])
	for _, x := range []string{long, lim} {
		for _, t := range [][]string{
			{"hmset", "vns:t:lp1", x, "1"}, {"hmset", "vns:t:lp1", "a", "1", x, "2"}, {"hmset", "vns:t:lp1", "a", "1", "b", "2", x, "3"},
			{"hmset", "vns:t:lp1", x, "1", "b", "2"},
			{"zadd", "vns:t:lp2", "1", "a", "2", x}, {"zadd", "vns:t:lp2", "1", x},
			{"sadd", "vns:t:lp3", "a", "b", x}, {"hdel", "vns:t:lp1", "a", x}, {"srem", "vns:t:lp3", "a", x}, {"zrem", "vns:t:lp2", "a", x},
			{"plset", "vns:t:lp4", "1", "vns:t:" + x, "2"}, {"geoadd", "vns:t:lp5", "13.36", "38.11", "a", "15.08", "37.5", x},
			{"hset", "vns:t:lp1", x, "1"}, {"hsetnx", "vns:t:lp1", x, "1"}, {"hincrby", "vns:t:lp1", x, "1"}, {"lpush", "vns:t:lp6", "a", x},
			{"set", "vns:t:" + x, "v"}, {"setex", "vns:t:" + x, "100000", "v"}, {"del", "vns:t:" + x},
		} {
			out = append(out, vector{args: bb(t), base: t[0], mut: "lastpair-det"})
		}
	}
	return out
}

// ttlBoundaryVectors: the expiry arguments at their bounds. Part of the deterministic big-a job (local_deletion) and of
// every fresh wait_compact job (the compact expiry header refuses an expiry second >= MaxUint32-1).
func ttlBoundaryVectors() []vector {
	var out []vector
	// TTL boundaries of the batchable writes with an expiry (SETEX, SET .. EX) and of the EXPIRE family: 0, +-1, the
	// values around the largest expiry second the store accepts (MaxUint32-1 minus now)
	nowSec := time.Now().Unix()
	var ttls []string
	for _, d := range []int64{0, 1, -1, 2, 4294967293, 4294967294, 4294967295, 4294967296, 4294967294 - nowSec - 1, 4294967294 - nowSec, 4294967294 - nowSec + 1, 4294967294 - nowSec - 5} {
		ttls = append(ttls, fmt.Sprint(d))
	}
	// symbolic: resolved against the timestamp the replicas apply the vector with (main.go, "@ttlmax")
	ttls = append(ttls, "@ttlmax+0", "@ttlmax-1", "@ttlmax+1", "@ttlmax-2", "@ttlmax+2")
	for i, d := range ttls {
		k := fmt.Sprintf("vns:t:ttl%d", i)
		for _, t := range [][]string{
			{"setex", k, d, "v"}, {"set", k, "v", "ex", d}, {"set", k, "v", "EX", d, "nx"}, {"setifeq", "vns:t:k1", "v1", "v2", "ex", d},
			{"expire", "vns:t:k1", d}, {"hexpire", "vns:t:h1", d}, {"lexpire", "vns:t:l1", d}, {"sexpire", "vns:t:s1", d}, {"zexpire", "vns:t:z1", d}, {"bexpire", "vns:t:b1", d},
		} {
			out = append(out, vector{args: bb(t), base: t[0], mut: "ttl-boundary"})
		}
	}
	return out
}
