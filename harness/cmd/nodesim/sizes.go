package main

// Size constants of the write path, read from the source (go/ast): every integer constant expression
// in a const/var declaration or as the size of a make() in rockredis/*.go and common/{limit,type}.go
// whose value lies between 64 and 16 MiB. The length sweep (values / members / keys of exactly these
// sizes +-32 bytes) is generated from this list, so a new buffer or limit is picked up by itself.

import (
	"go/ast"
	"go/parser"
	"go/token"
	"path/filepath"
	"sort"
	"strconv"
	"strings"
)

func evalInt(e ast.Expr) (int64, bool) {
	switch x := e.(type) {
	case *ast.BasicLit:
		if x.Kind == token.INT {
			v, err := strconv.ParseInt(x.Value, 0, 64)
			return v, err == nil
		}
	case *ast.ParenExpr:
		return evalInt(x.X)
	case *ast.BinaryExpr:
		a, ok1 := evalInt(x.X)
		b, ok2 := evalInt(x.Y)
		if !ok1 || !ok2 {
			return 0, false
		}
		switch x.Op {
		case token.MUL:
			return a * b, true
		case token.ADD:
			return a + b, true
		case token.SUB:
			return a - b, true
		case token.SHL:
			if b >= 0 && b < 40 {
				return a << uint(b), true
			}
		case token.QUO:
			if b != 0 {
				return a / b, true
			}
		}
	}
	return 0, false
}

type sizeConst struct {
	Name  string
	Value int64
}

func sizeConstants() []sizeConst {
	fset := token.NewFileSet()
	files, _ := filepath.Glob(filepath.Join(repoDir(), "rockredis", "*.go"))
	files = append(files, filepath.Join(repoDir(), "common", "limit.go"), filepath.Join(repoDir(), "common", "type.go"))
	sort.Strings(files)
	seen := map[int64]string{}
	usedInMake := map[string]bool{}
	add := func(name string, v int64) {
		if v < 64 || v > 16<<20 {
			return
		}
		if _, ok := seen[v]; !ok {
			seen[v] = name
		}
	}
	for _, fn := range files {
		if strings.HasSuffix(fn, "_test.go") || strings.Contains(filepath.Base(fn), "verif") {
			continue
		}
		f, err := parser.ParseFile(fset, fn, nil, 0)
		if err != nil {
			continue
		}
		ast.Inspect(f, func(n ast.Node) bool {
			switch x := n.(type) {
			case *ast.ValueSpec:
				for i, v := range x.Values {
					if val, ok := evalInt(v); ok && i < len(x.Names) {
						add(x.Names[i].Name, val)
					}
				}
			case *ast.CallExpr:
				if id, ok := x.Fun.(*ast.Ident); ok && id.Name == "make" {
					for _, a := range x.Args[1:] {
						if val, ok := evalInt(a); ok {
							add("make", val)
						}
						ast.Inspect(a, func(y ast.Node) bool {
							if yi, ok := y.(*ast.Ident); ok {
								usedInMake[yi.Name] = true
							}
							return true
						})
					}
				}
			}
			return true
		})
	}
	var out []sizeConst
	for v, n := range seen {
		// byte sizes: constants used as the size of a make(), or named like a size / length / limit
		ln := strings.ToLower(n)
		if n == "make" || usedInMake[n] || strings.Contains(ln, "size") || strings.Contains(ln, "len") || strings.Contains(ln, "buf") ||
			strings.Contains(ln, "max") || strings.Contains(ln, "limit") || strings.Contains(ln, "cap") || strings.Contains(ln, "bytes") {
			out = append(out, sizeConst{n, v})
		}
	}
	sort.Slice(out, func(i, j int) bool { return out[i].Value < out[j].Value })
	return out
}
