package main

import (
	"fmt"
	"os"
	"time"

	"github.com/youzan/ZanRedisDB/common"
	"github.com/youzan/ZanRedisDB/engine"
	"github.com/youzan/ZanRedisDB/node"
	"github.com/youzan/ZanRedisDB/pkg/wait"
	"github.com/youzan/ZanRedisDB/rockredis"
)

// simSM is a real kv state machine (node.NewStateMachine) on its own engine, driven directly
// through ApplyRaftRequest as a follower's apply loop would (node.applyEntries).
type simSM struct {
	sm    node.StateMachine
	w     wait.Wait
	st    *node.KVStore
	dir   string
	batch node.IBatchOperator
	reqID uint64
	index uint64
	name  string
}

func newSimSM(name, eng, policy string) (*simSM, error) {
	dir, err := os.MkdirTemp("", "verif-valid-"+name+"-")
	if err != nil {
		return nil, err
	}
	opts := &node.KVOptions{DataDir: dir, EngType: rockredis.EngType}
	opts.RockOpts.EngineType = eng
	if pol, err := common.StringToExpirationPolicy(policy); err == nil {
		opts.ExpirationPolicy = pol
		if pol == common.WaitCompact {
			opts.DataVersion = common.ValueHeaderV1 // wait_compact needs the value header
		}
	}
	engine.FillDefaultOptions(&opts.RockOpts)
	w := wait.New()
	mc := node.MachineConfig{}
	sm, err := node.NewStateMachine(opts, mc, 1, NS+"-0", nil, w, nil)
	if err != nil {
		return nil, err
	}
	s := &simSM{sm: sm, w: w, dir: dir, name: name, reqID: 1000, index: 10}
	s.st = node.VerifStore(sm)
	s.st.VerifStopBackgroundExpire() // sweeps are run explicitly (deterministic dumps)
	s.batch = sm.GetBatchOperator()
	return s, nil
}

func (s *simSM) close() {
	s.sm.Close()
	os.RemoveAll(s.dir)
}

// applyTimeout: a request that is not applied within this time counts as non-terminating (the
// harness stops, the check reports the vector)
const applyTimeout = 15 * time.Second

type applyReq struct {
	dtype int8 // node.RedisReq | node.RedisV2Req
	args  [][]byte
}

type applyRes struct {
	panicked bool
	pmsg     string
	hung     bool
	// per request: "ok" | "err" | "none" (no response triggered)
	rsp  []string
	etxt []string
}

// applyEntries applies a list of raft entries (each a list of requests) the way
// node.applyEntries does: one batch operator over all entries, CommitBatch at the end.
// The call runs in its own goroutine with recover(): a Go panic is the observable "panic".
func (s *simSM) applyEntries(entries [][]applyReq, ts int64) applyRes {
	var res applyRes
	type regd struct {
		id uint64
		wr wait.WaitResult
	}
	var regs []regd
	var lists []node.BatchInternalRaftRequest
	for _, ent := range entries {
		var rl node.BatchInternalRaftRequest
		rl.Timestamp = ts
		rl.Type = node.FromAPI
		for _, rq := range ent {
			s.reqID++
			var r node.InternalRaftRequest
			r.Header.ID = s.reqID
			r.Header.DataType = int32(rq.dtype)
			r.Header.Timestamp = ts
			r.Data = encodeCmd(rq.args)
			rl.Reqs = append(rl.Reqs, r)
			regs = append(regs, regd{s.reqID, s.w.Register(s.reqID)})
		}
		rl.ReqNum = int32(len(rl.Reqs))
		lists = append(lists, rl)
	}
	done := make(chan struct{})
	go func() {
		defer close(done)
		defer func() {
			if e := recover(); e != nil {
				res.panicked = true
				res.pmsg = fmt.Sprint(e)
			}
		}()
		for _, rl := range lists {
			s.index++
			s.sm.ApplyRaftRequest(false, s.batch, rl, 2, s.index, nil)
		}
		s.batch.CommitBatch()
	}()
	select {
	case <-done:
	case <-time.After(applyTimeout):
		res.hung = true
		return res
	}
	for _, rg := range regs {
		select {
		case <-rg.wr.WaitC():
			v := rg.wr.GetResult()
			if e, ok := v.(error); ok {
				res.rsp = append(res.rsp, "err")
				res.etxt = append(res.etxt, e.Error())
			} else {
				res.rsp = append(res.rsp, "ok")
				res.etxt = append(res.etxt, "")
			}
		default:
			res.rsp = append(res.rsp, "none")
			res.etxt = append(res.etxt, "")
			s.w.Trigger(rg.id, nil) // release the registration
		}
	}
	return res
}

// toApplyForm builds what the leader proposes for an accepted client command:
// RedisReq (default, node.UseRedisV2=false): namespace cut from the first key (all keys for
// DEL / PLSET, node/util.go wrapWriteMergeCommandKK/KVKV), command rebuilt;
// RedisV2Req: the raw command, namespace cut at apply time.
func toApplyForm(args [][]byte, v2 bool) (applyReq, bool) {
	if v2 {
		return applyReq{dtype: node.RedisV2Req, args: args}, true
	}
	out := clone(args)
	if len(out) < 2 {
		return applyReq{dtype: node.RedisReq, args: out}, true
	}
	name := lower(out[0])
	cut := func(i int) bool {
		k, err := common.CutNamesapce(out[i])
		if err != nil {
			return false
		}
		out[i] = k
		return true
	}
	switch name {
	case "del":
		for i := 1; i < len(out); i++ {
			if !cut(i) {
				return applyReq{}, false
			}
		}
	case "plset":
		// server/merge.go getHandlersForKeys keeps complete key/value pairs only
		if len(out)%2 == 0 {
			out = out[:len(out)-1]
		}
		for i := 1; i < len(out); i += 2 {
			if !cut(i) {
				return applyReq{}, false
			}
		}
	default:
		if !cut(1) {
			return applyReq{}, false
		}
	}
	return applyReq{dtype: node.RedisReq, args: out}, true
}

func lower(b []byte) string {
	out := make([]byte, len(b))
	for i, c := range b {
		if c >= 'A' && c <= 'Z' {
			c += 32
		}
		out[i] = c
	}
	return string(out)
}
