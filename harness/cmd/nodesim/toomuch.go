package main

// Static check for the one error that does not abort the shared write batch
// (rockredis.IsNeedAbortError): every place of package rockredis where errTooMuchBatchSize is
// returned, or received from a callee that may return it, is listed with the verdict "no write
// into a batch lexically precedes it in that function" (writes inside a returning branch or inside
// the return statement itself do not count). The list goes into Consts.v; the theorem over it is
// re-checked whenever the source changes.

import (
	"fmt"
	"go/ast"
	"go/parser"
	"go/token"
	"path/filepath"
	"sort"
	"strings"
)

type site struct {
	fn    string
	line  int
	via   string // "" = returns errTooMuchBatchSize itself, else callee name
	clean bool
	why   string
}

func tooMuchSites() []site {
	fset := token.NewFileSet()
	files, _ := filepath.Glob(filepath.Join(repoDir(), "rockredis", "*.go"))
	sort.Strings(files)
	type fdecl struct {
		fd   *ast.FuncDecl
		file string
	}
	var fds []fdecl
	for _, fn := range files {
		if strings.HasSuffix(fn, "_test.go") || strings.HasSuffix(fn, "_verif.go") || strings.HasSuffix(fn, "verif_export.go") {
			continue
		}
		f, err := parser.ParseFile(fset, fn, nil, 0)
		if err != nil {
			continue
		}
		for _, d := range f.Decls {
			if fd, ok := d.(*ast.FuncDecl); ok && fd.Body != nil {
				fds = append(fds, fdecl{fd, filepath.Base(fn)})
			}
		}
	}
	may := map[string]bool{} // functions that may return errTooMuchBatchSize
	var sites []site
	seen := map[string]bool{}
	for round := 0; round < 6; round++ {
		for _, x := range fds {
			fd := x.fd
			var retRanges [][2]token.Pos
			var retBlocks [][2]token.Pos // blocks whose last statement is a return
			var ifElse [][4]token.Pos    // then-branch and else-branch of the same if
			ast.Inspect(fd.Body, func(n ast.Node) bool {
				if r, ok := n.(*ast.ReturnStmt); ok {
					retRanges = append(retRanges, [2]token.Pos{r.Pos(), r.End()})
				}
				if is, ok := n.(*ast.IfStmt); ok && is.Else != nil {
					ifElse = append(ifElse, [4]token.Pos{is.Body.Pos(), is.Body.End(), is.Else.Pos(), is.Else.End()})
				}
				if b, ok := n.(*ast.BlockStmt); ok && b != fd.Body && len(b.List) > 0 {
					if _, ok := b.List[len(b.List)-1].(*ast.ReturnStmt); ok {
						retBlocks = append(retBlocks, [2]token.Pos{b.Pos(), b.End()})
					}
				}
				return true
			})
			var loops [][2]token.Pos // for / range statements
			ast.Inspect(fd.Body, func(n ast.Node) bool {
				switch l := n.(type) {
				case *ast.ForStmt:
					loops = append(loops, [2]token.Pos{l.Pos(), l.End()})
				case *ast.RangeStmt:
					loops = append(loops, [2]token.Pos{l.Pos(), l.End()})
				}
				return true
			})
			// a write anywhere in a loop that contains e precedes e (an earlier iteration has run it)
			inLoopWith := func(w, e token.Pos) bool {
				for _, l := range loops {
					if e >= l[0] && e < l[1] && w >= l[0] && w < l[1] {
						return true
					}
				}
				return false
			}
			leftBefore := func(w, e token.Pos) bool { // w is in a returning block that ends before e
				for _, b := range retBlocks {
					if w >= b[0] && w < b[1] && e >= b[1] {
						return true
					}
				}
				for _, b := range ifElse { // w in the then-branch, e in the else-branch
					if w >= b[0] && w < b[1] && e >= b[2] && e < b[3] {
						return true
					}
				}
				return false
			}
			inRet := func(p token.Pos) bool {
				for _, r := range retRanges {
					if p >= r[0] && p < r[1] {
						return true
					}
				}
				return false
			}
			type ev struct {
				pos  token.Pos
				kind string // "ret" | "call:<name>" | "write:<desc>"
			}
			var evs []ev
			ast.Inspect(fd.Body, func(n ast.Node) bool {
				switch c := n.(type) {
				case *ast.ReturnStmt:
					for _, r := range c.Results {
						if id, ok := r.(*ast.Ident); ok && id.Name == "errTooMuchBatchSize" {
							evs = append(evs, ev{c.Pos(), "ret"})
						}
					}
				case *ast.CallExpr:
					name := ""
					if sel, ok := c.Fun.(*ast.SelectorExpr); ok {
						name = sel.Sel.Name
					} else if id, ok := c.Fun.(*ast.Ident); ok {
						name = id.Name
					}
					isW := false
					switch name {
					case "Put", "Delete", "Merge", "DeleteRange", "IncrTableKeyCount", "Write", "CommitBatchWrite", "MaybeCommitBatch":
						isW = true
					}
					for _, a := range c.Args {
						if id, ok := a.(*ast.Ident); ok && id.Name == "wb" {
							isW = true
						}
						if s, ok := a.(*ast.SelectorExpr); ok && s.Sel.Name == "wb" {
							isW = true
						}
					}
					if may[name] {
						evs = append(evs, ev{c.Pos(), "call:" + name})
					}
					if isW && !inRet(c.Pos()) && !may[name] {
						evs = append(evs, ev{c.Pos(), "write:" + name})
					}
				}
				return true
			})
			sort.Slice(evs, func(i, j int) bool { return evs[i].pos < evs[j].pos })
			for i := range evs {
				e := evs[i]
				if strings.HasPrefix(e.kind, "write:") {
					continue
				}
				var firstWrite *ev
				for j := range evs {
					if !strings.HasPrefix(evs[j].kind, "write:") {
						continue
					}
					if (j < i && !leftBefore(evs[j].pos, e.pos)) || inLoopWith(evs[j].pos, e.pos) {
						firstWrite = &evs[j]
						break
					}
				}
				key := fmt.Sprintf("%s:%d:%s", fd.Name.Name, fset.Position(e.pos).Line, e.kind)
				if e.kind == "ret" || strings.HasPrefix(e.kind, "call:") {
					if !may[fd.Name.Name] {
						may[fd.Name.Name] = true
					}
					if seen[key] {
						continue
					}
					seen[key] = true
					s := site{fn: fd.Name.Name, line: fset.Position(e.pos).Line, clean: firstWrite == nil}
					if e.kind != "ret" {
						s.via = strings.TrimPrefix(e.kind, "call:")
					}
					if firstWrite != nil {
						s.why = fmt.Sprintf("%s@%d", firstWrite.kind, fset.Position(firstWrite.pos).Line)
					}
					sites = append(sites, s)
				}
			}
		}
	}
	sort.SliceStable(sites, func(i, j int) bool {
		if sites[i].fn != sites[j].fn {
			return sites[i].fn < sites[j].fn
		}
		return sites[i].line < sites[j].line
	})
	return sites
}

// lists functions of rockredis where a commit of a write batch is followed (lexically, outside return
// statements) by more code that can return an error or write again
func commitThenWriteSites() []string {
	var out []string
	fset := token.NewFileSet()
	files, _ := filepath.Glob(filepath.Join(repoDir(), "rockredis", "*.go"))
	sort.Strings(files)
	for _, fn := range files {
		if strings.HasSuffix(fn, "_test.go") || strings.Contains(fn, "verif") {
			continue
		}
		f, _ := parser.ParseFile(fset, fn, nil, 0)
		for _, d := range f.Decls {
			fd, ok := d.(*ast.FuncDecl)
			if !ok || fd.Body == nil {
				continue
			}
			var commits []token.Pos
			var later []string
			ast.Inspect(fd.Body, func(n ast.Node) bool {
				c, ok := n.(*ast.CallExpr)
				if !ok {
					return true
				}
				name := ""
				if sel, ok := c.Fun.(*ast.SelectorExpr); ok {
					name = sel.Sel.Name
				}
				switch name {
				case "CommitBatchWrite", "MaybeCommitBatch", "Write", "Commit":
					if name == "Write" || name == "Commit" {
						// only engine writes: receiver named rockEng / wb
						if sel, ok := c.Fun.(*ast.SelectorExpr); ok {
							r := ""
							if s2, ok := sel.X.(*ast.SelectorExpr); ok {
								r = s2.Sel.Name
							} else if id, ok := sel.X.(*ast.Ident); ok {
								r = id.Name
							}
							if r != "rockEng" && r != "wb" {
								return true
							}
						}
					}
					commits = append(commits, c.Pos())
				}
				return true
			})
			if len(commits) == 0 {
				continue
			}
			var retBlocks [][2]token.Pos // blocks whose last statement is a return
			ast.Inspect(fd.Body, func(n ast.Node) bool {
				if b, ok := n.(*ast.BlockStmt); ok && b != fd.Body && len(b.List) > 0 {
					if _, ok := b.List[len(b.List)-1].(*ast.ReturnStmt); ok {
						retBlocks = append(retBlocks, [2]token.Pos{b.Pos(), b.End()})
					}
				}
				return true
			})
			// a commit inside a returning branch does not precede the code after that branch
			after := func(p token.Pos) bool {
				for _, c := range commits {
					if c >= p {
						continue
					}
					left := false
					for _, b := range retBlocks {
						if c >= b[0] && c < b[1] && p >= b[1] {
							left = true
						}
					}
					if !left {
						return true
					}
				}
				return false
			}
			first := token.Pos(0)
			_ = first
			ast.Inspect(fd.Body, func(n ast.Node) bool {
				switch x := n.(type) {
				case *ast.CallExpr:
					if after(x.Pos()) {
						name := ""
						if sel, ok := x.Fun.(*ast.SelectorExpr); ok {
							name = sel.Sel.Name
						}
						switch name {
						case "Put", "Delete", "Merge", "DeleteRange", "IncrTableKeyCount":
							later = append(later, fmt.Sprintf("%s@%d", name, fset.Position(x.Pos()).Line))
						}
						for _, a := range x.Args { // a helper that is handed the batch
							if id, ok := a.(*ast.Ident); ok && id.Name == "wb" {
								later = append(later, fmt.Sprintf("call(wb)@%d", fset.Position(x.Pos()).Line))
							}
							if s, ok := a.(*ast.SelectorExpr); ok && s.Sel.Name == "wb" {
								later = append(later, fmt.Sprintf("call(db.wb)@%d", fset.Position(x.Pos()).Line))
							}
						}
					}
				case *ast.ReturnStmt:
					if after(x.Pos()) && len(x.Results) > 0 {
						last := x.Results[len(x.Results)-1]
						if id, ok := last.(*ast.Ident); ok && (strings.HasPrefix(id.Name, "err") && id.Name != "err" || strings.HasPrefix(id.Name, "Err")) {
							later = append(later, fmt.Sprintf("return %s@%d", id.Name, fset.Position(x.Pos()).Line))
						}
					}
				}
				return true
			})
			if len(later) > 0 {
				out = append(out, fd.Name.Name)
			}
		}
	}
	sort.Strings(out)
	return out
}
