package main

import (
	"fmt"
	"strconv"
	"strings"

	"verif/harness/internal/hx"
)

// Compact text form of an argument: hex (hx.H), or "<hexprefix>~<n>~<bb>" = prefix followed by n times
// the byte bb, used when an argument longer than 512 bytes ends in one repeated byte (the sized values
// of the length sweep), so that case files stay small.
func encB(b []byte) string {
	if len(b) > 512 {
		last := b[len(b)-1]
		i := len(b)
		for i > 0 && b[i-1] == last {
			i--
		}
		if i <= 64 {
			p := ""
			if i > 0 {
				p = fmt.Sprintf("%x", b[:i])
			}
			return fmt.Sprintf("%s~%d~%02x", p, len(b)-i, last)
		}
	}
	return hx.H(b)
}

func decB(s string) []byte {
	if k := strings.IndexByte(s, '~'); k >= 0 {
		parts := strings.Split(s, "~")
		var out []byte
		if parts[0] != "" {
			out = hx.UnH(parts[0])
		}
		n, _ := strconv.Atoi(parts[1])
		bb, _ := strconv.ParseUint(parts[2], 16, 8)
		tail := make([]byte, n)
		for i := range tail {
			tail[i] = byte(bb)
		}
		return append(out, tail...)
	}
	return hx.UnH(s)
}

func encL(l [][]byte) string {
	p := make([]string, len(l))
	for i, b := range l {
		p[i] = encB(b)
	}
	return strings.Join(p, ",")
}

func decL(s string) [][]byte {
	if s == "" {
		return nil
	}
	parts := strings.Split(s, ",")
	out := make([][]byte, len(parts))
	for i, p := range parts {
		out[i] = decB(p)
	}
	return out
}
