package main

import (
	"fmt"
	"go/ast"
	"go/parser"
	"go/token"
	"math"
	"os"
	"path/filepath"
	"sort"
	"strconv"
	"strings"

	"github.com/youzan/ZanRedisDB/common"
	"github.com/youzan/ZanRedisDB/common/geohash"
	"github.com/youzan/ZanRedisDB/node"
	"github.com/youzan/ZanRedisDB/rockredis"
)

// regEntry is one registration found in the source (go/ast) and/or at run time (hook).
type regEntry struct {
	Kind    string   // read | write | merge | mergewrite | internal
	Name    string   // command name as registered
	Wrapper string   // wrapXxx | direct | unknown
	Params  []string // rendered arguments of the wrapper call, or [method name] for direct
	Cond    bool     // registered inside an if statement
	Runtime string   // Go symbol of the registered function value ("" if not registered at run time)
}

func repoDir() string {
	if d := os.Getenv("VERIF_REPO"); d != "" {
		return d
	}
	return "/repo"
}

func renderExpr(e ast.Expr) string {
	switch x := e.(type) {
	case *ast.Ident:
		return x.Name
	case *ast.SelectorExpr:
		return x.Sel.Name
	case *ast.BasicLit:
		if x.Kind == token.STRING {
			s, _ := strconv.Unquote(x.Value)
			return s
		}
		return x.Value
	case *ast.CallExpr:
		return renderExpr(x.Fun) + "(...)"
	}
	return "?"
}

var regKinds = map[string]string{
	"RegisterRead": "read", "RegisterWrite": "write", "RegisterMerge": "merge",
	"RegisterWriteMerge": "mergewrite", "RegisterInternal": "internal",
}

// sourceRegs parses every non-test file of node/ and returns the Register* calls found.
func sourceRegs() []regEntry {
	fset := token.NewFileSet()
	files, _ := filepath.Glob(filepath.Join(repoDir(), "node", "*.go"))
	sort.Strings(files)
	var out []regEntry
	for _, fn := range files {
		if strings.HasSuffix(fn, "_test.go") || strings.HasSuffix(fn, "_verif.go") || strings.HasSuffix(fn, "verif_export.go") {
			continue
		}
		f, err := parser.ParseFile(fset, fn, nil, 0)
		if err != nil {
			continue
		}
		var ifs [][2]token.Pos
		ast.Inspect(f, func(n ast.Node) bool {
			if s, ok := n.(*ast.IfStmt); ok {
				ifs = append(ifs, [2]token.Pos{s.Pos(), s.End()})
			}
			return true
		})
		ast.Inspect(f, func(n ast.Node) bool {
			c, ok := n.(*ast.CallExpr)
			if !ok {
				return true
			}
			sel, ok := c.Fun.(*ast.SelectorExpr)
			if !ok {
				return true
			}
			kind, ok := regKinds[sel.Sel.Name]
			if !ok || len(c.Args) != 2 {
				return true
			}
			// receiver must be <x>.router
			if rs, ok := sel.X.(*ast.SelectorExpr); !ok || rs.Sel.Name != "router" {
				return true
			}
			lit, ok := c.Args[0].(*ast.BasicLit)
			if !ok || lit.Kind != token.STRING {
				return true
			}
			name, _ := strconv.Unquote(lit.Value)
			e := regEntry{Kind: kind, Name: name}
			for _, r := range ifs {
				if c.Pos() >= r[0] && c.End() <= r[1] {
					e.Cond = true
				}
			}
			switch h := c.Args[1].(type) {
			case *ast.CallExpr:
				e.Wrapper = renderExpr(h.Fun)
				for _, a := range h.Args {
					e.Params = append(e.Params, renderExpr(a))
				}
			case *ast.SelectorExpr:
				e.Wrapper = "direct"
				e.Params = []string{h.Sel.Name}
			default:
				e.Wrapper = "unknown"
			}
			out = append(out, e)
			return true
		})
	}
	return out
}

// allRegs merges the source view with the run-time tables (hook node.VerifAllCmdRegs):
// entries only in the source and not registered at run time are dropped when conditional;
// entries only at run time get wrapper "unknown" (the model then accepts everything for them, so
// the theorem over the table fails until the entry is understood).
func allRegs() []regEntry {
	src := sourceRegs()
	rt := node.VerifAllCmdRegs()
	rtm := map[string]string{}
	for _, r := range rt {
		rtm[r.Kind+"\x00"+r.Name] = r.Func
	}
	seen := map[string]bool{}
	var out []regEntry
	for _, e := range src {
		k := e.Kind + "\x00" + e.Name
		fn, ok := rtm[k]
		if !ok {
			if e.Cond {
				continue
			}
			e.Runtime = ""
		} else {
			e.Runtime = fn
			// the run-time symbol must agree with the wrapper read from the source
			want := e.Wrapper
			if e.Wrapper == "direct" {
				want = "." + e.Params[0] + "-fm"
			} else {
				want = "." + e.Wrapper + "."
			}
			if e.Wrapper == "wrapWriteCommandKSubkeyV" {
				want = ".wrapWriteCommandKVV." // wrapWriteCommandKSubkeyV returns wrapWriteCommandKVV's closure
			}
			if e.Wrapper == "wrapReadCommandKAnySubkey" {
				want = ".wrapReadCommandKAnySubkeyN."
			}
			if !strings.Contains(fn, want) && !seen[k] {
				e.Wrapper = "unknown"
			}
		}
		if seen[k] {
			continue // a second registration of the same name is refused by the router
		}
		seen[k] = true
		out = append(out, e)
	}
	for _, r := range rt {
		k := r.Kind + "\x00" + r.Name
		if !seen[k] {
			seen[k] = true
			out = append(out, regEntry{Kind: r.Kind, Name: r.Name, Wrapper: "unknown", Runtime: r.Func})
		}
	}
	sort.SliceStable(out, func(i, j int) bool {
		if out[i].Kind != out[j].Kind {
			return out[i].Kind < out[j].Kind
		}
		return out[i].Name < out[j].Name
	})
	return out
}

// unrecoveryMatcher reads node/state_machine.go isUnrecoveryError: which string predicate it applies to
// err.Error() and with which literal. kind: prefix | contains | containsfold | unknown.
func unrecoveryMatcher() (kind string, pattern string) {
	fset := token.NewFileSet()
	f, err := parser.ParseFile(fset, filepath.Join(repoDir(), "node", "state_machine.go"), nil, 0)
	if err != nil {
		return "unknown", ""
	}
	kind = "unknown"
	n := 0
	for _, d := range f.Decls {
		fd, ok := d.(*ast.FuncDecl)
		if !ok || fd.Name.Name != "isUnrecoveryError" || fd.Body == nil {
			continue
		}
		ast.Inspect(fd.Body, func(x ast.Node) bool {
			c, ok := x.(*ast.CallExpr)
			if !ok {
				return true
			}
			sel, ok := c.Fun.(*ast.SelectorExpr)
			if !ok || renderExpr(sel.X) != "strings" || len(c.Args) != 2 {
				return true
			}
			lit, ok := c.Args[1].(*ast.BasicLit)
			if !ok || lit.Kind != token.STRING {
				return true
			}
			folded := false
			if in, ok := c.Args[0].(*ast.CallExpr); ok {
				if s2, ok := in.Fun.(*ast.SelectorExpr); ok && renderExpr(s2.X) == "strings" && (s2.Sel.Name == "ToLower" || s2.Sel.Name == "ToUpper") {
					folded = true
				}
			}
			n++
			pattern, _ = strconv.Unquote(lit.Value)
			switch {
			case sel.Sel.Name == "HasPrefix" && !folded:
				kind = "prefix"
			case sel.Sel.Name == "Contains" && !folded:
				kind = "contains"
			case sel.Sel.Name == "Contains" && folded:
				kind = "containsfold"
			default:
				kind = "unknown"
			}
			return true
		})
	}
	if n != 1 {
		return "unknown", pattern
	}
	return kind, pattern
}

func coqStr(s string) string { return "\"" + strings.ReplaceAll(s, "\"", "\"\"") + "\"%gname" }

func coqStrList(l []string) string {
	p := make([]string, len(l))
	for i, s := range l {
		p[i] = coqStr(s)
	}
	return "[" + strings.Join(p, "; ") + "]"
}

var kindCtor = map[string]string{"read": "KRead", "write": "KWrite", "merge": "KMerge", "mergewrite": "KMergeWrite", "internal": "KInternal"}

func consts() {
	regs := allRegs()
	fmt.Println("(* GENERATED by harness/cmd/nodesim -consts from /repo (go/ast over node/*.go + run-time router tables); do not edit *)")
	fmt.Println("From Coq Require Import NArith List.")
	fmt.Println("From ZV Require Import Valid.Types.")
	fmt.Println("Import ListNotations.")
	fmt.Println("Open Scope gname_scope.")
	fmt.Printf("Definition ns_sep : N := %d%%N.\n", common.NamespaceTableSeperator)
	fmt.Printf("Definition key_sep : N := %d%%N.\n", common.KEYSEP)
	fmt.Printf("Definition max_key_size : N := %d%%N.\n", common.MaxKeySize)
	fmt.Printf("Definition max_subkey_len : N := %d%%N.\n", common.MaxSubKeyLen)
	fmt.Printf("Definition max_value_size : N := %d%%N.\n", rockredis.MaxValueSize)
	fmt.Printf("Definition max_batch_num : N := %d%%N.\n", common.MAX_BATCH_NUM)
	fmt.Printf("Definition max_bit_offset : N := %d%%N.\n", rockredis.MaxBitOffset)
	fmt.Printf("Definition geo_long_min_bits : N := %d%%N.\n", math.Float64bits(geohash.WGS84_LONG_MIN))
	fmt.Printf("Definition geo_long_max_bits : N := %d%%N.\n", math.Float64bits(geohash.WGS84_LONG_MAX))
	fmt.Printf("Definition geo_lat_min_bits : N := %d%%N.\n", math.Float64bits(geohash.WGS84_LAT_MIN))
	fmt.Printf("Definition geo_lat_max_bits : N := %d%%N.\n", math.Float64bits(geohash.WGS84_LAT_MAX))
	fmt.Printf("Definition use_redis_v2_default : bool := %v.\n", node.UseRedisV2)
	fmt.Println("(* registration tables: kind, name, wrapper, wrapper arguments as written in the source *)")
	fmt.Println("Definition reg_table : list reg := [")
	for i, e := range regs {
		sep := ";"
		if i == len(regs)-1 {
			sep = ""
		}
		fmt.Printf("  mkreg %s %s %s %s%s\n", kindCtor[e.Kind], coqStr(e.Name), coqStr(e.Wrapper), coqStrList(e.Params), sep)
	}
	fmt.Println("].")
	// name-based routing predicates of the server (common/util.go), evaluated on every registered name
	var names []string
	seen := map[string]bool{}
	for _, e := range regs {
		if !seen[e.Name] {
			seen[e.Name] = true
			names = append(names, e.Name)
		}
	}
	sort.Strings(names)
	var mscan, mfull, midx, mkeys, batch []string
	for _, n := range names {
		if common.IsMergeScanCommand(n) {
			mscan = append(mscan, n)
			if common.IsFullScanCommand(n) {
				mfull = append(mfull, n)
			}
		}
		if common.IsMergeIndexSearchCommand(n) {
			midx = append(midx, n)
		}
		if common.IsMergeKeysCommand(n) {
			mkeys = append(mkeys, n)
		}
		if rockredis.IsBatchableWrite(n) {
			batch = append(batch, n)
		}
	}
	mk, mp := unrecoveryMatcher()
	fmt.Println("(* node/state_machine.go isUnrecoveryError: the string predicate applied to err.Error() and its literal *)")
	fmt.Printf("Definition unrecovery_matcher : gname := %s.\n", coqStr(mk))
	fmt.Printf("Definition unrecovery_pattern : gname := %s.\n", coqStr(mp))
	fmt.Println("(* texts of the fixed errors the apply handlers return before calling the store (hook node.VerifApplyErrTexts) *)")
	fmt.Println("Definition apply_err_texts : list (gname * gname) := [")
	et := node.VerifApplyErrTexts()
	var etn []string
	for k := range et {
		etn = append(etn, k)
	}
	sort.Strings(etn)
	for i, k := range etn {
		sep := ";"
		if i == len(etn)-1 {
			sep = ""
		}
		fmt.Printf("  (%s, %s)%s\n", coqStr(k), coqStr(et[k]), sep)
	}
	fmt.Println("].")
	fmt.Println("(* rockredis: sites where errTooMuchBatchSize leaves a function: (function, via callee or \"\", no batch write precedes) *)")
	fmt.Println("Definition toomuch_sites : list (gname * gname * bool) := [")
	ts := tooMuchSites()
	for i, t := range ts {
		sep := ";"
		if i == len(ts)-1 {
			sep = ""
		}
		fmt.Printf("  (%s, %s, %v)%s\n", coqStr(t.fn), coqStr(t.via), t.clean, sep)
	}
	fmt.Println("].")
	fmt.Println("(* size constants of the write path (go/ast over rockredis/*.go, common/limit.go, common/type.go): the length sweep of the harness is built from them *)")
	fmt.Print("Definition size_constants : list (gname * N) := [")
	for i, c := range sizeConstants() {
		if i > 0 {
			fmt.Print("; ")
		}
		fmt.Printf("(%s, %d%%N)", coqStr(c.Name), c.Value)
	}
	fmt.Println("].")
	fmt.Printf("Definition commit_then_write_sites : list gname := %s.\n", coqStrList(commitThenWriteSites()))
	fmt.Printf("Definition merge_scan_cmds : list gname := %s.\n", coqStrList(mscan))
	fmt.Printf("Definition full_scan_cmds : list gname := %s.\n", coqStrList(mfull))
	fmt.Printf("Definition merge_index_cmds : list gname := %s.\n", coqStrList(midx))
	fmt.Printf("Definition merge_keys_cmds : list gname := %s.\n", coqStrList(mkeys))
	fmt.Printf("Definition batchable_cmds : list gname := %s.\n", coqStrList(batch))
}
