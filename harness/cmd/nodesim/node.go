package main

import (
	"bufio"
	"bytes"
	"fmt"
	"hash/maphash"
	"math"
	"net"
	"os"
	"path"
	"strconv"
	"strings"
	"time"

	"github.com/youzan/ZanRedisDB/common"
	"github.com/youzan/ZanRedisDB/node"
	"github.com/youzan/ZanRedisDB/rockredis"
	"github.com/youzan/ZanRedisDB/server"
	"verif/harness/internal/srv"
)

// ---------- a minimal RESP client (one command, then a PING fence) ----------

type rconn struct {
	c  net.Conn
	rd *bufio.Reader
}

func dial(port int) (*rconn, error) {
	c, err := net.DialTimeout("tcp", "127.0.0.1:"+strconv.Itoa(port), 2*time.Second)
	if err != nil {
		return nil, err
	}
	return &rconn{c: c, rd: bufio.NewReaderSize(c, 1<<16)}, nil
}

func encodeCmd(args [][]byte) []byte {
	var b bytes.Buffer
	fmt.Fprintf(&b, "*%d\r\n", len(args))
	for _, a := range args {
		fmt.Fprintf(&b, "$%d\r\n", len(a))
		b.Write(a)
		b.WriteString("\r\n")
	}
	return b.Bytes()
}

// reply is one parsed RESP value reduced to its class: "+", "-", ":", "$", "*" and a short text.
type reply struct {
	kind byte
	text string
	n    int64
}

func (rc *rconn) readReply() (reply, error) {
	line, err := rc.rd.ReadString('\n')
	if err != nil {
		return reply{}, err
	}
	if len(line) < 3 {
		return reply{}, fmt.Errorf("short reply %q", line)
	}
	k := line[0]
	body := strings.TrimRight(line[1:], "\r\n")
	switch k {
	case '+', '-':
		return reply{kind: k, text: body}, nil
	case ':':
		n, _ := strconv.ParseInt(body, 10, 64)
		return reply{kind: k, n: n, text: body}, nil
	case '$':
		n, _ := strconv.Atoi(body)
		if n < 0 {
			return reply{kind: k, n: -1}, nil
		}
		buf := make([]byte, n+2)
		if _, err := readFull(rc.rd, buf); err != nil {
			return reply{}, err
		}
		t := string(buf[:n])
		if len(t) > 64 {
			t = t[:64]
		}
		return reply{kind: k, n: int64(n), text: t}, nil
	case '*':
		n, _ := strconv.Atoi(body)
		var tx []string
		for i := 0; i < n; i++ {
			e, err := rc.readReply()
			if err != nil {
				return reply{}, err
			}
			if i < 4 {
				tx = append(tx, e.text)
			}
		}
		return reply{kind: k, n: int64(n), text: strings.Join(tx, "|")}, nil
	}
	return reply{}, fmt.Errorf("bad reply %q", line)
}

func readFull(r *bufio.Reader, buf []byte) (int, error) {
	n := 0
	for n < len(buf) {
		m, err := r.Read(buf[n:])
		n += m
		if err != nil {
			return n, err
		}
	}
	return n, nil
}

// do sends one command and collects every reply it produced (PLSET answers once per pair),
// delimited by a PING sent after the first reply arrived. closed=true when the server closed the
// connection (a recovered handler panic does that).
func (rc *rconn) do(args [][]byte, timeout time.Duration) (reps []reply, closed bool, err error) {
	rc.c.SetDeadline(time.Now().Add(timeout))
	if _, err = rc.c.Write(encodeCmd(args)); err != nil {
		return nil, true, nil
	}
	first, err := rc.readReply()
	if err != nil {
		if ne, ok := err.(net.Error); ok && ne.Timeout() {
			return nil, false, fmt.Errorf("timeout")
		}
		return nil, true, nil
	}
	reps = append(reps, first)
	if _, err = rc.c.Write([]byte("*1\r\n$4\r\nPING\r\n")); err != nil {
		return reps, true, nil
	}
	for {
		r, err := rc.readReply()
		if err != nil {
			if ne, ok := err.(net.Error); ok && ne.Timeout() {
				return reps, false, fmt.Errorf("timeout")
			}
			return reps, true, nil
		}
		if r.kind == '+' && r.text == "PONG" {
			return reps, false, nil
		}
		reps = append(reps, r)
	}
}

// pipeline writes several commands in one TCP segment (redcon then offers them to the handler as a
// pipeline: server/util.go pipelineCommand turns consecutive SETs into one PLSET) and counts the replies
// that arrive before the PING fence answers.
func (rc *rconn) pipeline(cmds [][][]byte, timeout time.Duration) (nrep int, nerr int, closed bool, timedOut bool) {
	rc.c.SetDeadline(time.Now().Add(timeout))
	var b bytes.Buffer
	for _, c := range cmds {
		b.Write(encodeCmd(c))
	}
	if _, err := rc.c.Write(b.Bytes()); err != nil {
		return 0, 0, true, false
	}
	// the fence goes in a second segment so that it is not part of the pipeline
	time.Sleep(20 * time.Millisecond)
	if _, err := rc.c.Write([]byte("*1\r\n$4\r\nPING\r\n")); err != nil {
		return 0, 0, true, false
	}
	for {
		r, err := rc.readReply()
		if err != nil {
			if ne, ok := err.(net.Error); ok && ne.Timeout() {
				return nrep, nerr, false, true
			}
			return nrep, nerr, true, false
		}
		if r.kind == '+' && r.text == "PONG" {
			return nrep, nerr, false, false
		}
		nrep++
		if r.kind == '-' {
			nerr++
		}
	}
}

// reconnect: a fresh connection (after a pipelined group replies may still be under way on the old one)
func (ln *liveNode) reconnect() {
	ln.rc.c.Close()
	for k := 0; k < 50; k++ {
		if rc2, e := dial(ln.port); e == nil {
			ln.rc = rc2
			return
		}
		time.Sleep(20 * time.Millisecond)
	}
}

// ---------- the live node ----------

type liveNode struct {
	inst     *srv.Inst
	nd       *node.KVNode
	st       *node.KVStore
	rc       *rconn
	port     int
	lastReps []reply
	cached   *dumpT // engine content after the last command (only the harness changes the store)
}

// freeBase returns the first base b >= port (step 3, inside 34000..34999) whose three ports can be
// bound right now: the range overlaps the kernel's ephemeral ports, so a port may be taken by an
// unrelated outgoing connection.
func freeBase(port int) int {
	for k := 0; k < 300; k++ {
		b := 34000 + (port-34000+3*k)%996
		ok := true
		for d := 0; d < 3; d++ {
			l, err := net.Listen("tcp", ":"+strconv.Itoa(b+d))
			if err != nil {
				ok = false
				break
			}
			l.Close()
		}
		if ok {
			return b
		}
	}
	return port
}

func startNode(port int, engine, policy string, v2 bool) (*liveNode, error) {
	port = freeBase(port)
	inst, err := startServer(port, NS, engine, policy, v2)
	if err != nil {
		return nil, err
	}
	ln := &liveNode{inst: inst, nd: inst.Nodes[0].Node, port: port}
	ln.st = ln.nd.VerifKVStore()
	ln.st.VerifStopBackgroundExpire() // the sweep is run explicitly every 700 vectors (VerifValidExpireTick)
	ln.rc, err = dial(port)
	if err != nil {
		return nil, err
	}
	return ln, nil
}

type dumpT struct {
	keys [][]byte
	vals []uint64 // hash of the value (values of the length sweep are megabytes)
}

var dumpSeed = maphash.MakeSeed()

func dumpStore(db *rockredis.RockDB) dumpT {
	var d dumpT
	db.VerifScanAll(func(k, v []byte) {
		d.keys = append(d.keys, append([]byte{}, k...))
		d.vals = append(d.vals, maphash.Bytes(dumpSeed, v))
	})
	return d
}

// diffDump returns the engine keys whose presence or value differs.
func diffDump(a, b dumpT) [][]byte {
	var out [][]byte
	i, j := 0, 0
	for i < len(a.keys) || j < len(b.keys) {
		switch {
		case i >= len(a.keys):
			out = append(out, b.keys[j])
			j++
		case j >= len(b.keys):
			out = append(out, a.keys[i])
			i++
		default:
			c := bytes.Compare(a.keys[i], b.keys[j])
			if c == 0 {
				if a.vals[i] != b.vals[j] {
					out = append(out, a.keys[i])
				}
				i++
				j++
			} else if c < 0 {
				out = append(out, a.keys[i])
				i++
			} else {
				out = append(out, b.keys[j])
				j++
			}
		}
	}
	return out
}

// facts: what the leader-side shortcuts read from the store before deciding to propose
// (lpop/rpop/ltrim: LLen; setnx: KVExists; setifeq/delifeq: KVGet; sadd/srem: SIsMember;
// spop: SCard; zrem: ZScore), evaluated with the same store functions just before the command.
func (ln *liveNode) facts(args [][]byte) string {
	if len(args) < 2 {
		return "-"
	}
	name := strings.ToLower(string(args[0]))
	key, err := common.CutNamesapce(args[1])
	if err != nil {
		return "-"
	}
	cls := func(n int64, err error) string {
		if err != nil {
			return "n:e"
		}
		if n == 0 {
			return "n:0"
		}
		return "n:p"
	}
	switch name {
	case "lpop", "rpop", "ltrim":
		return cls(ln.st.LLen(key))
	case "spop":
		return cls(ln.st.SCard(key))
	case "setnx":
		n, _ := ln.st.KVExists(key)
		if n == 1 {
			return "x:1"
		}
		return "x:0"
	case "setifeq", "delifeq":
		if len(args) < 3 {
			return "-"
		}
		v, err := ln.st.KVGet(key)
		if err != nil {
			return "g:e"
		}
		if bytes.Equal(v, args[2]) {
			return "g:eq"
		}
		return "g:ne"
	case "sadd", "srem":
		var b strings.Builder
		for _, m := range args[2:] {
			n, _ := ln.st.SIsMember(key, m)
			if n == 0 {
				b.WriteByte('0')
			} else {
				b.WriteByte('1')
			}
		}
		if b.Len() == 0 {
			return "-"
		}
		return "b:" + b.String()
	case "zrem":
		var b strings.Builder
		for _, m := range args[2:] {
			_, err := ln.st.ZScore(key, m)
			if rockredis.IsMemberNotExist(err) {
				b.WriteByte('0')
			} else {
				b.WriteByte('1')
			}
		}
		if b.Len() == 0 {
			return "-"
		}
		return "b:" + b.String()
	}
	return "-"
}

// floatTable: the verdict of the real strconv.ParseFloat for every (short) argument and for its
// variant without a leading '(' (node/zset.go getScoreRange): "hexarg:hexbits" or "hexarg:e".
func floatTable(args [][]byte) string {
	seen := map[string]bool{}
	var out []string
	add := func(a []byte) {
		if len(a) == 0 || len(a) > 64 || seen[string(a)] {
			return
		}
		seen[string(a)] = true
		f, err := strconv.ParseFloat(string(a), 64)
		if err != nil {
			out = append(out, fmt.Sprintf("%x:e", a))
		} else {
			out = append(out, fmt.Sprintf("%x:%x", a, math.Float64bits(f)))
		}
	}
	for _, a := range args {
		add(a)
		if len(a) > 1 && a[0] == '(' {
			add(a[1:])
		}
	}
	if len(out) == 0 {
		return "-"
	}
	return strings.Join(out, ",")
}

type nodeObs struct {
	verdict string // rej | prop | local | read-ok | read-err | closed | timeout
	reply   string // ok | err | closed | timeout
	nrep    int
	errText string
	changed int // engine keys changed by the command
	reps    []reply
}

// send runs one vector on the live node and classifies what happened.
func (ln *liveNode) send(args [][]byte) (obs nodeObs, before, after dumpT) {
	if ln.cached != nil {
		before = *ln.cached
	} else {
		before = dumpStore(ln.st.RockDB)
	}
	idx0 := ln.nd.GetAppliedIndex()
	reps, closed, err := ln.rc.do(args, 2*time.Second)
	if closed || err != nil {
		ln.rc.c.Close()
		for i := 0; i < 50; i++ {
			if rc, e := dial(ln.port); e == nil {
				ln.rc = rc
				break
			}
			time.Sleep(20 * time.Millisecond)
		}
	}
	idx1 := ln.nd.GetAppliedIndex()
	ln.lastReps = reps
	after = dumpStore(ln.st.RockDB)
	ln.cached = &after
	obs.nrep = len(reps)
	obs.reps = reps
	obs.changed = len(diffDump(before, after))
	switch {
	case err != nil:
		obs.reply = "timeout"
	case closed && len(reps) == 0:
		obs.reply = "closed"
	default:
		obs.reply = "ok"
		for _, r := range reps {
			if r.kind == '-' {
				obs.reply = "err"
				obs.errText = r.text
			}
		}
		// all replies errors?  (PLSET: one status per pair)
		if obs.reply == "err" {
			all := true
			for _, r := range reps {
				if r.kind != '-' {
					all = false
				}
			}
			if !all {
				obs.reply = "mixed"
			}
		}
	}
	if idx1 > idx0 {
		obs.verdict = "prop"
	} else {
		obs.verdict = "noprop"
	}
	return
}

// startServer is srv.Start for one partition with a chosen expiration policy of the namespace.
func startServer(portBase int, ns string, engine string, policy string, v2 bool) (*srv.Inst, error) {
	if (policy == "" || policy == common.DefaultExpirationPolicy) && !v2 {
		return srv.Start(portBase, ns, 1, engine)
	}
	tmpDir, err := os.MkdirTemp("", "verif-srv-")
	if err != nil {
		return nil, err
	}
	os.WriteFile(path.Join(tmpDir, "myid"), []byte("1"), common.FILE_PERM)
	raftAddr := fmt.Sprintf("http://127.0.0.1:%d", portBase+2)
	opts := server.ServerConfig{
		ClusterID: "verif-" + ns, DataDir: tmpDir, RedisAPIPort: portBase, HttpAPIPort: portBase + 1,
		LocalRaftAddr: raftAddr, BroadcastAddr: "127.0.0.1", TickMs: 50, ElectionTick: 5,
	}
	opts.RocksDBOpts.EngineType = engine
	opts.UseRedisV2 = v2
	kv, err := server.NewServer(opts)
	if err != nil {
		return nil, err
	}
	inst := &srv.Inst{S: kv, Port: portBase, Dir: tmpDir, NS: ns, PartNum: 1}
	var replica node.ReplicaInfo
	replica.NodeID = 1
	replica.ReplicaID = 1
	replica.RaftAddr = raftAddr
	nsConf := node.NewNSConfig()
	nsConf.Name = ns + "-0"
	nsConf.BaseName = ns
	nsConf.EngType = rockredis.EngType
	nsConf.PartitionNum = 1
	nsConf.Replicator = 1
	if policy == common.WaitCompactExpirationPolicy {
		nsConf.ExpirationPolicy = policy
		nsConf.DataVersion = common.ValueHeaderV1Str // wait_compact needs the value header
	}
	nsConf.RaftGroupConf.GroupID = 1000
	nsConf.RaftGroupConf.SeedNodes = append(nsConf.RaftGroupConf.SeedNodes, replica)
	n, err := kv.InitKVNamespace(1, nsConf, false)
	if err != nil {
		return nil, err
	}
	inst.Nodes = append(inst.Nodes, n)
	kv.Start()
	deadline := time.Now().Add(20 * time.Second)
	for !n.Node.IsLead() {
		if time.Now().After(deadline) {
			return nil, fmt.Errorf("inconclusive: leader not elected in time")
		}
		time.Sleep(50 * time.Millisecond)
	}
	return inst, nil
}
