// nodesim: C11 harness (group Valid). Runs the REAL code of /repo:
//
//	H-NODE  a single-replica in-process server; every vector is sent over the redis protocol, so
//	        validation -> propose -> raft -> apply is the production path;
//	H-SM    real kv state machines driven through ApplyRaftRequest: a sandbox that receives every
//	        vector (panic oracle with recover) and a replica pair A/B where A receives what the
//	        leader accepted and B the same minus the requests that answered with an error.
//
// Writes cases.tsv (model input), impl.out (projected observables compared with the model),
// oracle.tsv (observables of the direct oracle) and journal.txt (vector in flight) into -out.
package main

import (
	"bufio"
	"bytes"
	"flag"
	"fmt"
	"math"
	"os"
	"runtime"
	"runtime/pprof"
	"sort"
	"strconv"
	"strings"
	"sync/atomic"
	"syscall"
	"time"

	"github.com/youzan/ZanRedisDB/common"
	"github.com/youzan/ZanRedisDB/engine"
	"github.com/youzan/ZanRedisDB/node"
	"github.com/youzan/ZanRedisDB/rockredis"
	"github.com/youzan/ZanRedisDB/server"
	"github.com/youzan/ZanRedisDB/slow"
	"github.com/youzan/ZanRedisDB/transport/rafthttp"
	"verif/harness/internal/hx"
)

var (
	seed      = flag.Int64("seed", 1, "seed")
	nvec      = flag.Int("n", 2000, "number of vectors")
	outDir    = flag.String("out", ".", "output directory")
	doC       = flag.Bool("consts", false, "print Consts.v")
	replay    = flag.String("replay", "", "vectors file (id<TAB>args) to re-run instead of generating")
	port      = flag.Int("port", 34000, "port base for the in-process server")
	engName   = flag.String("engine", "mem", "storage engine: mem | pebble")
	big       = flag.Bool("big", false, "include the vectors with ~5000 arguments")
	quiet     = flag.Bool("quiet", true, "silence the server logs")
	policy    = flag.String("policy", "local_deletion", "expiration policy of the namespace and of the simulated replicas: local_deletion | wait_compact")
	sweep     = flag.Int64("sweep", 0, "run the length sweep instead of random mutants: size constants of the write path up to this value, +-32 bytes")
	sweepPart = flag.String("sweeppart", "0/1", "k/n: the k-th of n slices of the write commands for the length sweep")
	statePart = flag.String("statepart", "", "k/n: slice of the state sequences (default: the same as -sweeppart); every expiration policy should see all of them")
	bigPart   = flag.String("bigpart", "all", "with -big: a = dictionary, pipelined groups, MAX_BATCH_NUM classes; b = many collections, big lists; all")
	sweepFull = flag.Bool("sweepfull", false, "length sweep: every constant also in the field/member and key positions")
	useV2     = flag.Bool("v2", false, "live server with use_redis_v2 (raw command proposed, namespace cut at apply)")
	avoid     = flag.String("avoid", "", "comma separated signatures of OPEN known findings whose inputs are not executed (they would take the harness down)")
)

var stdout = os.Stdout

// progress / phase: what the watchdog looks at
var progress int64
var phase atomic.Value

func step(ph string) {
	phase.Store(ph)
	atomic.AddInt64(&progress, 1)
}

type cmdInfo struct{ read, write, merge, mergewrite, internal bool }

func main() {
	flag.Parse()
	if *doC {
		consts()
		return
	}
	if *quiet {
		// logs (and the trace of a fatal panic) go to server.log in the output directory
		if lf, err := os.Create(*outDir + "/server.log"); err == nil {
			if o, err := syscall.Dup(1); err == nil {
				stdout = os.NewFile(uintptr(o), "stdout")
			}
			syscall.Dup3(int(lf.Fd()), 2, 0)
			syscall.Dup3(int(lf.Fd()), 1, 0)
		}
		node.SetLogLevel(int(common.LOG_ERR))
		rockredis.SetLogLevel(int32(common.LOG_ERR))
		engine.SetLogLevel(int32(common.LOG_ERR))
		server.SetLogger(int32(common.LOG_ERR), common.NewLogger())
		slow.SetLogger(int32(common.LOG_ERR), common.NewLogger())
		rafthttp.SetLogLevel(int(common.LOG_ERR))
	}
	if pf := os.Getenv("NODESIM_PROF"); pf != "" {
		if f, err := os.Create(pf); err == nil {
			pprof.StartCPUProfile(f)
			defer pprof.StopCPUProfile()
		}
	}
	r := hx.NewRng(*seed)

	// the run-time registration tables decide which names get vectors
	info := map[string]*cmdInfo{}
	for _, rg := range node.VerifAllCmdRegs() {
		ci := info[rg.Name]
		if ci == nil {
			ci = &cmdInfo{}
			info[rg.Name] = ci
		}
		switch rg.Kind {
		case "read":
			ci.read = true
		case "write":
			ci.write = true
		case "merge":
			ci.merge = true
		case "mergewrite":
			ci.mergewrite = true
		case "internal":
			ci.internal = true
		}
	}
	var names []string
	untemplated := []string{}
	for n := range info {
		names = append(names, n)
		if len(templates[n]) == 0 {
			untemplated = append(untemplated, n)
		}
	}
	sort.Strings(names)
	sort.Strings(untemplated)

	var vecs []vector
	var ids []string
	if *replay != "" {
		for _, l := range hx.ReadLines(*replay) {
			p := strings.Split(l, "\t")
			if len(p) < 2 {
				continue
			}
			ids = append(ids, p[0])
			if strings.Contains(p[1], ";") {
				var g [][][]byte
				for _, c := range strings.Split(p[1], ";") {
					g = append(g, decL(c))
				}
				vecs = append(vecs, vector{group: g, args: [][]byte{[]byte("__pipeline")}, base: "replay", mut: "replay"})
				continue
			}
			vecs = append(vecs, vector{args: decL(p[1]), base: "replay", mut: "replay"})
		}
	} else {
		// every template once unmutated, then mutants
		for _, n := range names {
			tp := templates[n]
			if len(tp) == 0 {
				tp = genericTemplates(n)
			}
			for _, t := range tp {
				vecs = append(vecs, vector{args: bb(t), base: n, mut: "valid"})
			}
		}
		if *sweep > 0 {
			var spk, spn int
			fmt.Sscanf(*sweepPart, "%d/%d", &spk, &spn)
			sv := sweepVectors(names, func(n string) bool { ci := info[n]; return ci != nil && (ci.write || ci.mergewrite) }, *sweep, spk, spn, *sweepFull)
			// the state sequences first (small stores), then the sizes in ascending order; the clearing blocks
			// come every 400 vectors, every 60 once the values are large (the engine dumps taken around
			// every vector read everything that is stored)
			stk, stn := spk, spn
			if *statePart != "" {
				fmt.Sscanf(*statePart, "%d/%d", &stk, &stn)
			}
			sv = append(stateSweep(names, stk, stn, *sweepFull), sv...)
			sinceClear := 0
			for _, v := range sv {
				vecs = append(vecs, v)
				sinceClear++
				large := false
				for _, a := range v.args {
					if len(a) > 100000 {
						large = true
					}
				}
				if sinceClear >= 400 || (large && sinceClear >= 60) {
					sinceClear = 0
					for _, c := range maintenance {
						vecs = append(vecs, vector{args: bb(c), base: c[0], mut: "maintenance"})
					}
					for _, c := range initState {
						vecs = append(vecs, vector{args: bb(c), base: c[0], mut: "maintenance"})
					}
				}
			}
			*nvec = 0
		}
		if *policy == "wait_compact" && !*big && *sweep == 0 && *nvec > 0 {
			vecs = append(vecs, ttlBoundaryVectors()...)
		}
		for len(vecs) < *nvec {
			vecs = append(vecs, genVector(r, names))
			if len(vecs)%1500 == 0 {
				// maintenance block (ordinary valid commands): collections that only grow are cleared
				// and re-created, so that the engine dumps taken around every vector stay small
				for _, c := range maintenance {
					vecs = append(vecs, vector{args: bb(c), base: c[0], mut: "maintenance"})
				}
				for _, c := range initState {
					vecs = append(vecs, vector{args: bb(c), base: c[0], mut: "maintenance"})
				}
			}
		}
		if *big {
			var bv []vector
			if *bigPart != "b" {
				vecs = append(vecs, lastPairVectors()...)
				vecs = append(vecs, ttlBoundaryVectors()...)
				vecs = append(vecs, dictionarySweep(names)...)
				vecs = append(vecs, liveCollectionBig()...)
				bv = bigVectors()
			}
			if *bigPart != "a" {
				vecs = append(vecs, manyCollections()...)
				vecs = append(vecs, bigListRegrow()...)
			}
			// spread them over the run
			for i, v := range bv {
				pos := (i + 1) * len(vecs) / (len(bv) + 1)
				vecs = append(vecs[:pos], append([]vector{v}, vecs[pos:]...)...)
			}
		}
		for i := range vecs {
			ids = append(ids, fmt.Sprint(i+1))
		}
	}

	co := createOut(*outDir + "/cases.tsv")
	io := createOut(*outDir + "/impl.out")
	oo := createOut(*outDir + "/oracle.tsv")
	vo := createOut(*outDir + "/vectors.tsv")
	jf, _ := os.Create(*outDir + "/journal.txt")
	defer co.Close()
	defer io.Close()
	defer oo.Close()
	defer vo.Close()
	flushAll := func() { co.Flush(); io.Flush(); oo.Flush(); vo.Flush() }
	oo.Printf("CFG\tpolicy=%s engine=%s v2=%v\n", *policy, *engName, *useV2)

	// watchdog: no progress for 90 s (an engine lock that is never released, a close that waits for it ...)
	// => dump the goroutines, name the phase in the journal and stop with exit code 6
	go func() {
		last, lastAt := int64(-1), time.Now()
		for {
			time.Sleep(3 * time.Second)
			cur := atomic.LoadInt64(&progress)
			if cur != last {
				last, lastAt = cur, time.Now()
				continue
			}
			if time.Since(lastAt) > 90*time.Second {
				buf := make([]byte, 1<<22)
				n := runtime.Stack(buf, true)
				fmt.Fprintf(os.Stderr, "WATCHDOG: no progress for 90 s in phase %v\n%s\n", phase.Load(), buf[:n])
				fmt.Fprintf(jf, "WATCHDOG\t%v\n", phase.Load())
				jf.Sync()
				os.Exit(6)
			}
		}
	}()
	ln, err := startNode(*port, *engName, *policy, *useV2)
	if err != nil {
		fmt.Fprintln(stdout, "INCONCLUSIVE server start:", err)
		os.Exit(3)
	}
	defer ln.inst.Cleanup()
	// the live node must have registered exactly the tables the constants were generated from
	live := map[string]bool{}
	for _, rg := range ln.nd.VerifCmdRegs() {
		live[rg.Kind+" "+rg.Name] = true
	}
	for _, rg := range node.VerifSMCmdRegs(ln.nd.VerifStateMachine()) {
		live[rg.Kind+" "+rg.Name] = true
	}
	for _, rg := range node.VerifAllCmdRegs() {
		if !live[rg.Kind+" "+rg.Name] {
			fmt.Fprintln(stdout, "live node lacks registration", rg.Kind, rg.Name)
			os.Exit(2)
		}
		delete(live, rg.Kind+" "+rg.Name)
	}
	if len(live) != 0 {
		fmt.Fprintln(stdout, "live node has extra registrations", live)
		os.Exit(2)
	}

	sand, err := newSimSM("sand", *engName, *policy)
	if err != nil {
		fmt.Fprintln(stdout, "sandbox:", err)
		os.Exit(2)
	}
	ra, err1 := newSimSM("a", *engName, *policy)
	rb, err2 := newSimSM("b", *engName, *policy)
	rc, err3 := newSimSM("c", *engName, *policy)
	if err1 != nil || err2 != nil || err3 != nil {
		fmt.Fprintln(stdout, "replicas:", err1, err2, err3)
		os.Exit(2)
	}
	defer func() {
		step("close")
		done := make(chan struct{})
		go func() { sand.close(); ra.close(); rb.close(); rc.close(); close(done) }()
		select {
		case <-done:
		case <-time.After(10 * time.Second): // a leaked engine lock: the process ends anyway
		}
	}()

	ts0 := time.Now().UnixNano()
	tick := int64(0)
	nextTs := func() int64 { tick++; return ts0 + tick*1000000 }
	jumpTs := func() { tick += 3000 } // +3 s

	// initial state everywhere, through the normal paths
	for _, c := range initState {
		obs, _, _ := ln.send(bb(c))
		if obs.reply != "ok" {
			fmt.Fprintln(stdout, "init command failed on the live node:", c, obs.reply, obs.errText)
			os.Exit(2)
		}
		f, _ := toApplyForm(bb(c), false)
		if c[0] == "geoadd" {
			continue // proposed as ZADD by the leader; not needed in the simulated replicas
		}
		t := nextTs()
		for _, s := range []*simSM{sand, ra, rb, rc} {
			res := s.applyEntries([][]applyReq{{f}}, t)
			if res.panicked || res.rsp[0] != "ok" {
				fmt.Fprintln(stdout, "init command failed on", s.name, c, res)
				os.Exit(2)
			}
		}
	}

	probeN := int64(0)
	var sandLast *dumpT
	stalls := 0
	noReply := map[string]int{}
	type pend struct {
		id    string
		req   applyReq
		force bool // always placed behind two valid SETs (and before a valid write) in one request list
	}
	var queue []pend
	pairFlushes := 0
	nbSeq := 0
	hllKeys := map[string]bool{}
	flushPair := func() {
		if len(queue) == 0 {
			return
		}
		step("pairflush:" + queue[len(queue)-1].id)
		pairFlushes++
		// Entries of 1..3 requests. Half of the queued requests are sandwiched between two VALID batchable
		// writes on fresh keys (a SET before, an HMSET or SETEX after) in the same entry: whatever the
		// request in the middle does, its neighbours must get their normal reply and effect.
		type slot struct {
			id  string // vector id, or "N<k>" for a neighbour
			req applyReq
		}
		var entries [][]slot
		for i := 0; i < len(queue); {
			if queue[i].force || r.Pick(2) == 0 {
				nbSeq++
				before := applyReq{dtype: node.RedisReq, args: bb([]string{"set", fmt.Sprintf("nb:a%d", nbSeq), "1"})}
				var after applyReq
				if r.Pick(2) == 0 {
					after = applyReq{dtype: node.RedisReq, args: bb([]string{"hmset", fmt.Sprintf("nb:h%d", nbSeq), "f", "1", "g", "2"})}
				} else {
					after = applyReq{dtype: node.RedisReq, args: bb([]string{"setex", fmt.Sprintf("nb:e%d", nbSeq), "100000", "v"})}
				}
				if queue[i].force {
					before2 := applyReq{dtype: node.RedisReq, args: bb([]string{"set", fmt.Sprintf("nb:c%d", nbSeq), "2"})}
					entries = append(entries, []slot{{fmt.Sprintf("N%da", nbSeq), before}, {fmt.Sprintf("N%dc", nbSeq), before2}, {queue[i].id, queue[i].req}, {fmt.Sprintf("N%db", nbSeq), after}})
				} else {
					entries = append(entries, []slot{{fmt.Sprintf("N%da", nbSeq), before}, {queue[i].id, queue[i].req}, {fmt.Sprintf("N%db", nbSeq), after}})
				}
				i++
				continue
			}
			k := 1 + r.Pick(3)
			if i+k > len(queue) {
				k = len(queue) - i
			}
			var e []slot
			for _, p := range queue[i : i+k] {
				e = append(e, slot{p.id, p.req})
			}
			entries = append(entries, e)
			i += k
		}
		var entA [][]applyReq
		var flat []slot
		for _, e := range entries {
			var ea []applyReq
			for _, sl := range e {
				ea = append(ea, sl.req)
				flat = append(flat, sl)
			}
			entA = append(entA, ea)
		}
		var allIDs []string
		for _, sl := range flat {
			allIDs = append(allIDs, sl.id)
		}
		idl := strings.Join(allIDs, ",")
		t := nextTs()
		resA := ra.applyEntries(entA, t)
		if resA.panicked || resA.hung {
			oo.Printf("P%d\tpair=panic ids=%s msg=%s\n", pairFlushes, idl, hx.H([]byte(resA.pmsg)))
			flushAll()
			if resA.hung {
				oo.Printf("END\tvectors=0 hung=P%d\n", pairFlushes)
				flushAll()
				fmt.Fprintf(jf, "HUNG\tP%d\n", pairFlushes)
				os.Exit(4)
			}
			queue = nil
			ra.name = "dead"
			return
		}
		// B: the same entries without the requests that answered an error on A
		var entB [][]applyReq
		k := 0
		nerr := 0
		for _, e := range entA {
			var eb []applyReq
			for _, rq := range e {
				if resA.rsp[k] == "ok" {
					eb = append(eb, rq)
				} else {
					nerr++
				}
				k++
			}
			if len(eb) > 0 {
				entB = append(entB, eb)
			}
		}
		resB := rb.applyEntries(entB, t)
		// C: every request alone (its own entry, batch committed after each): what each request answers
		// when nothing is batched around it
		var rspC []string
		panC := false
		for _, sl := range flat {
			rc1 := rc.applyEntries([][]applyReq{{sl.req}}, t)
			if rc1.panicked || rc1.hung {
				panC = true
				break
			}
			rspC = append(rspC, rc1.rsp[0])
		}
		verdict := "eq"
		detail := ""
		switch {
		case resB.panicked || resB.hung:
			verdict = "panicB"
		case panC:
			verdict = "panicC"
		default:
			for _, x := range resB.rsp {
				if x != "ok" {
					verdict = "replyB" // a request that succeeded on A fails on B
				}
			}
			for i, sl := range flat {
				if sl.id[0] == 'N' && resA.rsp[i] != "ok" {
					verdict = "neighbour-error" // a valid write lost its reply to another request's error
					detail = sl.id + ":" + hx.H([]byte(trunc(resA.etxt[i], 60)))
					break
				}
			}
			if verdict == "eq" {
				for i := range flat {
					if resA.rsp[i] != rspC[i] {
						verdict = "batched-differs-from-solo" // reply class depends on what was batched around it
						detail = flat[i].id + ":" + resA.rsp[i] + "/" + rspC[i]
						break
					}
				}
			}
			if verdict == "eq" {
				// the stored bytes of a HyperLogLog value are not a function of the applied commands (gob
				// encoding of a Go map, written back when the cache evicts it; C07's open finding): keys
				// written by PFADD are left out of the comparison
				for _, sl := range flat {
					if len(sl.req.args) > 1 && strings.ToLower(string(sl.req.args[0])) == "pfadd" {
						k := sl.req.args[1]
						if sl.req.dtype == node.RedisV2Req {
							if c, err := common.CutNamesapce(k); err == nil {
								k = c
							}
						}
						hllKeys[string(k)] = true
					}
				}
				notHLL := func(d [][]byte) [][]byte {
					var out [][]byte
					for _, ek := range d {
						hit := false
						for hk := range hllKeys {
							if hk != "" && bytes.Contains(ek, []byte(hk)) {
								hit = true
								break
							}
						}
						if !hit {
							out = append(out, ek)
						}
					}
					return out
				}
				da := dumpStore(ra.st.RockDB)
				if d := notHLL(diffDump(da, dumpStore(rb.st.RockDB))); len(d) > 0 {
					verdict = "diverged"
					detail = hx.H(trunc2(d[0], 80))
				} else if d := notHLL(diffDump(da, dumpStore(rc.st.RockDB))); len(d) > 0 {
					verdict = "divergedC"
					detail = hx.H(trunc2(d[0], 80))
				}
			}
		}
		oo.Printf("P%d\tpair=%s ids=%s nreq=%d nerr=%d detail=%s rsp=%s\n", pairFlushes, verdict, idl, len(flat), nerr, detail, strings.Join(resA.rsp, ","))
		queue = nil
	}
	flushAt := 1 + r.Pick(6)

	// U cases: node.isUnrecoveryError on texts around the texts it could match (model: is_unrecovery)
	if *replay == "" {
		pats := []string{"IO error: No space left on device", "no space left on device", "IO error", "write /d/000001.log: no space left on device"}
		var texts []string
		for _, p := range pats {
			texts = append(texts, p, strings.ToLower(p), strings.ToUpper(p), "x"+p, p+" (disk full)", p[:len(p)-1], p[1:],
				"strconv.Atoi: parsing \""+p+"\": invalid syntax", "strconv.ParseInt: parsing \""+strings.ToLower(p)+"\": invalid syntax",
				"ERR wrong number of arguments for '"+p+"' command")
		}
		texts = append(texts, "", "I", "invalid arguments", "IO error: No space left on devic", "IO error: No space left on device")
		for k := 0; k < 40; k++ {
			b := r.Bytes(r.Pick(50), []byte("IO error: Nspacltfnv.xX \""))
			texts = append(texts, string(b))
		}
		for k, t := range texts {
			co.Printf("U%d\tU\t%s\n", k+1, hx.H([]byte(t)))
			v := "0"
			if node.VerifIsUnrecoveryError(t) {
				v = "1"
			}
			io.Printf("U%d\t%s\n", k+1, v)
		}
	}

	if *big && *replay == "" && *bigPart != "b" {
		for gi, group := range pipelineGroups(names) {
			step(fmt.Sprintf("pipeline:g%d", gi))
			var hs []string
			for _, c := range group {
				hs = append(hs, encL(c))
			}
			fmt.Fprintf(jf, "g%d\t%s\n", gi, strings.Join(hs, ";"))
			ln.cached = nil
			nrep, nerr, closed, tmo := ln.rc.pipeline(group, 2*time.Second)
			ln.reconnect()
			oo.Printf("Gg%d\tpipeline=%d replies=%d errors=%d closed=%v timeout=%v\n", gi, len(group), nrep, nerr, closed, tmo)
		}
		flushAll()
	}
	for i, v := range vecs {
		id := ids[i]
		name := strings.ToLower(string(v.args[0]))
		ci := info[name]
		kind := "u"
		if ci != nil {
			switch {
			case ci.write || ci.mergewrite:
				kind = "w"
			case ci.read:
				kind = "r"
			case ci.merge:
				kind = "m"
			default:
				kind = "i"
			}
		}
		// arguments above 64 KiB are not given to the extracted model (lists of millions of numbers): such
		// vectors are judged by the direct oracle only
		huge := false
		for _, a := range v.args {
			if len(a) > 65536+64 {
				huge = true
			}
		}
		co.mute, io.mute = huge, huge
		if v.group != nil {
			var hs []string
			for _, c := range v.group {
				hs = append(hs, encL(c))
			}
			fmt.Fprintf(jf, "%s\t%s\n", id, strings.Join(hs, ";"))
			ln.cached = nil
			nrep, nerr, closed, tmo := ln.rc.pipeline(v.group, 2*time.Second)
			ln.reconnect()
			oo.Printf("G%s\tpipeline=%d replies=%d errors=%d closed=%v timeout=%v\n", id, len(v.group), nrep, nerr, closed, tmo)
			continue
		}
		if name == "__sleep" && len(v.args) == 2 {
			// replay files only: let wall-clock time pass (live node) and move the replicas' clock
			ms, _ := strconv.Atoi(string(v.args[1]))
			time.Sleep(time.Duration(ms) * time.Millisecond)
			tick += int64(ms)
			continue
		}
		if name == "__expiretick" || (*replay == "" && i%700 == 699) {
			// replay files only: one pass of the local_deletion expiry sweep on the live node's store, run
			// under the apply timeout (the sweep writes through the engine's write batches)
			done := make(chan int, 1)
			ln.cached = nil
			go func() { n, _ := ln.st.VerifValidExpireTick(); done <- n }()
			select {
			case n := <-done:
				oo.Printf("X%s\texpiretick=%d\n", id, n)
			case <-time.After(applyTimeout):
				oo.Printf("X%s\texpiretick=hung\n", id)
				oo.Printf("END\tvectors=%d hung=X%s\n", i+1, id)
				flushAll()
				fmt.Fprintf(jf, "HUNG\tX%s\n", id)
				os.Exit(4)
			}
			if name == "__expiretick" {
				continue
			}
		}
		argsH := encL(v.args)
		vo.Printf("%s\t%s\t%s\t%s\n", id, argsH, v.base, v.mut)
		jargsH := argsH // journal and vector file keep the symbolic TTL: a replay resolves it against its own clock
		tsBound := false
		for _, a := range v.args {
			if bytes.HasPrefix(a, []byte("@ttlmax")) {
				tsBound = true
			}
		}
		if tsBound {
			// "@ttlmax+k": the TTL (MaxUint32-1) - floor(ts/1s) + k for the timestamp the replicas' entries of this
			// vector are applied with: the first value the store refuses (k=0) and its neighbours. The replica clock
			// is moved to the first third of a second so that every apply of this vector sees the same second.
			flushPair()
			if cur := ts0 + (tick+1)*1000000; cur%1000000000 > 300000000 {
				tick += (1000000000-cur%1000000000)/1000000 + 1
			}
			sec := (ts0 + (tick+1)*1000000) / 1000000000
			na := make([][]byte, len(v.args))
			for k, a := range v.args {
				na[k] = a
				if bytes.HasPrefix(a, []byte("@ttlmax")) {
					off, _ := strconv.ParseInt(string(a[len("@ttlmax"):]), 10, 64)
					na[k] = []byte(fmt.Sprint(int64(math.MaxUint32-1) - sec + off))
				}
			}
			v.args = na
			argsH = encL(v.args)
		}
		if sig := dangerClass(name, v.args); sig != "" && strings.Contains(","+*avoid+",", ","+sig+",") {
			oo.Printf("L%s\tkind=%s verdict=avoided reply=avoided sig=%s\n", id, kind, sig)
			continue
		}
		if *replay == "" && i%40 == 17 {
			// a pipelined group of (possibly malformed) SETs in one segment: judged by the direct oracle
			// only (process alive, the node still answers; reply count noted)
			step("pipeline:" + id)
			n := 2 + r.Pick(3)
			var group [][][]byte
			for k := 0; k < n; k++ {
				c := bb([]string{"set", fmt.Sprintf("vns:t:pl%d", r.Pick(4)), fmt.Sprint(r.Pick(100))})
				if r.Pick(3) == 0 {
					c, _ = mutateOnce(r, c)
				}
				group = append(group, c)
			}
			ln.cached = nil
			nrep, nerr, closed, tmo := ln.rc.pipeline(group, 2*time.Second)
			ln.reconnect()
			oo.Printf("G%s\tpipeline=%d replies=%d errors=%d closed=%v timeout=%v\n", id, n, nrep, nerr, closed, tmo)
		}
		step("live:" + id)
		facts := ln.facts(v.args)
		co.Printf("L%s\tL\t%s\t%s\t%s\n", id, argsH, facts, floatTable(v.args))
		flushAll()
		fmt.Fprintf(jf, "%s\t%s\n", id, jargsH)

		if noReply[name] >= 2 {
			// this command has not answered twice already (each costs a client timeout): not sent again
			io.Printf("L%s\t%s skipped noreply\n", id, kind)
			oo.Printf("L%s\tkind=%s verdict=skipped reply=noreply-before\n", id, kind)
			continue
		}
		commit0 := ln.nd.GetRaftStatus().Commit
		obs, before, after := ln.send(v.args)
		if obs.reply == "timeout" {
			noReply[name]++
		}
		commit1 := ln.nd.GetRaftStatus().Commit
		verdict := "noprop"
		if commit1 > commit0 {
			verdict = "prop"
		}
		_ = before
		io.Printf("L%s\t%s %s %s\n", id, kind, verdict, obs.reply)

		// probe after an error (and after a tenth of the others): a fixed write must behave as on
		// the unchanged state and change nothing but its own keys
		probe := "skip"
		if obs.reply == "err" || obs.reply == "closed" || obs.reply == "timeout" || r.Pick(10) == 0 {
			pobs, _, pafter := ln.send(bb([]string{"incr", "vns:probe:c"}))
			probeN++
			if pobs.reply == "timeout" {
				// the probe was proposed but not answered in time: wait (up to 60 s) for the apply loop to
				// catch up before calling the node stuck; the late probe has been applied by then
				deadline := time.Now().Add(45 * time.Second)
				for time.Now().Before(deadline) && ln.nd.GetAppliedIndex() < ln.nd.GetRaftStatus().Commit {
					time.Sleep(100 * time.Millisecond)
				}
				if ln.nd.GetAppliedIndex() >= ln.nd.GetRaftStatus().Commit {
					stalls++
					pobs, _, pafter = ln.send(bb([]string{"incr", "vns:probe:c"}))
					probeN++
				} else {
					buf := make([]byte, 1<<22)
					n := runtime.Stack(buf, true)
					fmt.Fprintf(os.Stderr, "APPLY LOOP STUCK: applied=%d commit=%d\n%s\n", ln.nd.GetAppliedIndex(), ln.nd.GetRaftStatus().Commit, buf[:n])
					// the live node does not apply any more: report and stop (every further write would wait)
					oo.Printf("L%s\tkind=%s verdict=%s reply=%s nrep=%d changed=%d probe=stuck err=-\n", id, kind, verdict, obs.reply, obs.nrep, obs.changed)
					oo.Printf("END\tvectors=%d stuck=L%s\n", i+1, id)
					flushAll()
					fmt.Fprintf(jf, "STUCK\tL%s\n", id)
					os.Exit(5)
				}
			}
			probe = "ok"
			if pobs.reply != "ok" || len(ln.lastReps) != 1 || ln.lastReps[0].n != probeN {
				probe = fmt.Sprintf("bad-reply:%s:%d!=%d", pobs.reply, firstN(ln.lastReps), probeN)
			} else {
				for _, k := range diffDump(after, pafter) {
					if !bytes.Contains(k, []byte("probe")) {
						probe = "leak:" + hx.H(k)
						break
					}
				}
			}
		}
		et := obs.errText
		if len(et) > 80 {
			et = et[:80]
		}
		oo.Printf("L%s\tkind=%s verdict=%s reply=%s nrep=%d changed=%d probe=%s err=%s", id, kind, verdict, obs.reply, obs.nrep, obs.changed, probe, hx.H([]byte(et)))
		if *replay != "" && len(obs.reps) > 0 {
			oo.Printf(" text=%q", trunc(obs.reps[0].text, 200))
		}
		oo.Printf("\n")

		step("sandbox:" + id)
		// sandbox: the vector as an apply-side request, both encodings
		for form := 1; form <= 2; form++ {
			var rq applyReq
			if form == 1 {
				var ok bool
				rq, ok = toApplyForm(v.args, false)
				if !ok {
					rq = applyReq{dtype: node.RedisReq, args: v.args}
				}
			} else {
				rq = applyReq{dtype: node.RedisV2Req, args: v.args}
			}
			co.Printf("A%s.%d\tA\t%d\t%s\t%s\n", id, form, form, encL(rq.args), floatTable(rq.args))
			if sandLast == nil {
				d0 := dumpStore(sand.st.RockDB)
				sandLast = &d0
			}
			sbefore := *sandLast
			ats := nextTs()
			// the pre-check that lets a batchable write join the open batch (isValidBatchableWrite), on the
			// command as ApplyRaftRequest sees it; B case for the model, and below: passed => no error
			preOK := false
			if form == 1 && len(rq.args) > 0 {
				bn := strings.ToLower(string(rq.args[0]))
				if rockredis.IsBatchableWrite(bn) {
					preOK = node.VerifIsValidBatchableWrite(bn, rq.args, ats)
					co.Printf("B%s\tB\t%d\t%s\n", id, ats/1000000000, encL(rq.args))
					if preOK {
						io.Printf("B%s\t1\n", id)
					} else {
						io.Printf("B%s\t0\n", id)
					}
				}
			}
			res := sand.applyEntries([][]applyReq{{rq}}, ats)
			out := "nopanic"
			rs := "none"
			if res.panicked {
				out = "panic"
			} else if res.hung {
				out = "hung"
			} else {
				rs = res.rsp[0]
			}
			etx := "-"
			if rs == "err" {
				etx = hx.H([]byte(trunc(res.etxt[0], 48)))
			}
			io.Printf("A%s.%d\t%s %s %s\n", id, form, out, rs, etx)
			if rs == "err" && preOK {
				// the batch pre-check promised that the handler's own argument checks pass: an error now would
				// abort a shared batch and take the neighbours' writes and replies with it
				oo.Printf("A%s.%d\tsandbox=precheck-passed-but-error verdict=%s err=%s\n", id, form, verdict, hx.H([]byte(trunc(res.etxt[0], 80))))
			}
			sandLast = nil
			if !res.panicked && !res.hung {
				d1 := dumpStore(sand.st.RockDB)
				sandLast = &d1
			}
			if rs == "err" {
				// an erroring request must leave the committed state alone and nothing in the shared
				// batch: the next successful write (health probe) must change its own keys only
				safter := *sandLast
				if d := diffDump(sbefore, safter); len(d) > 0 {
					oo.Printf("A%s.%d\tsandbox=error-changed verdict=%s n=%d key=%s err=%s\n", id, form, verdict, len(d), hx.H(d[0]), hx.H([]byte(trunc(res.etxt[0], 80))))
				} else {
					h := sand.applyEntries([][]applyReq{{{dtype: node.RedisReq, args: bb([]string{"set", "probe:s", id})}}}, nextTs())
					if !h.panicked && !h.hung {
						d2 := dumpStore(sand.st.RockDB)
						sandLast = &d2
						for _, k := range diffDump(safter, d2) {
							if !bytes.Contains(k, []byte("probe")) {
								oo.Printf("A%s.%d\tsandbox=leak verdict=%s key=%s err=%s\n", id, form, verdict, hx.H(k), hx.H([]byte(trunc(res.etxt[0], 80))))
								break
							}
						}
					}
				}
			}
			if res.panicked || res.hung {
				oo.Printf("A%s.%d\tsandbox=%s verdict=%s msg=%s\n", id, form, out, verdict, hx.H([]byte(trunc(res.pmsg, 120))))
			}
			if res.hung {
				// the apply goroutine is still running (and may be allocating without bound): stop here
				oo.Printf("END\tvectors=%d hung=A%s.%d\n", i+1, id, form)
				flushAll()
				fmt.Fprintf(jf, "HUNG\tA%s.%d\n", id, form)
				os.Exit(4)
			}
			if res.panicked {
				// a panic may have left locks held or a batch open: keep the sandbox only if it still works
				h := sand.applyEntries([][]applyReq{{{dtype: node.RedisReq, args: bb([]string{"set", "t:health", "1"})}}}, nextTs())
				sandLast = nil
				if h.panicked || h.hung || h.rsp[0] != "ok" {
					old := sand
					if ns, err := newSimSM("sand", *engName, *policy); err == nil {
						sand = ns
						if !h.hung {
							go old.close() // may wait for a leaked engine lock
						}
					}
				}
			}
		}

		if !tsBound && r.Pick(40) == 0 {
			jumpTs()
		}
		step("pair:" + id)
		// replica pair: only what the leader really accepted
		if verdict == "prop" && ra.name != "dead" && name != "geoadd" {
			if rq, ok := toApplyForm(v.args, !tsBound && len(queue)%3 == 2); ok {
				queue = append(queue, pend{id, rq, tsBound || v.mut == "ttl-boundary"})
			}
		}
		if tsBound || len(queue) >= flushAt {
			flushPair()
			flushAt = 1 + r.Pick(6)
		}
	}
	co.mute, io.mute = false, false
	flushPair()
	oo.Printf("END\tvectors=%d stalls=%d untemplated=%s\n", len(vecs), stalls, strings.Join(untemplated, ","))
	fmt.Fprintf(jf, "END\n")
	jf.Close()
}

type outF struct {
	f    *os.File
	w    *bufio.Writer
	mute bool // lines of the current vector are not written (vectors too large for the extracted model)
}

func createOut(path string) *outF {
	f, err := os.Create(path)
	if err != nil {
		panic(err)
	}
	return &outF{f: f, w: bufio.NewWriterSize(f, 1<<20)}
}
func (o *outF) Printf(format string, a ...interface{}) {
	if !o.mute {
		fmt.Fprintf(o.w, format, a...)
	}
}
func (o *outF) Flush() { o.w.Flush() }
func (o *outF) Close() { o.w.Flush(); o.f.Close() }

// dangerClass recognises the input classes of known findings that take the process down
// (used only with -avoid, i.e. while the finding is open).
func dangerClass(name string, args [][]byte) string {
	if strings.HasPrefix(name, "json.") {
		for _, a := range args[1:] {
			for _, comp := range bytes.Split(a, []byte(".")) {
				if len(comp) >= 6 && len(comp) <= 40 && allDigits(comp) {
					return "json-huge-index"
				}
			}
		}
	}
	if common.IsMergeScanCommand(name) {
		for i := 1; i+1 < len(args); i++ {
			if strings.ToLower(string(args[i])) == "count" {
				if n, err := strconv.Atoi(string(args[i+1])); err == nil && n < 0 {
					return "scan-negative-count"
				}
			}
		}
	}
	return ""
}

func allDigits(b []byte) bool {
	for _, c := range b {
		if c < '0' || c > '9' {
			return false
		}
	}
	return len(b) > 0
}

func firstN(r []reply) int64 {
	if len(r) == 0 {
		return -1
	}
	return r[0].n
}

func trunc2(b []byte, n int) []byte {
	if len(b) > n {
		return b[:n]
	}
	return b
}

func trunc(s string, n int) string {
	if len(s) > n {
		return s[:n]
	}
	return s
}
