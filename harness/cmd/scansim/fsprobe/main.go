// fsprobe: throw-away probe of FULLSCAN (rockredis/fullscan.go) through the node's merge handler.
package main

import (
	"fmt"
	"os"

	"github.com/youzan/ZanRedisDB/common"
	"verif/harness/internal/smx"
)

func b(s string) []byte { return []byte(s) }

func main() {
	smx.Quiet()
	eng := "mem"
	if len(os.Args) > 1 {
		eng = os.Args[1]
	}
	sm, err := smx.Open(eng, "local")
	if err != nil {
		panic(err)
	}
	defer sm.Close()
	var reqs []smx.Req
	for i := 0; i < 12; i++ {
		k := fmt.Sprintf("t:k%02d", i)
		reqs = append(reqs, smx.Req{Args: [][]byte{b("set"), b(k), b("v")}, Ts: 1})
		reqs = append(reqs, smx.Req{Args: [][]byte{b("hset"), b(k), b("f1"), b("v")}, Ts: 1})
		reqs = append(reqs, smx.Req{Args: [][]byte{b("hset"), b(k), b("f2"), b("v")}, Ts: 1})
		reqs = append(reqs, smx.Req{Args: [][]byte{b("sadd"), b(k), b("m1"), b("m2"), b("m3")}, Ts: 1})
	}
	reqs = append(reqs, smx.Req{Args: [][]byte{b("set"), b("t:zz9"), b("v")}, Ts: 1})
	reqs = append(reqs, smx.Req{Args: [][]byte{b("set"), b("t2:a"), b("v")}, Ts: 1})
	reqs = append(reqs, smx.Req{Args: [][]byte{b("set"), b("t;:a"), b("v")}, Ts: 1})
	fmt.Println(sm.Apply(smx.OnePerCall, reqs)[:3])
	h, _, _ := sm.RN.GetMergeHandler("fullscan")
	run := func(typ string, extra ...string) {
		cur := ""
		for it := 0; it < 40; it++ {
			args := [][]byte{b("fullscan"), b("ns:t:" + cur), b(typ)}
			for _, e := range extra {
				args = append(args, b(e))
			}
			res, err := h(common.BuildCommand(args))
			fr, ok := res.(*common.FullScanResult)
			if err != nil || !ok {
				fmt.Println(typ, extra, "err", err)
				return
			}
			var keys []string
			n := 0
			for _, r := range fr.Results {
				rr := r.([]interface{})
				keys = append(keys, string(rr[0].([]byte)))
				n += len(rr) - 1
			}
			fmt.Printf("%s %v it=%d next=%q keys=%q elems=%d\n", typ, extra, it, fr.NextCursor, keys, n)
			cur = string(fr.NextCursor)
			if cur == "" {
				break
			}
		}
	}
	run("kv", "count", "5")
	run("kv", "count", "5", "match", "*zz*")
	run("kv", "count", "5", "match", "*k1*")
	run("hash", "count", "5")
	run("set", "count", "4")
	run("set", "count", "4", "match", "k1*")
}
