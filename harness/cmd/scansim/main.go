// scansim — C13 harness: cursor scans on the REAL code.
//
// A store is populated through a real node.StateMachine (package smx: ApplyRaftRequest, production
// batching/handlers); then SCAN/ADVSCAN (+REV) are iterated through the node's merge handlers and
// HSCAN/SSCAN/ZSCAN (+REV) through the production read handlers, feeding every returned cursor back
// until the empty cursor (the cursor is re-wrapped as "table:cursor" exactly as
// server/scan_merge.go decodeScanCursor does for one partition). Optionally (-srv) the same
// iteration runs against a live in-process multi-partition server over the redis protocol.
//
//	cases.tsv (tab separated, first field = id; also the model's stdin):
//	  s<k>.t.<type>  T <type> <rawkeys HL>                       keys "table:key" of that type in the store
//	  s<k>.c<j>      C <h|s|z> <table> <verkey> <rawkey> <elems HL>   one collection and its element names
//	  s<k>.p         P <engine> <policy> <engine keys HL>        full engine key dump, in engine order
//	  s<k>.r<n>      R K <storetype> <rev> <rawcursor>  |  R E <h|s|z> <rev> <table> <verkey> <cursor>   range builders
//	  s<k>.k<n>      K <scan|advscan> <type> <rev> <table> <start> <count> <match>    (count 0 = no COUNT argument)
//	  s<k>.e<n>      E <h|s|z> <rev> <table> <verkey> <rawkey> <start> <count> <match>
//	  s<k>.f<n>      F <type> <table> <count> <match>                 FULLSCAN, modelled (local-deletion policy, or KV)
//	  s<k>.f<n>      G <type> <table> <count> <match>                 FULLSCAN under the compact policy (implx.out, direct oracle only)
//	                 a page prints as next>key=elem+elem,key=elem ; KV values and list elements print as "-"
//	  q.<eng>        Q <engine> <elements HL> <patterns HL>   concurrent leg (-conc ms): overlapping iterations with different
//	                 MATCH patterns; implx.out: iterations=<n> bad=<n> <first failing iterations>; only bad is judged
//	  v<k>.w         W <nparts> <rawkeys HL> <decoy rawkeys HL> <partition of each rawkey> <partition of each decoy>
//	                 live server: KV+HASH keys written (same names); KV-only decoys in tables t2, t;
//	  v<k>.s<n>      S <scan|advscan> <type> <rev> <table> <start> <count> <match> <nparts>
//	impl.out: <id> TAB <output>
//	  T/C: missing=<n> [exists=<0|1>]; P: n=<#keys> sorted=<0|1>; R: <min> <max> | err
//	  K/E: calls=<n> [NONTERM] | <next>><items> | ...     (hex, "-" = empty string)
//	  v<k>.s<n>x     X <table> <cursor texts HL>      the cursor texts the server returned in that iteration (written by the run)
//	                 output: dec=<per text: pid:cursor,... in text order> enc=<the texts>; the model decodes each text
//	                 with its own base64/decimal/split functions and re-encodes the result
//	  S  : [NONTERM |err ]calls=<n> set=<sorted items> perpart=<ok|unordered> cursors=<per request: pid:cursor,... sorted by pid>
//	       (the cursor text itself and the cross-partition order of a page are not compared)
package main

import (
	"bufio"
	"bytes"
	"encoding/base64"
	"flag"
	"fmt"
	"net"
	"os"
	"path/filepath"
	"runtime"
	"sort"
	"strconv"
	"strings"
	"sync"
	"time"

	"github.com/siddontang/goredis"
	"github.com/youzan/ZanRedisDB/common"
	"github.com/youzan/ZanRedisDB/node"
	"github.com/youzan/ZanRedisDB/rockredis"
	"verif/harness/internal/hx"
	"verif/harness/internal/smx"
	"verif/harness/internal/srv"
)

var (
	seed    = flag.Int64("seed", 1, "seed")
	nstores = flag.Int("stores", 12, "number of generated stores")
	percase = flag.Int("cases", 60, "scan cases per store (about)")
	engines = flag.String("engines", "mem,pebble", "engines, comma separated")
	nsrv    = flag.Int("srv", 0, "number of live-server scenarios")
	outDir  = flag.String("out", ".", "output directory")
	doC     = flag.Bool("consts", false, "print Consts.v")
	replay  = flag.String("replay", "", "cases.tsv to re-run instead of generating")
	port    = flag.Int("port", 38000, "port base for the in-process server")
	big     = flag.Int("big", 0, "add one store with that many KV keys and COUNT values around MAX_BATCH_NUM")
	srvbig  = flag.Int("srvbig", 0, "add one live 2-partition server scenario with that many KV keys in one table and COUNT around and above MAX_BATCH_NUM")
	conc    = flag.Int("conc", 0, "concurrent leg: that many milliseconds per engine of overlapping iterations with different MATCH patterns")
	longrun = flag.Int("longrun", 0, "add a store with that many KV keys of which only 4 match the pattern (runs of > MAX_BATCH_NUM non-matching keys); first engine only unless -longrunall")
	longall = flag.Bool("longrunall", false, "run the -longrun store on every engine of -engines")
	exh     = flag.Int("exh", 0, "add the exhaustive small scope: every subset of a pool of that many names (max 10) as a collection / as the keys of a table, every COUNT in 1..3, both directions, every start cursor of the pool")
)

func consts() {
	c := rockredis.VerifConsts()
	s := rockredis.VerifScanConsts()
	fmt.Println("(* GENERATED by harness/cmd/scansim -consts from /repo; do not edit *)")
	fmt.Println("From Coq Require Import NArith List.")
	fmt.Println("Import ListNotations.")
	fmt.Println("Open Scope N_scope.")
	for _, k := range []string{"kv_type", "hash_type", "hsize_type", "list_type", "lmeta_type", "set_type", "ssize_type",
		"zset_type", "zsize_type", "zscore_type", "bitmap_type", "bitmap_meta_type", "table_start_sep", "coll_start_sep", "max_key_size"} {
		fmt.Printf("Definition %s : N := %d.\n", k, c[k])
	}
	fmt.Printf("Definition key_sep : N := %d.\n", common.KEYSEP)
	if len(common.SCAN_NODE_SEP) != 1 || len(common.SCAN_CURSOR_SEP) != 1 {
		panic("scan separators are no longer single bytes: the model of the merged cursor text must be revised")
	}
	fmt.Printf("Definition scan_node_sep : N := %d.\n", common.SCAN_NODE_SEP[0])
	fmt.Printf("Definition scan_cursor_sep : N := %d.\n", common.SCAN_CURSOR_SEP[0])
	mp := rockredis.VerifMetaPrefix()
	p := make([]string, len(mp))
	for i, b := range mp {
		p[i] = strconv.Itoa(int(b))
	}
	fmt.Printf("Definition meta_prefix : list N := [%s].\n", strings.Join(p, "; "))
	fmt.Printf("Definition list_min_seq : N := %d.\n", c["list_min_seq"])
	fmt.Printf("Definition default_scan_count : N := %d.\n", s["default_scan_count"])
	fmt.Printf("Definition max_batch_num : N := %d.\n", s["max_batch_num"])
	fmt.Printf("Definition node_max_batch_num : N := %d.\n", common.MAX_BATCH_NUM)
}

// outw is a buffered line writer with an explicit Flush (outputs are flushed before a server starts:
// a failed bind ends the process inside the server code).
type outw struct {
	f *os.File
	w *bufio.Writer
}

func createOut(path string) *outw {
	f, err := os.Create(path)
	if err != nil {
		panic(err)
	}
	return &outw{f, bufio.NewWriterSize(f, 1<<20)}
}
func (o *outw) Printf(format string, a ...interface{}) { fmt.Fprintf(o.w, format, a...) }
func (o *outw) Flush()                                 { o.w.Flush() }
func (o *outw) Close()                                 { o.w.Flush(); o.f.Close() }

// ---------- case lines ----------

type line struct {
	id   string
	kind string
	f    []string
}

func (l line) String() string { return l.id + "\t" + l.kind + "\t" + strings.Join(l.f, "\t") }

var typeNames = []string{"kv", "hash", "list", "set", "zset"}

func commonType(t string) common.DataType {
	switch t {
	case "kv":
		return common.KV
	case "hash":
		return common.HASH
	case "list":
		return common.LIST
	case "set":
		return common.SET
	case "zset":
		return common.ZSET
	}
	return common.NONE
}

func collType(c string) (byte, string, string) { // element type byte, scan command, type name
	switch c {
	case "h":
		return rockredis.HashType, "hscan", "hash"
	case "s":
		return rockredis.SetType, "sscan", "set"
	default:
		return rockredis.ZSetType, "zscan", "zset"
	}
}

// ---------- generation ----------

var fixedNames = []string{"a", "ab", "abc", "b", "ba", "a:", "a:b", ":", "::", ":a", ";", "9", "\x00", "a\x00", "\x00a",
	"\xff", "\xff\xff", "a\xff", "meta", "meta:", "12345678", "123456789", "1234567890abcdefg", "1234567", "12345678:",
	"a;", "a9", "coll", "col", "coll:", "coll2", "k1", "k10", "k2", "z",
	// names that collide with cursor sentinels / cursor syntax of redis and of the merged cursor text
	"0", "-", "+", "(", "[", "-1", "-10", "00", "0:", "1:MA==;", "MA==", "MDpPZz09Ow==", "t", "tab", "k", "t:", "tab:a", "k:k"}

func genName(r *hx.Rng) []byte {
	if r.Chance(0.7) {
		return []byte(fixedNames[r.Pick(len(fixedNames))])
	}
	return r.Bytes(1+r.Pick(4), []byte("ab:;9\x00\xff1"))
}

func genNames(r *hx.Rng, n int) [][]byte {
	seen := map[string]bool{}
	var out [][]byte
	for tries := 0; len(out) < n && tries < 4*n+8; tries++ {
		x := genName(r)
		if !seen[string(x)] {
			seen[string(x)] = true
			out = append(out, x)
		}
	}
	return out
}

var frags = []string{"a", "b", "ab", ":", "1234", "9", ";", "meta", "k1", "coll", "z", "12345678"}

// glob patterns over literal ASCII fragments, '*' and '?' only
func genPattern(r *hx.Rng, prefix string) []byte {
	f := func() string { return frags[r.Pick(len(frags))] }
	var p string
	switch r.Pick(10) {
	case 0:
		p = "*"
	case 1:
		p = f() + "*"
	case 2:
		p = "*" + f()
	case 3:
		p = "*" + f() + "*"
	case 4:
		// not lit*lit: gobwas/glob's prefix-suffix matcher accepts overlapping prefix and suffix ("a*a" matches "a")
		p = "*" + f() + "*" + f() + "*"
	case 5:
		p = "?*"
	case 6:
		p = f() + "?"
	case 7:
		p = "??"
	case 8:
		p = f()
	default:
		p = "*" + f() + "?*"
	}
	ascii := true
	for i := 0; i < len(prefix); i++ {
		if prefix[i] >= 0x80 || prefix[i] == 0 {
			ascii = false
		}
	}
	if prefix != "" {
		if ascii && r.Chance(0.75) {
			p = prefix + p
		} else if !strings.HasPrefix(p, "*") {
			p = "*" + p
		}
	}
	return []byte(p)
}

type collection struct {
	ctype  string
	raw    []byte
	elems  [][]byte
	table  []byte
	verkey []byte
}

type storeDef struct {
	id     string
	eng    string
	policy string
	keys   map[string][][]byte
	colls  []*collection
}

var mainTables = []string{"t", "tab", "k", "meta", "t9"}

func decoyTables(t string) []string {
	succ := t[:len(t)-1] + string(t[len(t)-1]+1)
	if strings.IndexByte(succ, ':') >= 0 { // a table name never contains the separator
		succ = t + "\x00"
	}
	return []string{t + "2", t + "9", t + ";", t + t, succ, "s", t + "\xff", "0" + t}
}

func genStore(r *hx.Rng, id string, eng string) (*storeDef, string) {
	st := &storeDef{id: id, eng: eng, policy: "local", keys: map[string][][]byte{}}
	if r.Chance(0.3) {
		st.policy = "compact"
	}
	table := mainTables[r.Pick(len(mainTables))]
	dec := decoyTables(table)
	for _, tn := range typeNames {
		var l [][]byte
		nmain := r.Pick(13)
		if r.Chance(0.15) {
			nmain = 0
		}
		for _, nm := range genNames(r, nmain) {
			l = append(l, append([]byte(table+":"), nm...))
		}
		for _, d := range dec {
			if r.Chance(0.45) {
				for _, nm := range genNames(r, 1+r.Pick(3)) {
					l = append(l, append([]byte(d+":"), nm...))
				}
			}
		}
		st.keys[tn] = l
	}
	// collections: every hash/set/zset key is a collection; a few get many elements
	for _, ct := range []string{"h", "s", "z"} {
		_, _, tn := collType(ct)
		for _, raw := range st.keys[tn] {
			c := &collection{ctype: ct, raw: raw}
			if bytes.HasPrefix(raw, []byte(table+":")) && r.Chance(0.4) {
				c.elems = genNames(r, 1+r.Pick(14))
			} else {
				c.elems = genNames(r, 1+r.Pick(2))
			}
			st.colls = append(st.colls, c)
		}
	}
	return st, table
}

// ---------- running a store ----------

type storeRT struct {
	def *storeDef
	sm  *smx.SM
	// outx: observables that only the direct oracle judges (FULLSCAN is not modelled)
	outx *outw
	// twin: rocksdb iterates with prefix_same_as_start, so a whole-store dump is not available from
	// it; the same writes go to a mem store through the same state machine code and the engine key
	// dump is taken there
	twin *smx.SM
	out *outw
	cs  *outw
}

func b(s string) []byte { return []byte(s) }

func zscore(i int) string { return strconv.Itoa(i + 1) }

func (rt *storeRT) populate() error {
	var reqs []smx.Req
	ts := int64(1000)
	add := func(args ...[]byte) { reqs = append(reqs, smx.Req{Args: args, Ts: ts}) }
	for _, k := range rt.def.keys["kv"] {
		add(b("set"), k, append(b("v"), k...))
	}
	for _, k := range rt.def.keys["list"] {
		add(b("rpush"), k, b("x"))
	}
	for _, c := range rt.def.colls {
		for i, e := range c.elems {
			switch c.ctype {
			case "h":
				add(b("hset"), c.raw, e, append(b("v"), e...))
			case "s":
				add(b("sadd"), c.raw, e)
			default:
				add(b("zadd"), c.raw, b(zscore(i)), e)
			}
		}
	}
	res := rt.sm.Apply(smx.OnePerCall, reqs)
	if rt.twin != nil {
		rt.twin.Apply(smx.OnePerCall, reqs)
	}
	for i, x := range res {
		if x == "-err" || x == "panic" || x == "noreply" {
			return fmt.Errorf("write %q failed: %s", reqs[i].Args, x)
		}
	}
	for _, c := range rt.def.colls {
		dt, _, _ := collType(c.ctype)
		info, err := rt.sm.Store.GetCollVersionKey(ts, dt, c.raw, true)
		if err != nil {
			return err
		}
		c.table = info.Table
		c.verkey = info.VerKey
	}
	return nil
}

func (rt *storeRT) emit(l line, out string) {
	rt.cs.Printf("%s\n", l.String())
	rt.out.Printf("%s\t%s\n", l.id, out)
}

func sizeType(tn string) byte {
	switch tn {
	case "kv":
		return rockredis.KVType
	case "hash":
		return rockredis.HSizeType
	case "list":
		return rockredis.LMetaType
	case "set":
		return rockredis.SSizeType
	default:
		return rockredis.ZSizeType
	}
}

// header lines T, C, P with the implementation's own encoders
func (rt *storeRT) header() {
	dump := rt.sm.RawDump()
	if rt.twin != nil {
		dump = rt.twin.RawDump()
	}
	var keys [][]byte
	inDump := map[string]bool{}
	for _, kv := range dump {
		h := kv[:strings.IndexByte(kv, '=')]
		k := hx.UnH(h)
		keys = append(keys, k)
		inDump[string(k)] = true
	}
	for _, tn := range typeNames {
		missing := 0
		for _, raw := range rt.def.keys[tn] {
			ek, err := rockredis.VerifEncodeMetaKey(sizeType(tn), raw)
			if err != nil || !inDump[string(ek)] {
				missing++
			}
		}
		rt.emit(line{rt.def.id + ".t." + tn, "T", []string{tn, hx.HL(rt.def.keys[tn])}}, fmt.Sprintf("missing=%d", missing))
	}
	for j, c := range rt.def.colls {
		dt, _, tn := collType(c.ctype)
		missing := 0
		for _, e := range c.elems {
			if !inDump[string(rockredis.VerifEncodeCollSubKey(dt, c.table, c.verkey, e))] {
				missing++
			}
		}
		ex := 0
		if sk, err := rockredis.VerifEncodeMetaKey(sizeType(tn), c.raw); err == nil && inDump[string(sk)] {
			ex = 1
		}
		rt.emit(line{fmt.Sprintf("%s.c%d", rt.def.id, j), "C", []string{c.ctype, hx.H(c.table), hx.H(c.verkey), hx.H(c.raw), hx.HL(c.elems)}},
			fmt.Sprintf("missing=%d exists=%d", missing, ex))
	}
	sorted := 1
	for i := 1; i < len(keys); i++ {
		if bytes.Compare(keys[i-1], keys[i]) >= 0 {
			sorted = 0
		}
	}
	rt.emit(line{rt.def.id + ".p", "P", []string{rt.def.eng, rt.def.policy, hx.HL(keys)}}, fmt.Sprintf("n=%d sorted=%d", len(keys), sorted))
}

func rangeCase(f []string) string {
	rev := f[2] == "1"
	var mn, mx []byte
	var err error
	msg, p := hx.Recover(func() {
		if f[0] == "K" {
			t, _ := strconv.Atoi(f[1])
			mn, mx, err = rockredis.VerifBuildScanKeyRange(byte(t), hx.UnH(f[3]), rev)
		} else {
			dt, _, _ := collType(f[1])
			mn, mx, err = rockredis.VerifBuildSpecificDataScanKeyRange(dt, hx.UnH(f[3]), hx.UnH(f[4]), hx.UnH(f[5]), rev)
		}
	})
	_ = msg
	if p {
		return "panic"
	}
	if err != nil {
		return "err"
	}
	return hx.H(mn) + " " + hx.H(mx)
}

func pageStr(next []byte, items [][]byte) string { return hx.H(next) + ">" + hx.HL(items) }

// keyScan iterates SCAN/ADVSCAN (+REV) through the node's merge handlers.
func (rt *storeRT) keyScan(f []string, bound int) string {
	cmdName, typ, rev := f[0], f[1], f[2] == "1"
	table, start := hx.UnH(f[3]), hx.UnH(f[4])
	count, _ := strconv.Atoi(f[5])
	match := hx.UnH(f[6])
	name := cmdName
	if rev {
		name = map[string]string{"scan": "revscan", "advscan": "advrevscan"}[cmdName]
	}
	h, _, ok := rt.sm.RN.GetMergeHandler(name)
	if !ok {
		return "nohandler"
	}
	cursor := start
	var pages []string
	calls := 0
	for {
		if calls >= bound {
			return fmt.Sprintf("calls=%d NONTERM | %s", calls, strings.Join(pages, " | "))
		}
		args := [][]byte{b(name), append(append(b(smx.NS+":"), append(append([]byte{}, table...), ':')...), cursor...)}
		if cmdName == "advscan" {
			args = append(args, b(strings.ToUpper(typ)))
		}
		if len(match) > 0 {
			args = append(args, b("match"), match)
		}
		if count != 0 {
			args = append(args, b("count"), b(strconv.Itoa(count)))
		}
		var res interface{}
		var err error
		_, p := hx.Recover(func() { res, err = h(common.BuildCommand(args)) })
		calls++
		if p {
			pages = append(pages, "panic")
			break
		}
		sr, isSR := res.(*common.ScanResult)
		if err != nil || !isSR || sr == nil || sr.Error != nil {
			pages = append(pages, "err")
			break
		}
		pages = append(pages, pageStr(sr.NextCursor, sr.Keys))
		if len(sr.NextCursor) == 0 {
			break
		}
		// what server/scan_merge.go decodeScanCursor builds for the next request: table ':' cursor
		cursor = append([]byte{}, sr.NextCursor...)
	}
	return fmt.Sprintf("calls=%d | %s", calls, strings.Join(pages, " | "))
}

// fullScan iterates FULLSCAN through the node's merge handler (not modelled: judged by the direct oracle only).
// A page prints as next>key=elem+elem,key=elem (hex).
func (rt *storeRT) fullScan(f []string, bound int) string {
	typ, table := f[0], hx.UnH(f[1])
	count, _ := strconv.Atoi(f[2])
	match := hx.UnH(f[3])
	h, _, ok := rt.sm.RN.GetMergeHandler("fullscan")
	if !ok {
		return "nohandler"
	}
	var cursor []byte
	var pages []string
	calls := 0
	valbad := ""
	for {
		if calls >= bound {
			return fmt.Sprintf("calls=%d NONTERM | %s", calls, strings.Join(pages, " | "))
		}
		args := [][]byte{b("fullscan"), append(append(b(smx.NS+":"), append(append([]byte{}, table...), ':')...), cursor...), b(strings.ToUpper(typ))}
		if len(match) > 0 {
			args = append(args, b("match"), match)
		}
		if count != 0 {
			args = append(args, b("count"), b(strconv.Itoa(count)))
		}
		var res interface{}
		var err error
		_, p := hx.Recover(func() { res, err = h(common.BuildCommand(args)) })
		calls++
		if p {
			pages = append(pages, "panic")
			break
		}
		fr, isFR := res.(*common.FullScanResult)
		if err != nil || !isFR || fr == nil || fr.Error != nil {
			pages = append(pages, "err")
			break
		}
		var groups []string
		for _, r := range fr.Results {
			rr, _ := r.([]interface{})
			if len(rr) == 0 {
				continue
			}
			key, _ := rr[0].([]byte)
			var es []string
			for _, it := range rr[1:] {
				switch v := it.(type) {
				case []byte:
					// a KV value or a list element: the value is checked here, the page shows "-"
					want := "x"
					if typ == "kv" {
						want = "v" + string(key)
					}
					if typ == "kv" || typ == "list" {
						if string(v) != want {
							valbad = " VALBAD"
						}
						es = append(es, "-")
					} else {
						es = append(es, hx.H(v))
					}
				case common.FieldPair:
					es = append(es, hx.H(v.Field))
				case common.ScorePair:
					es = append(es, hx.H(v.Member))
				default:
					es = append(es, "?")
				}
			}
			groups = append(groups, hx.H(key)+"="+strings.Join(es, "+"))
		}
		pages = append(pages, hx.H(fr.NextCursor)+">"+strings.Join(groups, ","))
		if len(fr.NextCursor) == 0 {
			break
		}
		cursor = append([]byte{}, fr.NextCursor...)
	}
	return fmt.Sprintf("calls=%d%s | %s", calls, valbad, strings.Join(pages, " | "))
}

func parseBulk(tok string) ([]byte, bool) {
	if !strings.HasPrefix(tok, "$") {
		return nil, false
	}
	return hx.UnH(tok[1:]), true
}

// collScan iterates HSCAN/SSCAN/ZSCAN (+REV) through the production read handlers.
func (rt *storeRT) collScan(f []string, elems [][]byte, bound int) string {
	ct, rev := f[0], f[1] == "1"
	raw, start := hx.UnH(f[4]), hx.UnH(f[5])
	count, _ := strconv.Atoi(f[6])
	match := hx.UnH(f[7])
	_, name, _ := collType(ct)
	if rev {
		name = name[:1] + "rev" + name[1:]
	}
	want := map[string]string{}
	for i, e := range elems {
		if ct == "h" {
			want[string(e)] = "v" + string(e)
		} else if ct == "z" {
			want[string(e)] = zscore(i)
		}
	}
	cursor := start
	var pages []string
	calls := 0
	valbad := ""
	for {
		if calls >= bound {
			return fmt.Sprintf("calls=%d NONTERM | %s", calls, strings.Join(pages, " | "))
		}
		args := [][]byte{b(name), raw, cursor}
		if len(match) > 0 {
			args = append(args, b("match"), match)
		}
		if count != 0 {
			args = append(args, b("count"), b(strconv.Itoa(count)))
		}
		res := rt.sm.Read(args...)
		calls++
		toks := strings.Split(res, " ")
		if res == "panic" || len(toks) < 3 || toks[0] != "*2" {
			if res == "panic" {
				pages = append(pages, "panic")
			} else {
				pages = append(pages, "err")
			}
			break
		}
		next, ok1 := parseBulk(toks[1])
		n, err := strconv.Atoi(strings.TrimPrefix(toks[2], "*"))
		if !ok1 || err != nil || len(toks) != 3+n {
			pages = append(pages, "malformed")
			break
		}
		var items [][]byte
		step := 2
		if ct == "s" {
			step = 1
		}
		for i := 0; i+step <= n; i += step {
			it, _ := parseBulk(toks[3+i])
			items = append(items, it)
			if step == 2 {
				v, _ := parseBulk(toks[3+i+1])
				if w, known := want[string(it)]; known && w != string(v) {
					valbad = " VALBAD"
				}
			}
		}
		pages = append(pages, pageStr(next, items))
		if len(next) == 0 {
			break
		}
		cursor = next
	}
	return fmt.Sprintf("calls=%d%s | %s", calls, valbad, strings.Join(pages, " | "))
}

func (rt *storeRT) runCase(l line) {
	switch l.kind {
	case "R":
		rt.emit(l, rangeCase(l.f))
	case "K", "KX":
		n := 0
		for _, tn := range typeNames {
			n += len(rt.def.keys[tn])
		}
		if l.kind == "KX" {
			rt.cs.Printf("%s\n", l.String())
			rt.outx.Printf("%s\t%s\n", l.id, rt.keyScan(l.f, n+3))
		} else {
			rt.emit(l, rt.keyScan(l.f, n+3))
		}
	case "F", "G":
		n := 0
		for _, c := range rt.def.colls {
			n += len(c.elems)
		}
		for _, tn := range typeNames {
			n += len(rt.def.keys[tn])
		}
		rt.cs.Printf("%s\n", l.String())
		if l.kind == "F" {
			rt.out.Printf("%s\t%s\n", l.id, rt.fullScan(l.f, n+3))
		} else {
			rt.outx.Printf("%s\t%s\n", l.id, rt.fullScan(l.f, n+3))
		}
	case "E", "EX":
		var elems [][]byte
		n := 0
		for _, c := range rt.def.colls {
			if c.ctype == l.f[0] && bytes.Equal(c.raw, hx.UnH(l.f[4])) {
				elems = c.elems
			}
			n += len(c.elems)
		}
		if l.kind == "EX" {
			rt.cs.Printf("%s\n", l.String())
			rt.outx.Printf("%s\t%s\n", l.id, rt.collScan(l.f, elems, n+3))
		} else {
			rt.emit(l, rt.collScan(l.f, elems, n+3))
		}
	}
}

func counts(r *hx.Rng, n int) []int {
	return []int{1, 2, 3, 5, n, n + 1, 0, 1 + r.Pick(n+2)}
}

// extended patterns: the rest of the syntax gobwas/glob accepts (alternatives, classes, negated classes, the
// super wildcard). The model's matcher does not cover them: such cases are judged by the direct oracle only.
func genExtPattern(r *hx.Rng, prefix string) []byte {
	alts := [][]string{{"a", "b"}, {"a", "ab", "coll"}, {"k1", "k2"}, {"1", "2", "3"}, {"0", "-"}, {"meta", "z"}, {"a", "9", ";"}}
	a := "{" + strings.Join(alts[r.Pick(len(alts))], ",") + "}"
	var p string
	switch r.Pick(9) {
	case 0:
		p = a
	case 1:
		p = a + "*"
	case 2:
		p = "*" + a
	case 3:
		p = "*" + a + "*"
	case 4:
		p = "[!a]*"
	case 5:
		p = "[ab]*"
	case 6:
		p = "**"
	case 7:
		p = "*[!0-9]"
	default:
		p = "[a-k]" + a + "*"
	}
	ascii := true
	for i := 0; i < len(prefix); i++ {
		if prefix[i] >= 0x80 || prefix[i] == 0 {
			ascii = false
		}
	}
	if prefix != "" {
		if ascii {
			p = prefix + p
		} else {
			p = "*" + p
		}
	}
	return []byte(p)
}

func genStart(r *hx.Rng, names [][]byte, rev bool) []byte {
	if len(names) > 0 && r.Chance(0.35) {
		x := names[r.Pick(len(names))]
		switch r.Pick(3) {
		case 0:
			return x
		case 1:
			return append(append([]byte{}, x...), 0)
		default:
			if len(x) > 1 {
				return x[:len(x)-1]
			}
			return x
		}
	}
	if rev {
		if r.Chance(0.15) {
			return []byte{}
		}
		return []byte("\xff\xff\xff\xff\xff")
	}
	if r.Chance(0.1) {
		return genName(r)
	}
	return []byte{}
}

func genCases(r *hx.Rng, st *storeDef, table string, n int) []line {
	var out []line
	k := 0
	id := func(p string) string { k++; return fmt.Sprintf("%s.%s%d", st.id, p, k) }
	tables := append([]string{table}, decoyTables(table)...)
	for i := 0; i < n; i++ {
		rev := r.Chance(0.5)
		revs := "0"
		if rev {
			revs = "1"
		}
		if r.Chance(0.5) || len(st.colls) == 0 {
			// key scan
			tn := typeNames[r.Pick(5)]
			cmd := "advscan"
			if tn == "kv" && r.Chance(0.5) {
				cmd = "scan"
			}
			tb := table
			if r.Chance(0.2) {
				tb = tables[r.Pick(len(tables))]
			}
			if st.eng == "rocksdb" && rev && tn == "kv" {
				continue // Debian's librocksdb asserts on the 1-byte lower bound [KVType] (DESIGN 0.1)
			}
			var names [][]byte
			for _, raw := range st.keys[tn] {
				if bytes.HasPrefix(raw, []byte(tb+":")) {
					names = append(names, raw[len(tb)+1:])
				}
			}
			cl := counts(r, len(names))
			cnt := cl[r.Pick(len(cl))]
			if st.eng == "rocksdb" && tn == "kv" && cnt == 0 {
				// rocksdb stops at the 3-byte prefix (= the table for 1-letter tables), the other engines run on
				// into the next table: with the default COUNT the same elements come in 2 calls instead of 1
				cnt = 1 + r.Pick(4)
			}
			var m []byte
			if r.Chance(0.35) {
				m = genPattern(r, tb+":")
			}
			start := genStart(r, names, rev)
			if r.Chance(0.1) {
				out = append(out, line{id("r"), "R", []string{"K", strconv.Itoa(int(sizeType(tn))), revs, hx.H(append([]byte(tb+":"), start...))}})
			}
			kind := "K"
			if r.Chance(0.12) {
				kind, m = "KX", genExtPattern(r, tb+":")
			}
			out = append(out, line{id("k"), kind, []string{cmd, tn, revs, hx.H([]byte(tb)), hx.H(start), strconv.Itoa(cnt), hx.H(m)}})
		} else {
			c := st.colls[r.Pick(len(st.colls))]
			for tries := 0; tries < 3 && len(c.elems) < 3; tries++ {
				c = st.colls[r.Pick(len(st.colls))]
			}
			cl := counts(r, len(c.elems))
			cnt := cl[r.Pick(len(cl))]
			var m []byte
			if r.Chance(0.35) {
				m = genPattern(r, "")
			}
			start := genStart(r, c.elems, rev)
			if r.Chance(0.1) {
				out = append(out, line{id("r"), "R", []string{"E", c.ctype, revs, hx.H(c.table), hx.H(c.verkey), hx.H(start)}})
			}
			raw := c.raw
			if r.Chance(0.05) {
				raw = append(append([]byte{}, raw...), 'q') // a collection that does not exist
			}
			kind := "E"
			if r.Chance(0.12) {
				kind, m = "EX", genExtPattern(r, "")
			}
			out = append(out, line{id("e"), kind, []string{c.ctype, revs, hx.H(c.table), hx.H(c.verkey), hx.H(raw), hx.H(start), strconv.Itoa(cnt), hx.H(m)}})
		}
	}
	{
		for i := 0; i < 1+n/10; i++ {
			tn := typeNames[r.Pick(5)]
			tb := table
			if r.Chance(0.2) {
				tb = tables[r.Pick(len(tables))]
			}
			nk := 0
			for _, raw := range st.keys[tn] {
				if bytes.HasPrefix(raw, []byte(tb+":")) {
					nk++
				}
			}
			cl := counts(r, nk)
			var m []byte
			if r.Chance(0.4) {
				if tn == "kv" {
					m = genPattern(r, tb+":")
				} else {
					m = genPattern(r, "")
				}
			}
			kind := "F" // modelled: local-deletion policy (stored key = key) or KV
			if st.policy != "local" && tn != "kv" {
				kind = "G" // direct oracle only
			}
			if r.Chance(0.15) {
				kind = "G"
				if tn == "kv" {
					m = genExtPattern(r, tb+":")
				} else {
					m = genExtPattern(r, "")
				}
			}
			out = append(out, line{id("f"), kind, []string{tn, hx.H([]byte(tb)), strconv.Itoa(cl[r.Pick(len(cl))]), hx.H(m)}})
		}
	}
	return out
}

func runStore(st *storeDef, casesFn func() []line, cs, out, outx *outw) error {
	sm, err := smx.Open(st.eng, st.policy)
	if err != nil {
		return err
	}
	defer sm.Close()
	rt := &storeRT{def: st, sm: sm, out: out, cs: cs, outx: outx}
	if st.eng == "rocksdb" {
		tw, err := smx.Open("mem", st.policy)
		if err != nil {
			return err
		}
		defer tw.Close()
		rt.twin = tw
	}
	if err := rt.populate(); err != nil {
		return err
	}
	rt.header()
	for _, l := range casesFn() {
		rt.runCase(l)
	}
	return nil
}

// ---------- live server ----------

type srvScenario struct {
	id     string
	nparts int
	table  string
	names  [][]byte
	cases  []line
	// kvOnly: a large table, written with pipelined SETs, no hash keys and no decoy tables
	kvOnly bool
}

// decodeMerged turns the server's cursor text base64("pid:base64(cursor);...") into "pid:hex,pid:hex" sorted by
// partition id (the order of the segments follows Go map order in the server); "-" for the empty cursor,
// "?" if it does not parse.
func decodeMerged(cur string) string {
	if cur == "" {
		return "-"
	}
	raw, err := base64.StdEncoding.DecodeString(cur)
	if err != nil {
		return "?"
	}
	type pc struct {
		p int
		c string
	}
	var l []pc
	for _, seg := range strings.Split(strings.TrimRight(string(raw), ";"), ";") {
		i := strings.IndexByte(seg, ':')
		if i < 0 {
			return "?"
		}
		p, err1 := strconv.Atoi(seg[:i])
		c, err2 := base64.StdEncoding.DecodeString(seg[i+1:])
		if err1 != nil || err2 != nil {
			return "?"
		}
		l = append(l, pc{p, hx.H(c)})
	}
	sort.Slice(l, func(i, j int) bool { return l[i].p < l[j].p })
	out := make([]string, len(l))
	for i, x := range l {
		out[i] = strconv.Itoa(x.p) + ":" + x.c
	}
	return strings.Join(out, ",")
}

// decodeInOrder decodes a cursor text into "pid:hex,..." in the order of the text.
func decodeInOrder(cur string) string {
	raw, err := base64.StdEncoding.DecodeString(cur)
	if err != nil {
		return "?"
	}
	var out []string
	for _, seg := range strings.Split(strings.TrimRight(string(raw), ";"), ";") {
		i := strings.IndexByte(seg, ':')
		if i < 0 {
			return "?"
		}
		p, err1 := strconv.Atoi(seg[:i])
		c, err2 := base64.StdEncoding.DecodeString(seg[i+1:])
		if err1 != nil || err2 != nil {
			return "?"
		}
		out = append(out, strconv.Itoa(p)+":"+hx.H(c))
	}
	return strings.Join(out, ",")
}

func srvIterate(c *goredis.PoolConn, f []string, bound int) (string, []string) {
	cmdName, typ, rev := f[0], f[1], f[2] == "1"
	table, start := hx.UnH(f[3]), hx.UnH(f[4])
	count, _ := strconv.Atoi(f[5])
	match := hx.UnH(f[6])
	nparts, _ := strconv.Atoi(f[7])
	name := cmdName
	if rev {
		name = map[string]string{"scan": "revscan", "advscan": "advrevscan"}[cmdName]
	}
	// first cursor: empty, or the per-partition start cursor in the server's own encoding
	cur := ""
	if len(start) > 0 {
		var bb []byte
		for p := 0; p < nparts; p++ {
			bb = append(bb, []byte(strconv.Itoa(p))...)
			bb = append(bb, ':')
			bb = append(bb, []byte(base64.StdEncoding.EncodeToString(start))...)
			bb = append(bb, ';')
		}
		cur = base64.StdEncoding.EncodeToString(bb)
	}
	var all [][]byte
	var curs []string
	var texts []string
	calls := 0
	state := ""
	for {
		if calls >= bound {
			state = "NONTERM "
			break
		}
		args := []interface{}{"ns:" + string(table) + ":" + cur}
		if cmdName == "advscan" {
			args = append(args, strings.ToUpper(typ))
		}
		if len(match) > 0 {
			args = append(args, "match", string(match))
		}
		if count != 0 {
			args = append(args, "count", count)
		}
		ay, err := goredis.Values(c.Do(name, args...))
		calls++
		if err != nil || len(ay) != 2 {
			state = "err "
			break
		}
		nb, _ := ay[0].([]byte)
		its, _ := ay[1].([]interface{})
		for _, it := range its {
			x, _ := it.([]byte)
			all = append(all, append([]byte{}, x...))
		}
		cur = string(nb)
		curs = append(curs, decodeMerged(cur))
		if cur != "" {
			texts = append(texts, cur)
		}
		if cur == "" {
			break
		}
	}
	// per-partition order: the sub-sequence of each partition must be sorted (reverse sorted)
	per := "ok"
	last := map[int][]byte{}
	for _, x := range all {
		pid := node.GetHashedPartitionID(append([]byte(string(table)+":"), x...), nparts)
		if prev, ok := last[pid]; ok {
			c := bytes.Compare(prev, x)
			if (!rev && c >= 0) || (rev && c <= 0) {
				per = "unordered"
			}
		}
		last[pid] = x
	}
	return fmt.Sprintf("%scalls=%d set=%s perpart=%s cursors=%s", state, calls, hx.HL(smx.SortedCopy(all)), per, strings.Join(curs, "|")), texts
}

// freePorts returns the first base >= start such that base..base+2 can be listened on right now.
func freePorts(start int) int {
	for base := start; base < start+400; base += 4 {
		ok := true
		for p := base; p < base+3; p++ {
			l, err := net.Listen("tcp", ":"+strconv.Itoa(p))
			if err != nil {
				ok = false
				break
			}
			l.Close()
		}
		if ok {
			return base
		}
	}
	return start
}

func runSrv(sc *srvScenario, portBase int, cs, out *outw) error {
	cs.Flush()
	out.Flush()
	inst, err := srv.Start(freePorts(portBase), "ns", sc.nparts, "mem")
	if err != nil {
		return err
	}
	defer inst.Cleanup()
	c, err := inst.Conn()
	if err != nil {
		return err
	}
	defer c.Close()
	var raws [][]byte
	if sc.kvOnly {
		const batch = 200
		for i := 0; i < len(sc.names); i += batch {
			j := i + batch
			if j > len(sc.names) {
				j = len(sc.names)
			}
			for _, nm := range sc.names[i:j] {
				raw := append([]byte(sc.table+":"), nm...)
				raws = append(raws, raw)
				if err := c.Send("set", "ns:"+string(raw), "v"); err != nil {
					return err
				}
			}
			for range sc.names[i:j] {
				if _, err := c.Receive(); err != nil {
					return err
				}
			}
		}
	}
	for _, nm := range sc.names {
		if sc.kvOnly {
			break
		}
		raw := append([]byte(sc.table+":"), nm...)
		raws = append(raws, raw)
		if _, err := c.Do("set", "ns:"+string(raw), "v"); err != nil {
			return err
		}
		if _, err := c.Do("hset", "ns:"+string(raw), "f", "v"); err != nil {
			return err
		}
	}
	// decoy tables (KV only)
	var decoys [][]byte
	decoyNames := sc.names[:len(sc.names)/2]
	if sc.kvOnly {
		decoyNames = sc.names[:3]
	}
	for _, nm := range decoyNames {
		for _, d := range []string{"2:", ";:"} {
			raw := append([]byte(sc.table+d), nm...)
			decoys = append(decoys, raw)
			if _, err := c.Do("set", "ns:"+string(raw), "v"); err != nil {
				return err
			}
		}
	}
	pids := func(l [][]byte) string {
		p := make([]string, len(l))
		for i, raw := range l {
			p[i] = strconv.Itoa(node.GetHashedPartitionID(raw, sc.nparts))
		}
		return strings.Join(p, ",")
	}
	wl := line{sc.id + ".w", "W", []string{strconv.Itoa(sc.nparts), hx.HL(raws), hx.HL(decoys), pids(raws), pids(decoys)}}
	if sc.kvOnly {
		wl.f = append(wl.f, "kvonly")
	}
	cs.Printf("%s\n", wl.String())
	out.Printf("%s\tok\n", wl.id)
	for _, l := range sc.cases {
		cs.Printf("%s\n", l.String())
		res, texts := srvIterate(c, l.f, len(sc.names)+3)
		out.Printf("%s\t%s\n", l.id, res)
		// the cursor texts the server sent (at most 4 per case), for the model's own decoder and encoder
		if len(texts) > 4 {
			texts = texts[:4]
		}
		if len(texts) > 0 {
			var th, dec []string
			for _, t := range texts {
				th = append(th, hx.H([]byte(t)))
				dec = append(dec, decodeInOrder(t))
			}
			xl := line{l.id + "x", "X", []string{l.f[3], strings.Join(th, ",")}}
			cs.Printf("%s\n", xl.String())
			out.Printf("%s\tdec=%s enc=%s\n", xl.id, strings.Join(dec, "|"), strings.Join(th, ","))
		}
	}
	return nil
}

func genSrv(r *hx.Rng, id string) *srvScenario {
	sc := &srvScenario{id: id, nparts: 1 + r.Pick(4), table: mainTables[r.Pick(3)]}
	// names safe for the redis text protocol of the test client and for per-partition hashing
	n := 3 + r.Pick(20)
	seen := map[string]bool{}
	for len(sc.names) < n {
		x := genName(r)
		if !seen[string(x)] {
			seen[string(x)] = true
			sc.names = append(sc.names, x)
		}
	}
	k := 0
	for i := 0; i < 14; i++ {
		k++
		rev := r.Chance(0.4)
		revs, start := "0", []byte{}
		if rev {
			revs, start = "1", []byte("\xff\xff\xff\xff\xff")
		}
		tn := []string{"kv", "hash"}[r.Pick(2)]
		cmd := "advscan"
		if tn == "kv" && r.Chance(0.5) {
			cmd = "scan"
		}
		cl := []int{1, 2, 3, 5, n, n + 1, 0, sc.nparts, 2 * sc.nparts, n * sc.nparts}
		cnt := cl[r.Pick(len(cl))]
		var m []byte
		if r.Chance(0.25) {
			m = genPattern(r, sc.table+":")
		}
		sc.cases = append(sc.cases, line{fmt.Sprintf("%s.s%d", id, k), "S",
			[]string{cmd, tn, revs, hx.H([]byte(sc.table)), hx.H(start), strconv.Itoa(cnt), hx.H(m), strconv.Itoa(sc.nparts)}})
	}
	return sc
}

// exhaustive small scope: all 64 subsets of a pool of 6 prefix/boundary related names
var exhPoolAll = []string{"a", "ab", "b", ":", ";", "\xff", "0", "\x00", "a:", "abc"}

func exhaustive(n int, cs, out, outx *outw) error {
	if n > len(exhPoolAll) {
		n = len(exhPoolAll)
	}
	exhPool := exhPoolAll[:n]
	starts := [][]byte{{}, []byte("\xff\xff")}
	for _, nm := range exhPool {
		starts = append(starts, []byte(nm))
	}
	for mask := 0; mask < 1<<len(exhPool); mask++ {
		var names [][]byte
		for i, nm := range exhPool {
			if mask&(1<<i) != 0 {
				names = append(names, []byte(nm))
			}
		}
		eng := []string{"mem", "pebble"}[mask%2]
		st := &storeDef{id: fmt.Sprintf("x%d", mask), eng: eng, policy: "local", keys: map[string][][]byte{}}
		// the subset as KV keys and as set keys of table t, decoys in the neighbouring tables
		for _, nm := range names {
			st.keys["kv"] = append(st.keys["kv"], append([]byte("t:"), nm...))
			st.keys["set"] = append(st.keys["set"], append([]byte("t:"), nm...))
		}
		for _, dk := range []string{"t2:a", "t;:a", "s:a", "u:a", "t9:\xff"} {
			st.keys["kv"] = append(st.keys["kv"], []byte(dk))
			st.keys["set"] = append(st.keys["set"], []byte(dk))
		}
		// the subset as the fields of hash t:h, decoy collections around it
		st.keys["hash"] = [][]byte{[]byte("t:h"), []byte("t:h2"), []byte("t:g"), []byte("t2:h"), []byte("t:h:")}
		for _, raw := range st.keys["hash"] {
			c := &collection{ctype: "h", raw: raw, elems: [][]byte{[]byte("a"), []byte("zz")}}
			if string(raw) == "t:h" {
				c.elems = names
				if len(names) == 0 {
					continue
				}
			}
			st.colls = append(st.colls, c)
		}
		if len(names) == 0 {
			st.keys["hash"] = st.keys["hash"][1:]
		}
		for _, raw := range st.keys["set"] {
			st.colls = append(st.colls, &collection{ctype: "s", raw: raw, elems: [][]byte{[]byte("m")}})
		}
		gen := func() []line {
			var ls []line
			k := 0
			var hc *collection
			for _, c := range st.colls {
				if c.ctype == "h" && string(c.raw) == "t:h" {
					hc = c
				}
			}
			for cnt := 1; cnt <= 3; cnt++ {
				for _, rev := range []string{"0", "1"} {
					for _, start := range starts {
						for _, cmd := range [][2]string{{"scan", "kv"}, {"advscan", "kv"}, {"advscan", "set"}} {
							k++
							ls = append(ls, line{fmt.Sprintf("%s.k%d", st.id, k), "K", []string{cmd[0], cmd[1], rev, hx.H([]byte("t")), hx.H(start), strconv.Itoa(cnt), "-"}})
						}
						if hc != nil {
							k++
							ls = append(ls, line{fmt.Sprintf("%s.e%d", st.id, k), "E", []string{"h", rev, hx.H(hc.table), hx.H(hc.verkey), hx.H(hc.raw), hx.H(start), strconv.Itoa(cnt), "-"}})
						}
					}
				}
			}
			return ls
		}
		if err := runStore(st, gen, cs, out, outx); err != nil {
			return err
		}
	}
	return nil
}

func genSrvBig(id string, n int) *srvScenario {
	sc := &srvScenario{id: id, nparts: 2, table: "big", kvOnly: true}
	for i := 0; i < n; i++ {
		sc.names = append(sc.names, []byte(fmt.Sprintf("%06d", i)))
	}
	k := 0
	add := func(cmd string, rev string, start []byte, cnt int) {
		k++
		sc.cases = append(sc.cases, line{fmt.Sprintf("%s.s%d", id, k), "S",
			[]string{cmd, "kv", rev, hx.H([]byte(sc.table)), hx.H(start), strconv.Itoa(cnt), "-", strconv.Itoa(sc.nparts)}})
	}
	for i, cnt := range []int{4999, 5000, 5001, 5200, 6000, 12000, 0} {
		add([]string{"scan", "advscan"}[i%2], "0", nil, cnt)
	}
	add("advscan", "0", nil, 10000)
	add("scan", "0", nil, 10001)
	add("advscan", "1", []byte("999999"), 6000)
	add("scan", "1", []byte("999999"), 11000)
	return sc
}

// sentinelStore: one store whose collections and tables hold every sentinel-like name; every COUNT from 1 to
// |P|+1 in both directions, so that each name ends a full page at least once.
var sentinelNames = []string{"0", "-", "+", "(", "[", "-1", "-10", "00", "0:", "1", "1:MA==;", "MA==", "MDpPZz09Ow==", "t", "t:", "t:0", "*", "?"}

func sentinelStore(eng string, cs, out, outx *outw) error {
	st := &storeDef{id: "xs" + eng, eng: eng, policy: "local", keys: map[string][][]byte{}}
	var names [][]byte
	for _, nm := range sentinelNames {
		names = append(names, []byte(nm))
		st.keys["kv"] = append(st.keys["kv"], append([]byte("t:"), nm...))
		st.keys["list"] = append(st.keys["list"], append([]byte("t:"), nm...))
	}
	st.keys["kv"] = append(st.keys["kv"], []byte("0:0"), []byte("t2:0"), []byte("u:0"))
	for _, ct := range []string{"h", "s", "z"} {
		_, _, tn := collType(ct)
		for _, raw := range []string{"t:0", "t:c", "0:0"} {
			st.keys[tn] = append(st.keys[tn], []byte(raw))
			el := names
			if raw != "t:c" {
				el = names[:2]
			}
			st.colls = append(st.colls, &collection{ctype: ct, raw: []byte(raw), elems: el})
		}
	}
	gen := func() []line {
		var ls []line
		k := 0
		n := len(names)
		for cnt := 0; cnt <= n+1; cnt++ {
			for _, rev := range []string{"0", "1"} {
				start := "-"
				if rev == "1" {
					start = "ffffffff"
				}
				for _, cmd := range [][2]string{{"scan", "kv"}, {"advscan", "kv"}, {"advscan", "list"}} {
					k++
					ls = append(ls, line{fmt.Sprintf("%s.k%d", st.id, k), "K", []string{cmd[0], cmd[1], rev, "74", start, strconv.Itoa(cnt), "-"}})
				}
				for _, c := range st.colls {
					if string(c.raw) != "t:c" {
						continue
					}
					k++
					ls = append(ls, line{fmt.Sprintf("%s.e%d", st.id, k), "E", []string{c.ctype, rev, hx.H(c.table), hx.H(c.verkey), hx.H(c.raw), start, strconv.Itoa(cnt), "-"}})
				}
			}
			if cnt > 0 {
				for _, tn := range []string{"kv", "hash", "set", "list"} {
					k++
					ls = append(ls, line{fmt.Sprintf("%s.f%d", st.id, k), "F", []string{tn, "74", strconv.Itoa(cnt), "-"}})
				}
			}
		}
		return ls
	}
	return runStore(st, gen, cs, out, outx)
}

// ---------- concurrent leg ----------
// Several goroutines iterate the same hash / set / zset at the same time, each with its own MATCH pattern and
// COUNT, through the production read handlers. Every COMPLETED iteration is judged: exactly the matching
// elements, once, in order. Nothing depends on timing: the number of iterations is not an observable.

type concPat struct {
	text string
	ok   func(string) bool
}

var concPats = []concPat{
	{"a*", func(x string) bool { return strings.HasPrefix(x, "a") }},
	{"*b", func(x string) bool { return strings.HasSuffix(x, "b") }},
	{"*1*", func(x string) bool { return strings.Contains(x, "1") }},
	{"k*", func(x string) bool { return strings.HasPrefix(x, "k") }},
	{"*0", func(x string) bool { return strings.HasSuffix(x, "0") }},
	{"*:*", func(x string) bool { return strings.Contains(x, ":") }},
	{"*", func(x string) bool { return true }},
	{"c*l", func(x string) bool { return len(x) >= 2 && strings.HasPrefix(x, "c") && strings.HasSuffix(x, "l") }},
}

func concurrentLeg(eng string, ms int, cs, outx *outw) error {
	runtime.GOMAXPROCS(maxInt(8, runtime.NumCPU()))
	sm, err := smx.Open(eng, "local")
	if err != nil {
		return err
	}
	defer sm.Close()
	var elems []string
	seen := map[string]bool{}
	for _, nm := range fixedNames {
		ascii := true
		for i := 0; i < len(nm); i++ {
			if nm[i] >= 0x80 || nm[i] == 0 {
				ascii = false
			}
		}
		if ascii && !seen[nm] {
			seen[nm] = true
			elems = append(elems, nm)
		}
	}
	sort.Strings(elems)
	var reqs []smx.Req
	for i, e := range elems {
		reqs = append(reqs, smx.Req{Args: [][]byte{b("hset"), b("t:c"), b(e), b("v" + e)}, Ts: 1000})
		reqs = append(reqs, smx.Req{Args: [][]byte{b("sadd"), b("t:c"), b(e)}, Ts: 1000})
		reqs = append(reqs, smx.Req{Args: [][]byte{b("zadd"), b("t:c"), b(strconv.Itoa(i + 1)), b(e)}, Ts: 1000})
	}
	for _, x := range sm.Apply(smx.OnePerCall, reqs) {
		if x == "-err" || x == "panic" {
			return fmt.Errorf("concurrent leg: write failed")
		}
	}
	// several DIFFERENT big collections with recognisable, disjoint member names, for large COUNTs
	bigNames := []string{"A", "B", "C"}
	const bigN = 1100
	bigMembers := map[string][]string{}
	for _, bn := range bigNames {
		var ms []string
		for i := 0; i < bigN; i++ {
			ms = append(ms, fmt.Sprintf("%s_member_%05d", bn, i))
		}
		bigMembers[bn] = ms
		for i := 0; i < bigN; i += 500 {
			j := i + 500
			if j > bigN {
				j = bigN
			}
			sa := [][]byte{b("sadd"), b("t:set" + bn)}
			ha := [][]byte{b("hmset"), b("t:hash" + bn)}
			za := [][]byte{b("zadd"), b("t:zset" + bn)}
			for _, mname := range ms[i:j] {
				sa = append(sa, b(mname))
				ha = append(ha, b(mname), b("v"+mname))
				za = append(za, b("1"), b(mname))
			}
			for _, x := range sm.Apply(smx.OnePerCall, []smx.Req{{Args: sa, Ts: 1000}, {Args: ha, Ts: 1000}, {Args: za, Ts: 1000}}) {
				if x == "-err" || x == "panic" {
					return fmt.Errorf("concurrent leg: bulk write failed")
				}
			}
		}
	}
	type result struct {
		iters int
		bad   []string
	}
	// deterministic part: keep the page one scan returned, run another large scan on a different collection,
	// then compare the kept page with the copy taken when it was returned
	var heldBad []string
	for round := 0; round < 3; round++ {
		for _, cnt := range []int{1024, 2000, 5000} {
			a, err := sm.Store.SScan(b("t:setA"), nil, cnt, "", false)
			if err != nil {
				return err
			}
			cp := make([]string, len(a))
			for i, x := range a {
				cp[i] = string(x)
			}
			if _, err := sm.Store.SScan(b("t:setB"), nil, cnt, "", false); err != nil {
				return err
			}
			for i, x := range a {
				if string(x) != cp[i] || !strings.HasPrefix(string(x), "A_member_") {
					heldBad = append(heldBad, fmt.Sprintf("held-sscan/count=%d/element%d=%s", cnt, i, hx.H(x)))
					break
				}
			}
			ha, err := sm.Store.HScan(b("t:hashA"), nil, cnt, "", false)
			if err != nil {
				return err
			}
			hcp := make([]string, len(ha))
			for i, x := range ha {
				hcp[i] = string(x.Key)
			}
			if _, err := sm.Store.HScan(b("t:hashB"), nil, cnt, "", false); err != nil {
				return err
			}
			for i, x := range ha {
				if string(x.Key) != hcp[i] || !strings.HasPrefix(string(x.Key), "A_member_") {
					heldBad = append(heldBad, fmt.Sprintf("held-hscan/count=%d/element%d=%s", cnt, i, hx.H(x.Key)))
					break
				}
			}
			za, err := sm.Store.ZScan(b("t:zsetA"), nil, cnt, "", false)
			if err != nil {
				return err
			}
			zcp := make([]string, len(za))
			for i, x := range za {
				zcp[i] = string(x.Member)
			}
			if _, err := sm.Store.ZScan(b("t:zsetB"), nil, cnt, "", false); err != nil {
				return err
			}
			for i, x := range za {
				if string(x.Member) != zcp[i] || !strings.HasPrefix(string(x.Member), "A_member_") {
					heldBad = append(heldBad, fmt.Sprintf("held-zscan/count=%d/element%d=%s", cnt, i, hx.H(x.Member)))
					break
				}
			}
		}
	}
	nw := len(concPats)
	res := make([]result, nw)
	deadline := time.Now().Add(time.Duration(ms) * time.Millisecond)
	var wg sync.WaitGroup
	for w := 0; w < nw; w++ {
		wg.Add(1)
		go func(w int) {
			defer wg.Done()
			pat := concPats[w]
			cmds := []string{"hscan", "sscan", "zscan", "hrevscan", "srevscan", "zrevscan"}
			var want []string
			for _, e := range elems {
				if pat.ok(e) {
					want = append(want, e)
				}
			}
			for it := 0; time.Now().Before(deadline) || it < 3; it++ {
				name := cmds[(it+w)%len(cmds)]
				rev := strings.Contains(name, "rev")
				count := 1 + (it+w)%7
				cursor := []byte{}
				if rev {
					cursor = []byte("~~~~")
				}
				var got []string
				complete := false
				for calls := 0; calls < len(elems)+3; calls++ {
					out := sm.Read(b(name), b("t:c"), cursor, b("match"), b(pat.text), b("count"), b(strconv.Itoa(count)))
					toks := strings.Split(out, " ")
					if len(toks) < 3 || toks[0] != "*2" {
						got = append(got, "!"+out)
						complete = true
						break
					}
					next, _ := parseBulk(toks[1])
					step := 2
					if name[0] == 's' {
						step = 1
					}
					for i := 3; i < len(toks); i += step {
						x, _ := parseBulk(toks[i])
						got = append(got, string(x))
					}
					if len(next) == 0 {
						complete = true
						break
					}
					cursor = next
				}
				if !complete {
					got = append(got, "!NONTERM")
				}
				exp := want
				if rev {
					exp = make([]string, len(want))
					for i, x := range want {
						exp[len(want)-1-i] = x
					}
				}
				res[w].iters++
				if strings.Join(got, "\x01") != strings.Join(exp, "\x01") && len(res[w].bad) < 2 {
					var gh []string
					for _, x := range got {
						gh = append(gh, hx.H([]byte(x)))
					}
					res[w].bad = append(res[w].bad, fmt.Sprintf("%s/%s/count=%d/got=%s", name, hx.H([]byte(pat.text)), count, strings.Join(gh, ",")))
				}
			}
		}(w)
	}
	// large COUNTs on different collections at the same time, through the handlers
	bigRes := make([]result, 6)
	for w := 0; w < 6; w++ {
		wg.Add(1)
		go func(w int) {
			defer wg.Done()
			bn := bigNames[w%len(bigNames)]
			want := bigMembers[bn]
			cmds := []string{"sscan", "hscan", "zscan"}
			counts := []int{1024, 2000, 5000, 1500}
			for it := 0; time.Now().Before(deadline) || it < 2; it++ {
				name := cmds[(it+w)%3]
				key := "t:" + map[string]string{"sscan": "set", "hscan": "hash", "zscan": "zset"}[name] + bn
				count := counts[(it+w)%len(counts)]
				cursor := []byte{}
				var got []string
				complete := false
				for calls := 0; calls < 8; calls++ {
					out := sm.Read(b(name), b(key), cursor, b("count"), b(strconv.Itoa(count)))
					toks := strings.Split(out, " ")
					if len(toks) < 3 || toks[0] != "*2" {
						got = append(got, "!"+out)
						complete = true
						break
					}
					next, _ := parseBulk(toks[1])
					step := 2
					if name[0] == 's' {
						step = 1
					}
					for i := 3; i < len(toks); i += step {
						x, _ := parseBulk(toks[i])
						got = append(got, string(x))
					}
					if len(next) == 0 {
						complete = true
						break
					}
					cursor = next
				}
				if !complete {
					got = append(got, "!NONTERM")
				}
				bigRes[w].iters++
				if strings.Join(got, "\x01") != strings.Join(want, "\x01") && len(bigRes[w].bad) < 1 {
					first := ""
					for i, x := range got {
						if i >= len(want) || x != want[i] {
							first = fmt.Sprintf("element%d=%s", i, hx.H([]byte(x)))
							break
						}
					}
					bigRes[w].bad = append(bigRes[w].bad, fmt.Sprintf("big-%s/%s/count=%d/n=%d/%s", name, hx.H([]byte(key)), count, len(got), first))
				}
			}
		}(w)
	}
	wg.Wait()
	res = append(res, bigRes...)
	res = append(res, result{iters: 27, bad: heldBad})
	var eh, ph []string
	for _, e := range elems {
		eh = append(eh, hx.H([]byte(e)))
	}
	for _, p := range concPats {
		ph = append(ph, hx.H([]byte(p.text)))
	}
	id := "q." + eng
	cs.Printf("%s\tQ\t%s\t%s\t%s\n", id, eng, strings.Join(eh, ","), strings.Join(ph, ","))
	total := 0
	var bad []string
	for _, r := range res {
		total += r.iters
		bad = append(bad, r.bad...)
	}
	outx.Printf("%s\titerations=%d bad=%d %s\n", id, total, len(bad), strings.Join(bad, " "))
	return nil
}

func maxInt(a, b int) int {
	if a > b {
		return a
	}
	return b
}

// sparseStore: runs of non-matching keys much longer than 10 x COUNT between matching ones, so that any bound on
// the number of examined keys per call shows up as an omission.
func sparseStore(cs, out, outx *outw) error {
	st := &storeDef{id: "xsp", eng: "mem", policy: "local", keys: map[string][][]byte{}}
	var elems [][]byte
	for i := 0; i < 90; i++ {
		nm := fmt.Sprintf("n%02d", i)
		if i%30 == 29 {
			nm = fmt.Sprintf("n%02dm", i)
		}
		elems = append(elems, []byte(nm))
		st.keys["kv"] = append(st.keys["kv"], []byte("t:"+nm))
	}
	st.keys["kv"] = append(st.keys["kv"], []byte("t:zm"), []byte("t2:am"))
	elems = append(elems, []byte("zm"))
	for _, ct := range []string{"h", "s", "z"} {
		_, _, tn := collType(ct)
		st.keys[tn] = [][]byte{[]byte("t:c")}
		st.colls = append(st.colls, &collection{ctype: ct, raw: []byte("t:c"), elems: elems})
	}
	gen := func() []line {
		var ls []line
		k := 0
		for _, cnt := range []int{1, 2, 3, 5} {
			for _, rev := range []string{"0", "1"} {
				start := "-"
				if rev == "1" {
					start = "ffffffff"
				}
				for _, cmd := range []string{"scan", "advscan"} {
					k++
					ls = append(ls, line{fmt.Sprintf("xsp.k%d", k), "K", []string{cmd, "kv", rev, "74", start, strconv.Itoa(cnt), hx.H([]byte("t:*m"))}})
				}
				for _, c := range st.colls {
					k++
					ls = append(ls, line{fmt.Sprintf("xsp.e%d", k), "E", []string{c.ctype, rev, hx.H(c.table), hx.H(c.verkey), hx.H(c.raw), start, strconv.Itoa(cnt), hx.H([]byte("*m"))}})
				}
			}
			for _, tn := range []string{"kv", "set"} {
				k++
				pat := "*m"
				if tn == "set" {
					pat = "c" // FULLSCAN matches the key
				}
				ls = append(ls, line{fmt.Sprintf("xsp.f%d", k), "F", []string{tn, "74", strconv.Itoa(cnt), hx.H([]byte(pat))}})
			}
		}
		return ls
	}
	return runStore(st, gen, cs, out, outx)
}

// patternStore: every scan command with MATCH patterns from the whole syntax the production matcher accepts,
// in particular patterns WITHOUT any of * ? [ ] that still are not literals ({a,b} alternatives).
func patternStore(cs, out, outx *outw) error {
	st := &storeDef{id: "xpt", eng: "mem", policy: "local", keys: map[string][][]byte{}}
	var elems [][]byte
	for _, nm := range []string{"a", "ab", "b", "coll", "k1", "k2", "k3", "user_1", "user_2", "user_3", "user_4", "user_5", "{a,b}", "z"} {
		elems = append(elems, []byte(nm))
		st.keys["kv"] = append(st.keys["kv"], []byte("t:"+nm))
		st.keys["list"] = append(st.keys["list"], []byte("t:"+nm))
	}
	for _, ct := range []string{"h", "s", "z"} {
		_, _, tn := collType(ct)
		for _, nm := range elems {
			raw := append([]byte("t:"), nm...)
			st.keys[tn] = append(st.keys[tn], raw)
			el := [][]byte{[]byte("f")}
			if string(nm) == "coll" {
				el = elems
			}
			st.colls = append(st.colls, &collection{ctype: ct, raw: raw, elems: el})
		}
	}
	pats := []string{"{a,ab,coll}", "k{1,2}", "user_{1,3,5}", "{a,b}*", "*{1,2}", "[!a]*", "[a-k]*", "**", "user_[135]", "{k1,zz}", "{nope,none}"}
	gen := func() []line {
		var ls []line
		k := 0
		for _, pat := range pats {
			for _, cnt := range []int{1, 2, 20, 0} {
				for _, rev := range []string{"0", "1"} {
					start := "-"
					if rev == "1" {
						start = "7e7e7e"
					}
					for _, cmd := range [][2]string{{"scan", "kv"}, {"advscan", "kv"}, {"advscan", "hash"}, {"advscan", "list"}} {
						k++
						ls = append(ls, line{fmt.Sprintf("xpt.k%d", k), "KX", []string{cmd[0], cmd[1], rev, "74", start, strconv.Itoa(cnt), hx.H([]byte("t:" + pat))}})
					}
					for _, c := range st.colls {
						if string(c.raw) != "t:coll" {
							continue
						}
						k++
						ls = append(ls, line{fmt.Sprintf("xpt.e%d", k), "EX", []string{c.ctype, rev, hx.H(c.table), hx.H(c.verkey), hx.H(c.raw), start, strconv.Itoa(cnt), hx.H([]byte(pat))}})
					}
				}
				if cnt > 0 {
					for _, tn := range []string{"kv", "hash", "set", "zset", "list"} {
						k++
						fp := pat
						if tn == "kv" {
							fp = "t:" + pat
						}
						ls = append(ls, line{fmt.Sprintf("xpt.f%d", k), "G", []string{tn, "74", strconv.Itoa(cnt), hx.H([]byte(fp))}})
					}
				}
			}
		}
		return ls
	}
	return runStore(st, gen, cs, out, outx)
}

// longRunStore: n KV keys in one table, only those at 7, 0.8n, 0.9n and n-1 end in "-hit": between two matches
// lie more than MAX_BATCH_NUM non-matching keys, so a per-call bound on the number of keys walked (instead of
// matched) shows up as a short page, i.e. an early end of a MATCH iteration.
func longRunStore(eng string, n int, cs, out, outx *outw) error {
	st := &storeDef{id: "xlr" + eng, eng: eng, policy: "local", keys: map[string][][]byte{}}
	hits := map[int]bool{7: true, n * 8 / 10: true, n * 9 / 10: true, n - 1: true}
	for i := 0; i < n; i++ {
		nm := fmt.Sprintf("t:%05d", i)
		if hits[i] {
			nm += "-hit"
		}
		st.keys["kv"] = append(st.keys["kv"], []byte(nm))
	}
	st.keys["kv"] = append(st.keys["kv"], []byte("t2:0-hit"), []byte("s:0-hit"))
	gen := func() []line {
		var ls []line
		k := 0
		for _, cnt := range []int{1, 3, 100, 0, 5000} {
			for _, rev := range []string{"0", "1"} {
				if eng == "rocksdb" && (rev == "1" || cnt == 0) {
					continue
				}
				start := "-"
				if rev == "1" {
					start = "7e7e7e"
				}
				for _, cmd := range []string{"scan", "advscan"} {
					k++
					ls = append(ls, line{fmt.Sprintf("%s.k%d", st.id, k), "K", []string{cmd, "kv", rev, "74", start, strconv.Itoa(cnt), hx.H([]byte("*-hit"))}})
				}
			}
			if cnt > 0 {
				k++
				ls = append(ls, line{fmt.Sprintf("%s.f%d", st.id, k), "F", []string{"kv", "74", strconv.Itoa(cnt), hx.H([]byte("*-hit"))}})
			}
		}
		return ls
	}
	return runStore(st, gen, cs, out, outx)
}

// ---------- main ----------

func main() {
	flag.Parse()
	if *doC {
		consts()
		return
	}
	smx.Quiet()
	os.MkdirAll(*outDir, 0o755)
	cs := createOut(filepath.Join(*outDir, "cases.tsv"))
	out := createOut(filepath.Join(*outDir, "impl.out"))
	outx := createOut(filepath.Join(*outDir, "implx.out"))
	defer cs.Close()
	defer out.Close()
	defer outx.Close()
	fail := func(err error) {
		cs.Close()
		out.Close()
		outx.Close()
		fmt.Fprintln(os.Stderr, "scansim:", err)
		os.Exit(3)
	}
	if *replay != "" {
		// rebuild every store from its T and C lines, then run its cases
		var st *storeDef
		var cases []line
		var sc *srvScenario
		flush := func() {
			if st != nil {
				cc := cases
				if err := runStore(st, func() []line { return cc }, cs, out, outx); err != nil {
					fail(err)
				}
			}
			if sc != nil {
				if err := runSrv(sc, *port, cs, out); err != nil {
					fail(err)
				}
			}
			st, cases, sc = nil, nil, nil
		}
		for _, ln := range hx.ReadLines(*replay) {
			p := strings.Split(ln, "\t")
			if len(p) < 2 {
				continue
			}
			l := line{p[0], p[1], p[2:]}
			sid := l.id[:strings.IndexByte(l.id, '.')]
			if (st != nil && st.id != sid) || (sc != nil && sc.id != sid) {
				flush()
			}
			switch l.kind {
			case "T":
				if st == nil {
					st = &storeDef{id: sid, eng: "mem", policy: "local", keys: map[string][][]byte{}}
				}
				st.keys[l.f[0]] = hx.UnHL(l.f[1])
			case "C":
				if st == nil {
					st = &storeDef{id: sid, eng: "mem", policy: "local", keys: map[string][][]byte{}}
				}
				st.colls = append(st.colls, &collection{ctype: l.f[0], raw: hx.UnH(l.f[3]), elems: hx.UnHL(l.f[4])})
			case "P":
				if st == nil {
					st = &storeDef{id: sid, keys: map[string][][]byte{}}
				}
				st.eng, st.policy = l.f[0], l.f[1]
			case "W":
				np, _ := strconv.Atoi(l.f[0])
				sc = &srvScenario{id: sid, nparts: np, kvOnly: len(l.f) > 5 && l.f[5] == "kvonly"}
				for _, raw := range hx.UnHL(l.f[1]) {
					i := bytes.IndexByte(raw, ':')
					sc.table = string(raw[:i])
					sc.names = append(sc.names, raw[i+1:])
				}
			case "Q":
				// the concurrent leg has no stored input besides the engine: run it again
				flush()
				ms := *conc
				if ms <= 0 {
					ms = 3000
				}
				if err := concurrentLeg(l.f[0], ms, cs, outx); err != nil {
					fail(err)
				}
			case "X":
				// regenerated together with its S case
			case "S":
				if sc != nil {
					sc.cases = append(sc.cases, l)
				}
			default:
				cases = append(cases, l)
			}
		}
		flush()
		return
	}
	r := hx.NewRng(*seed)
	engs := strings.Split(*engines, ",")
	for i := 0; i < *nstores; i++ {
		eng := engs[i%len(engs)]
		st, table := genStore(r, fmt.Sprintf("s%d", i+1), eng)
		if err := runStore(st, func() []line { return genCases(r, st, table, *percase) }, cs, out, outx); err != nil {
			fail(err)
		}
	}
	if *big > 0 {
		st := &storeDef{id: "sbig", eng: "mem", policy: "local", keys: map[string][][]byte{}}
		for i := 0; i < *big; i++ {
			st.keys["kv"] = append(st.keys["kv"], []byte(fmt.Sprintf("big:%06d", i)))
		}
		st.keys["kv"] = append(st.keys["kv"], []byte("bih:x"))
		var cases []line
		for i, c := range []int{*big, *big - 1, *big / 2, *big + 1, 0} {
			cases = append(cases, line{fmt.Sprintf("sbig.k%d", i+1), "K", []string{[]string{"scan", "advscan"}[i%2], "kv", "0", hx.H([]byte("big")), "-", strconv.Itoa(c), "-"}})
		}
		if err := runStore(st, func() []line { return cases }, cs, out, outx); err != nil {
			fail(err)
		}
	}
	if *longrun > 0 {
		for i, e := range engs {
			if i > 0 && !*longall {
				break
			}
			if err := longRunStore(e, *longrun, cs, out, outx); err != nil {
				fail(err)
			}
		}
	}
	if *exh > 0 {
		if err := exhaustive(*exh, cs, out, outx); err != nil {
			fail(err)
		}
		for _, e := range []string{"mem", "pebble"} {
			if err := sentinelStore(e, cs, out, outx); err != nil {
				fail(err)
			}
		}
		if err := sparseStore(cs, out, outx); err != nil {
			fail(err)
		}
		if err := patternStore(cs, out, outx); err != nil {
			fail(err)
		}
	}
	if *conc > 0 {
		for _, e := range []string{"mem", "pebble"} {
			if err := concurrentLeg(e, *conc, cs, outx); err != nil {
				fail(err)
			}
		}
	}
	if *srvbig > 0 {
		if err := runSrv(genSrvBig("vbig", *srvbig), *port+400, cs, out); err != nil {
			if strings.Contains(err.Error(), "inconclusive") {
				fmt.Fprintln(os.Stderr, "INCONCLUSIVE:", err)
			} else {
				fail(err)
			}
		}
	}
	for i := 0; i < *nsrv; i++ {
		sc := genSrv(r, fmt.Sprintf("v%d", i+1))
		if err := runSrv(sc, *port+4*i, cs, out); err != nil {
			if strings.Contains(err.Error(), "inconclusive") {
				fmt.Fprintln(os.Stderr, "INCONCLUSIVE:", err)
				continue
			}
			fail(err)
		}
	}
}
