package main

import (
	"fmt"
	"sort"
	"strings"

	"github.com/youzan/ZanRedisDB/cluster"
	"verif/harness/internal/hx"
)

// gen: event generator of one sequence. Every choice comes from the sequence's PRNG (derived from -seed);
// it looks at the current register content only to make answers that are interesting (converged /
// lagging data nodes).
type gen struct {
	r       *hx.Rng
	m       int          // cluster nodes are 1..m
	replica int
	httpDn  map[int]bool // nodes whose HTTP endpoint is currently unreachable
	kinds   string
	queue   []func(in *inst) event // pending events of a scenario script
	lnodes  map[int]bool           // registered learner nodes (number >= 100) -> has this driver's role
	pnum    int                    // partitions 0..pnum-1
}

func (g *gen) pid() int { return g.r.Pick(g.pnum) }

func storedInfo(in *inst, pid int) *cluster.PartitionMetaInfo { return in.reg.stored(pid) }

// learner numbers present in the learner list of EVERY partition
func learnersEverywhere(in *inst) map[int]bool {
	cnt := map[int]int{}
	for pid := 0; pid < in.pnum; pid++ {
		for _, n := range storedInfo(in, pid).LearnerNodes[learnerRole] {
			cnt[kOf(n)]++
		}
	}
	out := map[int]bool{}
	for k, c := range cnt {
		if c == in.pnum {
			out[k] = true
		}
	}
	return out
}

func (g *gen) learnerField() string {
	var ks []int
	for k := range g.lnodes {
		ks = append(ks, k)
	}
	sort.Ints(ks)
	var p []string
	for _, k := range ks {
		if g.lnodes[k] {
			p = append(p, fmt.Sprint(k))
		} else {
			p = append(p, fmt.Sprintf("%d!", k))
		}
	}
	if len(p) == 0 {
		return "-"
	}
	return strings.Join(p, ",")
}

func (g *gen) nEvent(data []int) event { return event{"N", []string{joinInts(data), g.learnerField()}} }

// one partition's start layout: "nodes;ids;removings;maxid;learners"
func (g *gen) initPart(lrn []int) string {
	r := g.r
	minNodes := g.replica/2 + 1
	// replica count: mostly exactly replica, sometimes under/over replicated
	c := g.replica
	switch r.Pick(6) {
	case 0:
		c = minNodes + r.Pick(g.replica-minNodes+1)
	case 1:
		c = g.replica + 1
	case 2:
		// well short of the factor (two or more replacements needed) when the factor allows it
		if g.replica >= 4 {
			c = minNodes
		}
	}
	if c > g.m {
		c = g.m
	}
	if c < minNodes {
		c = minNodes
	}
	perm := r.Perm(g.m)
	nodes := make([]int, c)
	for i := range nodes {
		nodes[i] = perm[i] + 1
	}
	// ids: distinct, with gaps, not in node order
	ids := make([]int, c)
	next := 0
	for i := range ids {
		next += 1 + r.Pick(3)
		ids[i] = next
	}
	r.Shuffle(c, func(i, j int) { ids[i], ids[j] = ids[j], ids[i] })
	var idp []string
	for i, n := range nodes {
		idp = append(idp, fmt.Sprintf("%d:%d", n, ids[i]))
	}
	// learners of the layout (their ids come from the same counter)
	for _, k := range lrn {
		next += 1 + r.Pick(2)
		idp = append(idp, fmt.Sprintf("%d:%d", k, next))
	}
	maxid := next + r.Pick(3)
	rm := "-"
	if r.Chance(0.25) && c-1 > g.replica/2 {
		i := r.Pick(c)
		st := []int{clock0, clock0 - 3, clock0 - 6, clock0 - 30, 0}[r.Pick(5)]
		rm = fmt.Sprintf("%d:%d:%d", nodes[i], ids[i], st)
	}
	return fmt.Sprintf("%s;%s;%s;%d;%s", joinInts(nodes), strings.Join(idp, ","), rm, maxid, joinInts(lrn))
}

func (g *gen) initEvent() event {
	r := g.r
	g.replica = 1 + r.Pick(5)
	minNodes := g.replica/2 + 1
	g.m = g.replica + r.Pick(4)
	if r.Chance(0.15) && g.replica-1 >= minNodes {
		g.m = g.replica - 1
	}
	if g.m > 8 {
		g.m = 8
	}
	g.pnum = []int{1, 1, 1, 2, 2, 3}[r.Pick(6)]
	g.lnodes = map[int]bool{}
	var lrn []int
	if strings.Contains(g.kinds, "L") && r.Chance(0.2) {
		for k := 101; k < 101+1+r.Pick(2); k++ {
			lrn = append(lrn, k)
			g.lnodes[k] = true
		}
	}
	auto := "1"
	if r.Chance(0.1) {
		auto = "0"
	}
	ver := "v2"
	if r.Chance(0.3) {
		ver = "v1"
	}
	g.httpDn = map[int]bool{}
	f := []string{fmt.Sprint(g.replica), auto, ver}
	for p := 0; p < g.pnum; p++ {
		f = append(f, g.initPart(lrn))
	}
	return event{"I", f}
}

func (g *gen) allNodes() []int {
	l := make([]int, g.m)
	for i := range l {
		l[i] = i + 1
	}
	return l
}

// answers of converged data nodes: every reachable node reports, per partition, the member list and synced
func (g *gen) convergePart(in *inst, pid int, withRemoving bool) string {
	info := storedInfo(in, pid)
	var ms []string
	for _, n := range info.RaftNodes {
		if _, rm := info.Removings[n]; rm && !withRemoving {
			continue
		}
		ms = append(ms, fmt.Sprintf("%d:%d", kOf(n), info.RaftIDs[n]))
	}
	sort.Strings(ms)
	mstr := "-"
	if len(ms) > 0 {
		mstr = strings.Join(ms, ",")
	}
	var p []string
	for _, k := range g.allNodes() {
		if g.httpDn[k] {
			p = append(p, fmt.Sprintf("%d=!", k))
		} else {
			p = append(p, fmt.Sprintf("%d=%s/1", k, mstr))
		}
	}
	return fmt.Sprintf("%d@%s", pid, strings.Join(p, ";"))
}

func (g *gen) converge(in *inst, withRemoving bool) event {
	var f []string
	for pid := 0; pid < g.pnum; pid++ {
		f = append(f, g.convergePart(in, pid, withRemoving))
	}
	return event{"A", f}
}

func (g *gen) perturb(in *inst) event {
	r := g.r
	k := 1 + r.Pick(g.m)
	pid := g.pid()
	info := storedInfo(in, pid)
	var ms []string
	for _, n := range info.RaftNodes {
		ms = append(ms, fmt.Sprintf("%d:%d", kOf(n), info.RaftIDs[n]))
	}
	sort.Strings(ms)
	one := func(a string) event { return event{"A", []string{fmt.Sprintf("%d@%s", pid, a)}} }
	switch r.Pick(7) {
	case 0:
		g.httpDn[k] = true
		var f []string
		for p := 0; p < g.pnum; p++ {
			f = append(f, fmt.Sprintf("%d@%d=!", p, k))
		}
		return event{"A", f}
	case 1:
		if r.Chance(0.5) {
			return one(fmt.Sprintf("%d=n/0", k))
		}
		return one(fmt.Sprintf("%d=x/%d", k, r.Pick(2)))
	case 2:
		if len(ms) > 0 {
			return one(fmt.Sprintf("%d=%s/0", k, strings.Join(ms, ",")))
		}
	case 3:
		// lagging view: one member missing
		if len(ms) > 1 {
			i := r.Pick(len(ms))
			l := append(append([]string{}, ms[:i]...), ms[i+1:]...)
			return one(fmt.Sprintf("%d=%s/1", k, strings.Join(l, ",")))
		}
	case 4:
		// a member with an unexpected replica id (0 .. max+1) for some cluster node
		l := append([]string{}, ms...)
		l = append(l, fmt.Sprintf("%d:%d", 1+r.Pick(g.m), r.Pick(int(info.MaxRaftID)+2)))
		return one(fmt.Sprintf("%d=%s/1", k, strings.Join(l, ",")))
	case 5:
		return one(fmt.Sprintf("%d=-/1", k))
	}
	g.httpDn[k] = false
	return g.converge(in, r.Chance(0.5))
}

// hangReplica: a registered replica node becomes unreachable over HTTP (or reports not-synced) on all partitions
func (g *gen) hangReplica(in *inst) event {
	r := g.r
	st := in.coord.VerifState()
	reg := map[int]bool{}
	for _, n := range st.DataNodes {
		reg[kOf(n)] = true
	}
	var cand []int
	for _, n := range storedInfo(in, g.pid()).RaftNodes {
		if reg[kOf(n)] {
			cand = append(cand, kOf(n))
		}
	}
	k := 1 + r.Pick(g.m)
	if len(cand) > 0 {
		k = cand[r.Pick(len(cand))]
	}
	mode := r.Pick(10) // 0..4 silent, 5..6 answers not-synced, 7..9 up but the namespace is not loaded (404)
	silent := mode < 5
	if silent {
		g.httpDn[k] = true
	}
	var f []string
	for pid := 0; pid < g.pnum; pid++ {
		if silent {
			f = append(f, fmt.Sprintf("%d@%d=!", pid, k))
			continue
		}
		if mode >= 7 {
			f = append(f, fmt.Sprintf("%d@%d=n/0", pid, k))
			continue
		}
		info := storedInfo(in, pid)
		var ms []string
		for _, n := range info.RaftNodes {
			ms = append(ms, fmt.Sprintf("%d:%d", kOf(n), info.RaftIDs[n]))
		}
		sort.Strings(ms)
		m := "-"
		if len(ms) > 0 {
			m = strings.Join(ms, ",")
		}
		f = append(f, fmt.Sprintf("%d@%d=%s/0", pid, k, m))
	}
	return event{"A", f}
}

func (g *gen) nodesEvent(in *inst) event {
	r := g.r
	st := in.coord.VerifState()
	cur := map[int]bool{}
	for _, n := range st.DataNodes {
		cur[kOf(n)] = true
	}
	switch r.Pick(5) {
	case 0, 1: // one node lost
		var l []int
		for k := range cur {
			l = append(l, k)
		}
		sort.Ints(l)
		if len(l) > 0 {
			k := l[r.Pick(len(l))]
			delete(cur, k)
			if r.Chance(0.7) {
				g.httpDn[k] = true
			}
		}
	case 2, 3: // one node (back) up
		var l []int
		for _, k := range g.allNodes() {
			if !cur[k] {
				l = append(l, k)
			}
		}
		if len(l) > 0 {
			k := l[r.Pick(len(l))]
			cur[k] = true
			g.httpDn[k] = false
		}
	default: // arbitrary subset
		cur = map[int]bool{}
		for _, k := range g.allNodes() {
			if r.Chance(0.7) {
				cur[k] = true
			}
		}
	}
	var l []int
	for k := range cur {
		l = append(l, k)
	}
	sort.Ints(l)
	return g.nEvent(l)
}

// a learner node joins or leaves. At most one node of this driver's role may be waiting to be added: with two,
// the ids they get follow Go's map iteration order in doCheckNamespacesForLearner.
func (g *gen) learnerNodesEvent(in *inst) event {
	r := g.r
	reg := learnersEverywhere(in)
	pending := false
	for k, same := range g.lnodes {
		if same && !reg[k] {
			pending = true
		}
	}
	var present []int
	for k := range g.lnodes {
		present = append(present, k)
	}
	sort.Ints(present)
	switch {
	case len(present) > 0 && r.Chance(0.35):
		delete(g.lnodes, present[r.Pick(len(present))])
	case r.Chance(0.2):
		g.lnodes[109] = false // a learner of another role
	case !pending:
		g.lnodes[101+r.Pick(4)] = true
	}
	st := in.coord.VerifState()
	var l []int
	for _, n := range st.DataNodes {
		l = append(l, kOf(n))
	}
	sort.Ints(l)
	return g.nEvent(l)
}

type wk struct {
	kind string
	w    int
}

var weights = []wk{{"C", 30}, {"T", 14}, {"Ac", 14}, {"Ap", 8}, {"Ah", 4}, {"N", 10}, {"M", 3}, {"D", 3}, {"R", 3}, {"F", 3},
	{"X", 2}, {"O", 1}, {"B", 6}, {"K", 2}, {"P", 5},
	{"LC", 7}, {"LS", 2}, {"Ln", 4}, {"LA", 2}, {"LL", 1}, {"LR", 2}, {"LX", 1}, {"G", 3}, {"U", 1}, {"Y", 3}, {"W", 5}}

// scenario scripts: event orders that walk the coordinator through a whole migration / balance /
// decommission; every step still comes from the PRNG and may be interleaved with random events
func (g *gen) has(k string) bool { return strings.Contains(g.kinds, k) }

func (g *gen) script(in *inst) {
	r := g.r
	check := func(in *inst) event { return event{"C", []string{"", ""}} }
	tick := func(d int) func(in *inst) event {
		return func(in *inst) event { return event{"T", []string{fmt.Sprint(d)}} }
	}
	conv := func(withRm bool) func(in *inst) event {
		return func(in *inst) event { return g.converge(in, withRm) }
	}
	allUp := func(in *inst) event {
		for k := range g.httpDn {
			g.httpDn[k] = false
		}
		return g.nEvent(g.allNodes())
	}
	loseReplica := func(in *inst) event {
		nodes := append([]string{}, storedInfo(in, g.pid()).RaftNodes...)
		st := in.coord.VerifState()
		cur := map[int]bool{}
		for _, n := range st.DataNodes {
			cur[kOf(n)] = true
		}
		if len(nodes) > 0 {
			k := kOf(nodes[r.Pick(len(nodes))])
			delete(cur, k)
			if r.Chance(0.8) {
				g.httpDn[k] = true
			}
		}
		var l []int
		for k := range cur {
			l = append(l, k)
		}
		sort.Ints(l)
		return g.nEvent(l)
	}
	// a replica's node stays registered but stops answering (or answers not-synced) for every partition
	hang := func(in *inst) event { return g.hangReplica(in) }
	if r.Chance(0.25) {
		// grow an under-replicated partition over consecutive migrate rounds WITHOUT the data nodes' member lists
		// catching up in between: the replica added in one round answers synced, but the others do not list it yet
		g.queue = []func(in *inst) event{allUp, conv(true), check, tick(18), check, check, tick(18), check, check, tick(18), check,
			conv(true), check, tick(18), check}
		return
	}
	nscripts := 3
	if g.has("L") {
		nscripts = 4
	}
	switch r.Pick(nscripts) {
	case 3: // the learner driver: start, learners join one by one, the first leaves (new learner leader), stop
		lc := func(in *inst) event { return g.next1(in, "LC") }
		ln := func(join bool) func(in *inst) event {
			return func(in *inst) event {
				if join {
					for k := 101; k <= 104; k++ {
						if _, ok := g.lnodes[k]; !ok {
							g.lnodes[k] = true
							break
						}
					}
				} else {
					ls := storedInfo(in, g.pid()).LearnerNodes[learnerRole]
					if len(ls) > 0 {
						delete(g.lnodes, kOf(ls[0]))
					}
				}
				var l []int
				for _, n := range in.coord.VerifState().DataNodes {
					l = append(l, kOf(n))
				}
				sort.Ints(l)
				return g.nEvent(l)
			}
		}
		ls := func(b string) func(in *inst) event {
			return func(in *inst) event { return event{"LS", []string{b}} }
		}
		g.queue = []func(in *inst) event{ls("1"), ln(true), lc, ln(true), lc, lc, ln(false), lc, ln(true), lc}
		if r.Chance(0.4) {
			g.queue = append(g.queue, ls("0"), lc)
		}
	case 0: // a replica's node fails; migrate, finish the removal, replace
		if r.Chance(0.5) {
			// ... while another replica is registered but unreachable: the majority must be counted by reachability
			g.queue = []func(in *inst) event{conv(true), loseReplica, hang, check, tick(18), check, tick(18), check, allUp, conv(true), check,
				conv(false), tick(6), check, tick(18), check}
		} else {
			g.queue = []func(in *inst) event{conv(true), loseReplica, check, tick(18), conv(true), check, conv(false), tick(6), check,
				tick(18), check, conv(false), check, tick(18), check}
		}
	case 1: // stabilise, then balance rounds
		if !g.has("B") {
			return
		}
		bal := func(in *inst) event { return g.next1(in, "B") }
		if r.Chance(0.4) {
			// a current replica is up and registered but not serving the partition when the balance round wants to add
			g.queue = []func(in *inst) event{allUp, conv(false), check, check, hang, bal, bal, conv(false), bal, conv(false), tick(6), check, check, bal}
		} else {
			g.queue = []func(in *inst) event{allUp, conv(false), check, check, bal, conv(false), bal, conv(false), tick(6), check, check, bal,
				conv(false), check, bal}
		}
	default: // decommission a node that holds a replica
		if !g.has("K") || !g.has("P") {
			return
		}
		mark := func(in *inst) event {
			nodes := append([]string{}, storedInfo(in, g.pid()).RaftNodes...)
			k := 1 + r.Pick(g.m)
			if len(nodes) > 0 && r.Chance(0.8) {
				k = kOf(nodes[r.Pick(len(nodes))])
			}
			for n := range in.coord.VerifState().RemovingNodes {
				k = kOf(n)
			}
			return event{"K", []string{fmt.Sprint(k)}}
		}
		proc := func(in *inst) event { return event{"P", []string{"", ""}} }
		if r.Chance(0.4) {
			g.queue = []func(in *inst) event{allUp, conv(false), check, mark, hang, proc, proc, conv(false), proc, conv(false), tick(6), check, proc, proc}
		} else {
			g.queue = []func(in *inst) event{allUp, conv(false), check, mark, proc, conv(false), proc, conv(false), tick(6), check, proc,
				conv(false), proc, proc, proc}
		}
	}
}

func (g *gen) next(in *inst) event {
	r := g.r
	if len(g.queue) > 0 && r.Chance(0.85) {
		f := g.queue[0]
		g.queue = g.queue[1:]
		return f(in)
	}
	if len(g.queue) == 0 && r.Chance(0.12) {
		g.script(in)
	}
	tot := 0
	for _, w := range weights {
		if strings.Contains(g.kinds, w.kind[:1]) {
			tot += w.w
		}
	}
	x := r.Pick(tot)
	kind := ""
	for _, w := range weights {
		if !strings.Contains(g.kinds, w.kind[:1]) {
			continue
		}
		if x < w.w {
			kind = w.kind
			break
		}
		x -= w.w
	}
	return g.next1(in, kind)
}

// an existing learner of the stored layout (70%) or any learner number
func (g *gen) pickLearner(in *inst) int {
	ls := append([]string{}, storedInfo(in, g.pid()).LearnerNodes[learnerRole]...)
	if len(ls) > 0 && g.r.Chance(0.7) {
		return kOf(ls[g.r.Pick(len(ls))])
	}
	return 101 + g.r.Pick(4)
}

func (g *gen) next1(in *inst, kind string) event {
	r := g.r
	switch kind {
	case "C":
		if r.Chance(0.7) {
			return event{"C", []string{"", ""}}
		}
		return event{"CS", []string{fmt.Sprint(g.pid()), "", ""}}
	case "T":
		return event{"T", []string{fmt.Sprint([]int{3, 6, 18, 30}[r.Pick(4)])}}
	case "Ac":
		return g.converge(in, r.Chance(0.3))
	case "Ap":
		return g.perturb(in)
	case "Ah":
		return g.hangReplica(in)
	case "N":
		return g.nodesEvent(in)
	case "M":
		d := 0
		if r.Chance(0.2) {
			d = 1
		}
		return event{"M", []string{fmt.Sprint(g.pid()), fmt.Sprint(d), ""}}
	case "K":
		// at most one node is being removed from the cluster at a time: with two, which one
		// checkIfAnyPending marks "pending" follows Go's map iteration order
		k := 1 + r.Pick(g.m)
		for n := range in.coord.VerifState().RemovingNodes {
			k = kOf(n)
		}
		return event{"K", []string{fmt.Sprint(k)}}
	case "D", "R":
		return event{kind, []string{fmt.Sprint(g.pid()), fmt.Sprint(1 + r.Pick(g.m))}}
	case "F":
		return event{"F", []string{fmt.Sprint(g.pid())}}
	case "W":
		// the concurrently added replica: a registered node that is not a member yet (it will not be ready)
		pid := g.pid()
		mem := map[int]bool{}
		for _, n := range storedInfo(in, pid).RaftNodes {
			mem[kOf(n)] = true
		}
		var cand []int
		for _, n := range in.coord.VerifState().DataNodes {
			if !mem[kOf(n)] {
				cand = append(cand, kOf(n))
			}
		}
		sort.Ints(cand)
		k := 1 + r.Pick(g.m)
		if len(cand) > 0 {
			k = cand[r.Pick(len(cand))]
		}
		w := event{"W", []string{fmt.Sprint(pid), fmt.Sprint(k), "", ""}}
		if r.Chance(0.3) {
			// first a current replica stops serving the partition, then the add-and-wait runs
			g.queue = append([]func(in *inst) event{func(in *inst) event { return w }}, g.queue...)
			return g.hangReplica(in)
		}
		return w
	case "X":
		return event{"X", []string{fmt.Sprint(1 + r.Pick(2))}}
	case "O":
		return event{"O", []string{fmt.Sprint(r.Pick(2))}}
	case "Y":
		// register health: mostly back to healthy
		m := 0
		if in.reg.mode == 0 {
			m = 1 + r.Pick(2)
		} else if r.Chance(0.2) {
			m = 1 + r.Pick(2)
		}
		return event{"Y", []string{fmt.Sprint(m)}}
	case "G":
		return event{"G", []string{fmt.Sprint([]int{0, 1, 2, 3, 4, 5, 6}[r.Pick(7)])}}
	case "U":
		// leaving the upgrade state costs a 1 s sleep inside SetClusterUpgradeState: do it rarely
		if in.coord.VerifState().Upgrading && r.Chance(0.25) {
			return event{"U", []string{"0"}}
		}
		return event{"U", []string{"1"}}
	case "LC":
		// never let doCheckNamespacesForLearner see two nodes waiting to be added (Go map order decides their ids)
		reg := learnersEverywhere(in)
		var pend []int
		for k, same := range g.lnodes {
			if same && !reg[k] {
				pend = append(pend, k)
			}
		}
		sort.Ints(pend)
		if len(pend) > 1 {
			for _, k := range pend[1:] {
				delete(g.lnodes, k)
			}
			st := in.coord.VerifState()
			var l []int
			for _, n := range st.DataNodes {
				l = append(l, kOf(n))
			}
			sort.Ints(l)
			return g.nEvent(l)
		}
		return event{"LC", []string{""}}
	case "LX":
		return event{kind, []string{fmt.Sprint(g.pid())}}
	case "LS":
		b := "1"
		if r.Chance(0.25) {
			b = "0"
		}
		return event{"LS", []string{b}}
	case "Ln":
		return g.learnerNodesEvent(in)
	case "LA":
		return event{kind, []string{fmt.Sprint(g.pid()), fmt.Sprint(101 + r.Pick(4))}}
	case "LL":
		return event{kind, []string{fmt.Sprint(g.pid()), fmt.Sprint(g.pickLearner(in))}}
	case "LR":
		return event{"LR", []string{fmt.Sprint(g.pid()), fmt.Sprint(g.pickLearner(in)), fmt.Sprint(r.Pick(2))}}
	case "B":
		b := event{"B", []string{"", ""}}
		if r.Chance(0.3) && in.reg.failNext == 0 {
			// the round's first register update fails (register hiccup / concurrent writer): the round must give up,
			// not write again
			g.queue = append([]func(in *inst) event{func(in *inst) event { return b }}, g.queue...)
			return event{"X", []string{"1"}}
		}
		return b
	case "P":
		return event{"P", []string{"", ""}}
	}
	panic("no kind")
}
