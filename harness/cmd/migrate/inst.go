package main

import (
	"os"
	"fmt"
	"sort"
	"strconv"
	"strings"
	"sync"
	"time"

	"github.com/youzan/ZanRedisDB/cluster"
	"github.com/youzan/ZanRedisDB/cluster/pdnode_coord"
	"verif/harness/internal/hx"
)

const (
	nsName    = "vns"
	clock0    = 1000 // virtual clock (minutes) at the start of a sequence
	clockUnit = 3    // every clock advance is a multiple of 3 minutes (never equal to a wait interval of 5 or 16)
)

// event: one line of cases.tsv (kind + fields). Fields that are oracle answers taken from the
// implementation's own placement function (C, M, B, P) are (re)computed when the event is executed.
type event struct {
	kind string
	f    []string
}

func (e event) line(id string) string {
	return id + "\t" + e.kind + "\t" + strings.Join(e.f, "\t")
}

type inst struct {
	slot, port int
	coord      *pdnode_coord.PDCoordinator
	lcoord     *pdnode_coord.PDCoordinator // the learner placement driver, same register
	reg        *memRegister
	tab        *stubTable
	monitor    chan struct{}
	wg         sync.WaitGroup
	waiting    map[string]map[int]time.Time
	t0         time.Time
	shift      time.Duration
	replica    int
	pnum       int
	ver        string
	probing    bool
	probes     map[int][2]string // partition -> placement answers (all nodes, usable nodes) at the time of use
}

func (in *inst) nodeID(k int) string {
	return fmt.Sprintf("%d:%s::%d:%d:datanode", k, nodeIP(in.slot, k), 6000+k, in.port)
}
func kOf(nid string) int { return int(cluster.ExtractRegIDFromGenID(nid)) }

const (
	learnerRole = "role_log_syncer"
	otherRole   = "role_other"
)

// learner nodes have numbers >= 100
func (in *inst) learnerID(k int, same bool) string {
	role := learnerRole
	if !same {
		role = otherRole
	}
	return fmt.Sprintf("%d:%s::%d:%d:datanode-learner-%s", k, nodeIP(in.slot, k), 6000+k, in.port, role)
}

func ints(s string) []int {
	if s == "" || s == "-" {
		return nil
	}
	var out []int
	for _, p := range strings.Split(s, ",") {
		v, err := strconv.Atoi(p)
		if err != nil {
			panic("bad int list: " + s)
		}
		out = append(out, v)
	}
	return out
}
func joinInts(l []int) string {
	if len(l) == 0 {
		return "-"
	}
	p := make([]string, len(l))
	for i, v := range l {
		p[i] = strconv.Itoa(v)
	}
	return strings.Join(p, ",")
}

// virtual stamp (minutes) of a wall-clock value stored by the coordinator
func (in *inst) vstamp(ns int64) int64 {
	if ns == 0 {
		return 0
	}
	d := int64(time.Duration(ns-in.t0.UnixNano()) + in.shift)
	u := int64(time.Duration(clockUnit) * time.Minute)
	x := d + u/2
	q := x / u
	if x%u != 0 && x < 0 {
		q--
	}
	return clock0 + q*clockUnit
}
func (in *inst) wallOf(v int64) int64 {
	if v == 0 {
		return 0
	}
	return in.t0.Add(time.Duration(v-clock0)*time.Minute - in.shift).UnixNano()
}

func (in *inst) infoStr(p *cluster.PartitionReplicaInfo) string {
	nodes := make([]int, len(p.RaftNodes))
	for i, n := range p.RaftNodes {
		nodes[i] = kOf(n)
	}
	var ids, rms []string
	for n, id := range p.RaftIDs {
		ids = append(ids, fmt.Sprintf("%06d:%d", kOf(n), id))
	}
	for n, r := range p.Removings {
		rms = append(rms, fmt.Sprintf("%06d:%d:%d", kOf(n), r.RemoveReplicaID, in.vstamp(r.RemoveTime)))
	}
	sort.Strings(ids)
	sort.Strings(rms)
	trim := func(l []string) string {
		if len(l) == 0 {
			return "-"
		}
		for i := range l {
			l[i] = strings.TrimLeft(l[i][:6], "0") + l[i][6:]
			if strings.HasPrefix(l[i], ":") {
				l[i] = "0" + l[i]
			}
		}
		return strings.Join(l, ",")
	}
	var lr []int
	for _, n := range p.LearnerNodes[learnerRole] {
		lr = append(lr, kOf(n))
	}
	return fmt.Sprintf("n=%s i=%s r=%s m=%d l=%s", joinInts(nodes), trim(ids), trim(rms), p.MaxRaftID, joinInts(lr))
}

func errName(e *cluster.CoordErr) string {
	switch e {
	case nil:
		return "ok"
	case cluster.ErrClusterChanged:
		return "changed"
	case pdnode_coord.ErrNamespaceMigrateWaiting:
		return "waiting"
	case pdnode_coord.ErrNodeUnavailable:
		return "nonode"
	case cluster.ErrNamespaceConfInvalid:
		return "confinvalid"
	case cluster.ErrRegisterServiceUnstable:
		return "regunstable"
	case cluster.ErrNamespaceWaitingSync:
		return "waitsync"
	case pdnode_coord.ErrNamespaceNodeConflict:
		return "conflict"
	case pdnode_coord.ErrNamespaceRaftIDNotFound:
		return "noraftid"
	case pdnode_coord.ErrNamespaceReplicaNotEnough:
		return "notenough"
	}
	if e.ErrType == cluster.CoordRegisterErr {
		return "regerr"
	}
	return "other:" + e.ErrMsg
}

func lerrName(e *cluster.CoordErr) string {
	if e == nil {
		return "lok"
	}
	if e.ErrType == cluster.CoordRegisterErr {
		return "lregerr"
	}
	return "lerr"
}

func (in *inst) parsePart(f string) cluster.PartitionReplicaInfo {
	// nodes;ids;removings;maxid;learners
	p := strings.Split(f, ";")
	var info cluster.PartitionReplicaInfo
	info.RaftIDs = map[string]uint64{}
	info.Removings = map[string]cluster.RemovingInfo{}
	lrn := map[int]bool{}
	if len(p) > 4 {
		for _, k := range ints(p[4]) {
			lrn[k] = true
			if info.LearnerNodes == nil {
				info.LearnerNodes = map[string][]string{}
			}
			info.LearnerNodes[learnerRole] = append(info.LearnerNodes[learnerRole], in.learnerID(k, true))
		}
	}
	idOf := func(k int) string {
		if lrn[k] {
			return in.learnerID(k, true)
		}
		return in.nodeID(k)
	}
	for _, k := range ints(p[0]) {
		info.RaftNodes = append(info.RaftNodes, in.nodeID(k))
	}
	if p[1] != "-" {
		for _, q := range strings.Split(p[1], ",") {
			var k int
			var id uint64
			fmt.Sscanf(q, "%d:%d", &k, &id)
			info.RaftIDs[idOf(k)] = id
		}
	}
	if p[2] != "-" {
		for _, q := range strings.Split(p[2], ",") {
			var k int
			var id uint64
			var v int64
			fmt.Sscanf(q, "%d:%d:%d", &k, &id, &v)
			info.Removings[in.nodeID(k)] = cluster.RemovingInfo{RemoveTime: in.wallOf(v), RemoveReplicaID: id}
		}
	}
	info.MaxRaftID, _ = strconv.ParseInt(p[3], 10, 64)
	return info
}

func newInst(slot, port int, e event) *inst {
	// I  replica  auto  balancever  <partition 0>  <partition 1> ...   (partition = nodes;ids;removings;maxid;learners)
	in := &inst{slot: slot, port: port, t0: time.Now(), waiting: map[string]map[int]time.Time{}, probes: map[int][2]string{}}
	in.replica, _ = strconv.Atoi(e.f[0])
	in.ver = e.f[2]
	var infos []cluster.PartitionReplicaInfo
	for _, f := range e.f[3:] {
		infos = append(infos, in.parsePart(f))
	}
	in.pnum = len(infos)
	in.reg = newMemRegister(nsName, in.replica, infos)
	in.tab = &stubTable{ans: map[stubKey]answer{}}
	in.tab.touch = func(pid int) {
		in.reg.mu.Lock()
		if in.reg.has(pid) {
			in.reg.touch(pid)
		}
		in.reg.mu.Unlock()
	}
	in.reg.onGetAll = in.probe
	stubsMu.Lock()
	stubs[slot] = in.tab
	stubsMu.Unlock()
	me := &cluster.NodeInfo{NodeIP: "127.0.0.1", HttpPort: "1", RedisPort: "2", RegID: 9999}
	opts := &cluster.Options{AutoBalanceAndMigrate: e.f[1] == "1", BalanceStart: 0, BalanceEnd: 24, BalanceVer: e.f[2]}
	in.coord = pdnode_coord.VerifNewPDCoordinator("verif-cluster", me, opts, in.reg)
	lme := &cluster.NodeInfo{NodeIP: "127.0.0.1", HttpPort: "3", RedisPort: "4", RegID: 9998, LearnerRole: learnerRole}
	in.lcoord = pdnode_coord.VerifNewPDCoordinator("verif-cluster", lme, opts, in.reg)
	in.monitor = make(chan struct{})
	in.wg.Add(2)
	go func() {
		defer in.wg.Done()
		in.coord.VerifHandleDataNodes(in.monitor, true)
	}()
	<-in.reg.watchReady // keep the watcher order fixed: main driver first
	go func() {
		defer in.wg.Done()
		in.lcoord.VerifHandleDataNodes(in.monitor, false)
	}()
	<-in.reg.watchReady
	return in
}

func (in *inst) close() {
	close(in.monitor)
	in.wg.Wait()
	stubsMu.Lock()
	delete(stubs, in.slot)
	stubsMu.Unlock()
}

func listsStr(l [][]string) string {
	ps := make([]string, len(l))
	for i, pl := range l {
		ks := make([]int, len(pl))
		for j, n := range pl {
			ks[j] = kOf(n)
		}
		ps[i] = joinInts(ks)
	}
	return strings.Join(ps, "|")
}

// what the coordinator's placement function answers for the current register content: "l0|l1|..", "x", "panic"
func (in *inst) placeLists(cur map[string]cluster.NodeInfo) string {
	in.reg.mu.Lock()
	old := make([][]string, len(in.reg.parts))
	for pid, p := range in.reg.parts {
		old[pid] = append([]string{}, p.info.GetISR()...)
	}
	replica := in.reg.meta.Replica
	in.reg.mu.Unlock()
	var first string
	for i := 0; i < 2; i++ {
		s := "x"
		var l [][]string
		var err *cluster.CoordErr
		if _, p := hx.Recover(func() {
			l, err = pdnode_coord.VerifGetRebalancedNamespacePartitions(nsName, in.pnum, replica, old, cur, in.ver)
		}); p {
			s = "panic"
		} else if err == nil {
			s = listsStr(l)
		}
		if i == 0 {
			first = s
		} else if s != first {
			return "nondet"
		}
	}
	return first
}

// probe: called by the register whenever the coordinator reads all namespaces (which it does right before every
// placement query): records, for the partition being worked on, what the placement answers at this moment
func (in *inst) probe() {
	if !in.probing {
		return
	}
	in.reg.mu.Lock()
	cur := -1
	if n := len(in.reg.touched); n > 0 {
		cur = in.reg.touched[n-1]
	}
	in.reg.mu.Unlock()
	if cur < 0 {
		return
	}
	all, _ := in.coord.GetAllDataNodes()
	avail := in.coord.VerifGetCurrentNodes(nil)
	pick := func(s string) string {
		if s == "x" || s == "panic" || s == "nondet" {
			return s
		}
		p := strings.Split(s, "|")
		if cur < len(p) {
			return p[cur]
		}
		return "x"
	}
	// keep the FIRST answer recorded while a partition is being worked on: that is the placement query of its own
	// decision (before its migrate / planned-removal write). Later reads of all namespaces in the same event
	// (doSchemaCheck at the end of a successful full check) see the register AFTER the round's writes and must not
	// replace it.
	if _, done := in.probes[cur]; done {
		return
	}
	in.probes[cur] = [2]string{pick(in.placeLists(all)), pick(in.placeLists(avail))}
}

func (in *inst) begin(pid int, probing bool) {
	in.reg.mu.Lock()
	in.reg.touched = nil
	if pid >= 0 {
		in.reg.touched = []int{pid}
	}
	in.reg.mu.Unlock()
	in.probes = map[int][2]string{}
	in.probing = probing
}

// partitions in the order the coordinator first looked at them during the event, then the others
func (in *inst) order() string {
	in.reg.mu.Lock()
	o := append([]int{}, in.reg.touched...)
	in.reg.mu.Unlock()
	seen := map[int]bool{}
	for _, p := range o {
		seen[p] = true
	}
	for p := 0; p < in.pnum; p++ {
		if !seen[p] {
			o = append(o, p)
		}
	}
	return joinInts(o)
}

func (in *inst) probesStr() string {
	var ps []string
	for pid := 0; pid < in.pnum; pid++ {
		if p, ok := in.probes[pid]; ok {
			ps = append(ps, fmt.Sprintf("%d=%s/%s", pid, p[0], p[1]))
		}
	}
	if len(ps) == 0 {
		return "-"
	}
	return strings.Join(ps, ";")
}

func (in *inst) stateStr() string {
	s := in.coord.VerifState()
	in.reg.mu.Lock()
	var ps []string
	for pid, p := range in.reg.parts {
		info := p.info.DeepClone()
		w := "-"
		if t, ok := in.waiting[nsName][pid]; ok {
			w = fmt.Sprint(in.vstamp(t.UnixNano()))
		}
		ps = append(ps, fmt.Sprintf("%d:%s e=%d w=%s", pid, in.infoStr(&info), p.epoch, w))
	}
	fl := in.reg.failNext
	rp := in.reg.meta.Replica
	md := in.reg.mode
	v, okv := in.reg.kv["placedriver:learner:need_start_learner:"+learnerRole]
	in.reg.mu.Unlock()
	dn := make([]int, 0, len(s.DataNodes))
	for _, n := range s.DataNodes {
		dn = append(dn, kOf(n))
	}
	sort.Ints(dn)
	var rn []string
	for n, st := range s.RemovingNodes {
		rn = append(rn, fmt.Sprintf("%06d:%s", kOf(n), st))
	}
	sort.Strings(rn)
	for i := range rn {
		rn[i] = strings.TrimLeft(rn[i][:6], "0") + rn[i][6:]
	}
	rns := "-"
	if len(rn) > 0 {
		rns = strings.Join(rn, ",")
	}
	b := func(x bool) int {
		if x {
			return 1
		}
		return 0
	}
	var ln []int
	for _, n := range in.lcoord.VerifState().LearnerNodes {
		ln = append(ln, kOf(n))
	}
	sort.Ints(ln)
	ls := "-"
	if okv {
		ls = "0"
		if v == "true" {
			ls = "1"
		}
	}
	return fmt.Sprintf("reg[%s] un=%d au=%d ne=%d st=%d dn=%s rn=%s fail=%d ln=%s ls=%s rp=%d up=%d md=%d",
		strings.Join(ps, " ; "), b(s.Unstable), b(s.AutoBalance), s.NodesEpoch, s.StableNodeNum, joinInts(dn), rns, fl,
		joinInts(ln), ls, rp, b(s.Upgrading), md)
}

func (in *inst) writesStr() string {
	as := in.reg.takeAttempts()
	if len(as) == 0 {
		return "-"
	}
	p := make([]string, len(as))
	for i, a := range as {
		r := "fail"
		if a.ok {
			r = "ok"
		}
		p[i] = fmt.Sprintf("{p=%d %s g=%d %s}", a.pid, in.infoStr(&a.info), a.oldGen, r)
	}
	return strings.Join(p, "")
}

func atoi(s string) int {
	v, _ := strconv.Atoi(s)
	return v
}

// exec runs one event on the real coordinators; returns "ret | writes | state".
// Oracle fields of the event (iteration order, placement answers) are filled in.
func (in *inst) exec(e *event) string {
	ret := "-"
	acted := "-"
	msg, panicked := hx.Recover(func() {
		switch e.kind {
		case "N":
			var l []cluster.NodeInfo
			for _, k := range ints(e.f[0]) {
				l = append(l, cluster.NodeInfo{RegID: uint64(k), ID: in.nodeID(k), NodeIP: nodeIP(in.slot, k),
					HttpPort: strconv.Itoa(in.port), RedisPort: strconv.Itoa(6000 + k)})
			}
			// learner nodes: "k" (this learner role) or "k!" (another role)
			if len(e.f) > 1 && e.f[1] != "-" && e.f[1] != "" {
				for _, p := range strings.Split(e.f[1], ",") {
					same := !strings.HasSuffix(p, "!")
					k, _ := strconv.Atoi(strings.TrimSuffix(p, "!"))
					role := learnerRole
					if !same {
						role = otherRole
					}
					l = append(l, cluster.NodeInfo{RegID: uint64(k), ID: in.learnerID(k, same), NodeIP: nodeIP(in.slot, k),
						HttpPort: strconv.Itoa(in.port), RedisPort: strconv.Itoa(6000 + k), LearnerRole: role})
				}
			}
			in.reg.deliver(l)
			ret = fmt.Sprint(len(in.coord.VerifDrainCheckChan()) > 0)
		case "A":
			// A  pid@k=members/synced;k=!;...   (one field per partition)
			in.tab.mu.Lock()
			for _, f := range e.f {
				pa := strings.SplitN(f, "@", 2)
				pid := atoi(pa[0])
				for _, p := range strings.Split(pa[1], ";") {
					kv := strings.SplitN(p, "=", 2)
					k, _ := strconv.Atoi(kv[0])
					if kv[1] == "!" {
						delete(in.tab.ans, stubKey{k, pid})
						continue
					}
					ms := strings.SplitN(kv[1], "/", 2)
					a := answer{synced: ms[1] == "1"}
					switch ms[0] {
					case "x":
						a.memErr = true
					case "n": // namespace not loaded on that node (HTTP 404 on both queries)
						a.notLoad = true
						a.synced = false
					case "-":
					default:
						for _, m := range strings.Split(ms[0], ",") {
							var n, id uint64
							fmt.Sscanf(m, "%d:%d", &n, &id)
							a.members = append(a.members, [2]uint64{n, id})
						}
					}
					in.tab.ans[stubKey{k, pid}] = a
				}
			}
			in.tab.mu.Unlock()
		case "T":
			d, _ := strconv.Atoi(e.f[0])
			dd := time.Duration(d) * time.Minute
			in.shift += dd
			for _, parts := range in.waiting {
				for pid, t := range parts {
					parts[pid] = t.Add(-dd)
				}
			}
			in.reg.mu.Lock()
			for _, p := range in.reg.parts {
				for n, r := range p.info.Removings {
					if r.RemoveTime != 0 {
						r.RemoveTime -= int64(dd)
						p.info.Removings[n] = r
					}
				}
			}
			in.reg.mu.Unlock()
		case "C":
			// C  order  probes : the ticker's full check
			in.begin(-1, true)
			in.coord.VerifDoCheckNamespaces(in.monitor, nil, in.waiting, true)
			in.probing = false
			e.f[0] = in.order()
			e.f[1] = in.probesStr()
		case "CS":
			// CS pid placeAll placeAvail : a triggered check of one partition
			pid := atoi(e.f[0])
			in.begin(pid, true)
			in.coord.VerifDoCheckNamespaces(in.monitor, &cluster.NamespaceNameInfo{NamespaceName: nsName, NamespacePartition: pid},
				in.waiting, false)
			in.probing = false
			e.f[1], e.f[2] = "x", "x"
			if p, ok := in.probes[pid]; ok {
				e.f[1], e.f[2] = p[0], p[1]
			}
		case "M":
			// M pid epochDelta place
			pid := atoi(e.f[0])
			info := in.reg.stored(pid)
			cur, ep := in.coord.VerifGetCurrentNodesWithEpoch(nil)
			in.begin(pid, true)
			ret = errName(in.coord.VerifHandleNamespaceMigrate(info, cur, ep+int64(atoi(e.f[1]))))
			in.probing = false
			e.f[2] = "x"
			if p, ok := in.probes[pid]; ok {
				e.f[2] = p[1]
			}
		case "D":
			pid := atoi(e.f[0])
			in.begin(pid, false)
			ret = errName(in.coord.VerifAddNamespaceToNode(in.reg.stored(pid), in.nodeID(atoi(e.f[1]))))
		case "R":
			pid := atoi(e.f[0])
			in.begin(pid, false)
			ret = errName(in.coord.VerifRemoveNamespaceFromNode(in.reg.stored(pid), in.nodeID(atoi(e.f[1]))))
		case "W":
			// W pid k snap place : addNodeToNamespaceAndWaitReady with a STALE snapshot - between the caller's snapshot
			// and the call, replica k is added concurrently (bare addNamespaceToNode, as the namespace check would)
			pid := atoi(e.f[0])
			snap := in.reg.stored(pid)
			in.begin(pid, false)
			in.coord.VerifAddNamespaceToNode(in.reg.stored(pid), in.nodeID(atoi(e.f[1])))
			var sn []int
			for _, n := range snap.RaftNodes {
				sn = append(sn, kOf(n))
			}
			e.f[2] = joinInts(sn)
			cur := in.coord.VerifGetCurrentNodes(nil)
			pl := in.placeLists(cur)
			e.f[3] = pl
			if pl != "x" && pl != "panic" && pl != "nondet" {
				e.f[3] = "x"
				if ps := strings.Split(pl, "|"); pid < len(ps) {
					e.f[3] = ps[pid]
				}
			}
			closed := make(chan struct{})
			close(closed)
			_, err := in.coord.VerifAddNodeToNamespaceAndWaitReady(closed, snap, pdnode_coord.VerifGetNodeNameList(cur))
			ret = "ok"
			if err != nil {
				ret = "regerr"
			}
		case "F":
			pid := atoi(e.f[0])
			in.begin(pid, false)
			in.coord.VerifRemoveNamespaceFromRemovings(in.reg.stored(pid))
		case "X":
			n, _ := strconv.Atoi(e.f[0])
			in.reg.mu.Lock()
			in.reg.failNext = n
			in.reg.mu.Unlock()
		case "O":
			in.coord.SwitchAutoBalance(e.f[0] == "1")
		case "B":
			// B order lists
			e.f[1] = in.placeLists(in.coord.VerifGetCurrentNodes(nil))
			in.begin(-1, false)
			bm := make(chan struct{})
			var once sync.Once
			in.reg.mu.Lock()
			in.reg.onAttempt = func() { once.Do(func() { close(bm) }) }
			in.reg.mu.Unlock()
			moved, allBalanced := in.coord.VerifRebalanceNamespace(bm)
			in.reg.mu.Lock()
			in.reg.onAttempt = nil
			in.reg.mu.Unlock()
			e.f[0] = in.order()
			ret = fmt.Sprintf("%v,%v", moved, allBalanced)
		case "K":
			k, _ := strconv.Atoi(e.f[0])
			in.coord.MarkNodeAsRemoving(in.nodeID(k))
		case "P":
			// P acted lists
			e.f[1] = in.placeLists(in.coord.VerifGetCurrentNodes(nil))
			in.begin(-1, false)
			st := in.coord.VerifState()
			if len(st.RemovingNodes) > 0 { // the ticker body of handleRemovingNodes
				closed := make(chan struct{})
				close(closed)
				in.coord.VerifProcessRemovingNodes(closed, st.RemovingNodes)
			}
		case "Y":
			m, _ := strconv.Atoi(e.f[0])
			in.reg.mu.Lock()
			in.reg.mode = m
			in.reg.mu.Unlock()
		case "G":
			// ChangeNamespaceMetaParam(newReplicator)
			n, _ := strconv.Atoi(e.f[0])
			err := in.coord.ChangeNamespaceMetaParam(nsName, n, "", 0)
			switch {
			case err == nil:
				ret = "ok"
			case err.Error() == pdnode_coord.ErrNodeUnavailable.ToErrorType().Error():
				ret = "nonode"
			default:
				ret = "regerr"
			}
			in.coord.VerifDrainCheckChan()
		case "U":
			in.coord.SetClusterUpgradeState(e.f[0] == "1") // leaving the upgrade state sleeps 1 s before triggering a check
			in.coord.VerifDrainCheckChan()
		case "LC":
			in.begin(-1, false)
			in.lcoord.VerifDoCheckNamespacesForLearner(in.monitor)
			e.f[0] = in.order()
		case "LS":
			in.lcoord.SwitchStartLearner(e.f[0] == "1")
		case "LA":
			pid := atoi(e.f[0])
			in.begin(pid, false)
			ret = lerrName(in.lcoord.VerifAddNsLearnerToNode(in.reg.stored(pid), in.learnerID(atoi(e.f[1]), true)))
		case "LL":
			pid := atoi(e.f[0])
			in.begin(pid, false)
			ret = lerrName(in.lcoord.VerifUpdateNsLearnerLeader(in.reg.stored(pid), in.learnerID(atoi(e.f[1]), true)))
		case "LR":
			pid := atoi(e.f[0])
			in.begin(pid, false)
			if err := in.lcoord.VerifRemoveNsLearnerFromNode(nsName, pid, in.learnerID(atoi(e.f[1]), true), e.f[2] == "1"); err != nil {
				ret = "lerr"
			} else {
				ret = "lok"
			}
		case "LX":
			pid := atoi(e.f[0])
			in.begin(pid, false)
			if err := in.lcoord.VerifRemoveNsAllLearners(in.reg.stored(pid)); err != nil {
				ret = "lerr"
			} else {
				ret = "lok"
			}
		default:
			panic("unknown event kind " + e.kind)
		}
	})
	in.probing = false
	if panicked {
		if os.Getenv("VERIF_DEBUG") != "" {
			fmt.Fprintln(os.Stderr, "PANIC:", msg)
		}
		ret = "panic"
	}
	w := in.writesStr()
	if e.kind == "P" {
		// which partition processRemovingNodes acted on is visible only through its update attempt
		if i := strings.Index(w, "{p="); i >= 0 {
			fmt.Sscanf(w[i:], "{p=%s", &acted)
		}
		e.f[0] = acted
	}
	return ret + " | " + w + " | " + in.stateStr()
}
