package main

import (
	"os"
	"fmt"
	"sort"
	"strconv"
	"strings"
	"sync"
	"time"

	"github.com/youzan/ZanRedisDB/cluster"
	"github.com/youzan/ZanRedisDB/cluster/pdnode_coord"
	"verif/harness/internal/hx"
)

const (
	nsName    = "vns"
	clock0    = 1000 // virtual clock (minutes) at the start of a sequence
	clockUnit = 3    // every clock advance is a multiple of 3 minutes (never equal to a wait interval of 5 or 16)
)

// event: one line of cases.tsv (kind + fields). Fields that are oracle answers taken from the
// implementation's own placement function (C, M, B, P) are (re)computed when the event is executed.
type event struct {
	kind string
	f    []string
}

func (e event) line(id string) string {
	return id + "\t" + e.kind + "\t" + strings.Join(e.f, "\t")
}

type inst struct {
	slot, port int
	coord      *pdnode_coord.PDCoordinator
	lcoord     *pdnode_coord.PDCoordinator // the learner placement driver, same register
	reg        *memRegister
	tab        *stubTable
	monitor    chan struct{}
	wg         sync.WaitGroup
	waiting    map[string]map[int]time.Time
	t0         time.Time
	shift      time.Duration
	replica    int
}

func (in *inst) nodeID(k int) string {
	return fmt.Sprintf("%d:%s::%d:%d:datanode", k, nodeIP(in.slot, k), 6000+k, in.port)
}
func kOf(nid string) int { return int(cluster.ExtractRegIDFromGenID(nid)) }

const (
	learnerRole = "role_log_syncer"
	otherRole   = "role_other"
)

// learner nodes have numbers >= 100
func (in *inst) learnerID(k int, same bool) string {
	role := learnerRole
	if !same {
		role = otherRole
	}
	return fmt.Sprintf("%d:%s::%d:%d:datanode-learner-%s", k, nodeIP(in.slot, k), 6000+k, in.port, role)
}

func ints(s string) []int {
	if s == "" || s == "-" {
		return nil
	}
	var out []int
	for _, p := range strings.Split(s, ",") {
		v, err := strconv.Atoi(p)
		if err != nil {
			panic("bad int list: " + s)
		}
		out = append(out, v)
	}
	return out
}
func joinInts(l []int) string {
	if len(l) == 0 {
		return "-"
	}
	p := make([]string, len(l))
	for i, v := range l {
		p[i] = strconv.Itoa(v)
	}
	return strings.Join(p, ",")
}

// virtual stamp (minutes) of a wall-clock value stored by the coordinator
func (in *inst) vstamp(ns int64) int64 {
	if ns == 0 {
		return 0
	}
	d := int64(time.Duration(ns-in.t0.UnixNano()) + in.shift)
	u := int64(time.Duration(clockUnit) * time.Minute)
	x := d + u/2
	q := x / u
	if x%u != 0 && x < 0 {
		q--
	}
	return clock0 + q*clockUnit
}
func (in *inst) wallOf(v int64) int64 {
	if v == 0 {
		return 0
	}
	return in.t0.Add(time.Duration(v-clock0)*time.Minute - in.shift).UnixNano()
}

func (in *inst) infoStr(p *cluster.PartitionReplicaInfo) string {
	nodes := make([]int, len(p.RaftNodes))
	for i, n := range p.RaftNodes {
		nodes[i] = kOf(n)
	}
	var ids, rms []string
	for n, id := range p.RaftIDs {
		ids = append(ids, fmt.Sprintf("%06d:%d", kOf(n), id))
	}
	for n, r := range p.Removings {
		rms = append(rms, fmt.Sprintf("%06d:%d:%d", kOf(n), r.RemoveReplicaID, in.vstamp(r.RemoveTime)))
	}
	sort.Strings(ids)
	sort.Strings(rms)
	trim := func(l []string) string {
		if len(l) == 0 {
			return "-"
		}
		for i := range l {
			l[i] = strings.TrimLeft(l[i][:6], "0") + l[i][6:]
			if strings.HasPrefix(l[i], ":") {
				l[i] = "0" + l[i]
			}
		}
		return strings.Join(l, ",")
	}
	var lr []int
	for _, n := range p.LearnerNodes[learnerRole] {
		lr = append(lr, kOf(n))
	}
	return fmt.Sprintf("n=%s i=%s r=%s m=%d l=%s", joinInts(nodes), trim(ids), trim(rms), p.MaxRaftID, joinInts(lr))
}

func errName(e *cluster.CoordErr) string {
	switch e {
	case nil:
		return "ok"
	case cluster.ErrClusterChanged:
		return "changed"
	case pdnode_coord.ErrNamespaceMigrateWaiting:
		return "waiting"
	case pdnode_coord.ErrNodeUnavailable:
		return "nonode"
	case cluster.ErrNamespaceConfInvalid:
		return "confinvalid"
	case cluster.ErrRegisterServiceUnstable:
		return "regunstable"
	case cluster.ErrNamespaceWaitingSync:
		return "waitsync"
	case pdnode_coord.ErrNamespaceNodeConflict:
		return "conflict"
	case pdnode_coord.ErrNamespaceRaftIDNotFound:
		return "noraftid"
	case pdnode_coord.ErrNamespaceReplicaNotEnough:
		return "notenough"
	}
	if e.ErrType == cluster.CoordRegisterErr {
		return "regerr"
	}
	return "other:" + e.ErrMsg
}

func lerrName(e *cluster.CoordErr) string {
	if e == nil {
		return "lok"
	}
	if e.ErrType == cluster.CoordRegisterErr {
		return "lregerr"
	}
	return "lerr"
}

func newInst(slot, port int, e event) *inst {
	// I  replica  nodes  ids  removings  maxid  auto  balancever  learners
	in := &inst{slot: slot, port: port, t0: time.Now(), waiting: map[string]map[int]time.Time{}}
	in.replica, _ = strconv.Atoi(e.f[0])
	var info cluster.PartitionReplicaInfo
	info.RaftIDs = map[string]uint64{}
	info.Removings = map[string]cluster.RemovingInfo{}
	for _, k := range ints(e.f[1]) {
		info.RaftNodes = append(info.RaftNodes, in.nodeID(k))
	}
	if e.f[2] != "-" {
		for _, p := range strings.Split(e.f[2], ",") {
			var k int
			var id uint64
			fmt.Sscanf(p, "%d:%d", &k, &id)
			info.RaftIDs[in.nodeID(k)] = id
		}
	}
	if e.f[3] != "-" {
		for _, p := range strings.Split(e.f[3], ",") {
			var k int
			var id uint64
			var v int64
			fmt.Sscanf(p, "%d:%d:%d", &k, &id, &v)
			info.Removings[in.nodeID(k)] = cluster.RemovingInfo{RemoveTime: in.wallOf(v), RemoveReplicaID: id}
		}
	}
	info.MaxRaftID, _ = strconv.ParseInt(e.f[4], 10, 64)
	if len(e.f) > 7 && e.f[7] != "-" && e.f[7] != "" {
		info.LearnerNodes = map[string][]string{}
		for _, k := range ints(e.f[7]) {
			info.LearnerNodes[learnerRole] = append(info.LearnerNodes[learnerRole], in.learnerID(k, true))
		}
		// their ids are among e.f[2] (keyed by the learner's number)
		for n, id := range info.RaftIDs {
			if kOf(n) >= 100 {
				delete(info.RaftIDs, n)
				info.RaftIDs[in.learnerID(kOf(n), true)] = id
			}
		}
	}
	in.reg = newMemRegister(nsName, in.replica, info)
	in.tab = &stubTable{ans: map[int]answer{}}
	stubsMu.Lock()
	stubs[slot] = in.tab
	stubsMu.Unlock()
	me := &cluster.NodeInfo{NodeIP: "127.0.0.1", HttpPort: "1", RedisPort: "2", RegID: 9999}
	opts := &cluster.Options{AutoBalanceAndMigrate: e.f[5] == "1", BalanceStart: 0, BalanceEnd: 24, BalanceVer: e.f[6]}
	in.coord = pdnode_coord.VerifNewPDCoordinator("verif-cluster", me, opts, in.reg)
	lme := &cluster.NodeInfo{NodeIP: "127.0.0.1", HttpPort: "3", RedisPort: "4", RegID: 9998, LearnerRole: learnerRole}
	in.lcoord = pdnode_coord.VerifNewPDCoordinator("verif-cluster", lme, opts, in.reg)
	in.monitor = make(chan struct{})
	in.wg.Add(2)
	go func() {
		defer in.wg.Done()
		in.coord.VerifHandleDataNodes(in.monitor, true)
	}()
	<-in.reg.watchReady // keep the watcher order fixed: main driver first
	go func() {
		defer in.wg.Done()
		in.lcoord.VerifHandleDataNodes(in.monitor, false)
	}()
	<-in.reg.watchReady
	return in
}

func (in *inst) close() {
	close(in.monitor)
	in.wg.Wait()
	stubsMu.Lock()
	delete(stubs, in.slot)
	stubsMu.Unlock()
}

// placement oracle: what the coordinator's own placement function answers for partition 0 now
func (in *inst) place(cur map[string]cluster.NodeInfo) string {
	info := in.reg.stored()
	var first string
	for i := 0; i < 3; i++ {
		var l [][]string
		var err *cluster.CoordErr
		s := "x"
		if _, p := hx.Recover(func() { l, err = in.coord.VerifPartitionPlacement(info, cur) }); p {
			s = "panic"
		} else if err == nil {
			if len(l) < 1 {
				s = "short"
			} else {
				ks := make([]int, len(l[0]))
				for j, n := range l[0] {
					ks[j] = kOf(n)
				}
				s = joinInts(ks)
			}
		}
		if i == 0 {
			first = s
		} else if s != first {
			return "nondet"
		}
	}
	return first
}

func (in *inst) stateStr() string {
	s := in.coord.VerifState()
	in.reg.mu.Lock()
	info := in.reg.info.DeepClone()
	ep, fl := in.reg.epoch, in.reg.failNext
	in.reg.mu.Unlock()
	w := "-"
	if t, ok := in.waiting[nsName][0]; ok {
		w = fmt.Sprint(in.vstamp(t.UnixNano()))
	}
	dn := make([]int, 0, len(s.DataNodes))
	for _, n := range s.DataNodes {
		dn = append(dn, kOf(n))
	}
	sort.Ints(dn)
	var rn []string
	for n, st := range s.RemovingNodes {
		rn = append(rn, fmt.Sprintf("%06d:%s", kOf(n), st))
	}
	sort.Strings(rn)
	for i := range rn {
		rn[i] = strings.TrimLeft(rn[i][:6], "0") + rn[i][6:]
	}
	rns := "-"
	if len(rn) > 0 {
		rns = strings.Join(rn, ",")
	}
	b := func(x bool) int {
		if x {
			return 1
		}
		return 0
	}
	var ln []int
	for _, n := range in.lcoord.VerifState().LearnerNodes {
		ln = append(ln, kOf(n))
	}
	sort.Ints(ln)
	ls := "-"
	in.reg.mu.Lock()
	v, okv := in.reg.kv["placedriver:learner:need_start_learner:"+learnerRole]
	in.reg.mu.Unlock()
	if okv {
		ls = "0"
		if v == "true" {
			ls = "1"
		}
	}
	in.reg.mu.Lock()
	rp := in.reg.meta.Replica
	md := in.reg.mode
	in.reg.mu.Unlock()
	return fmt.Sprintf("reg[%s e=%d] wait=%s un=%d au=%d ne=%d st=%d dn=%s rn=%s fail=%d ln=%s ls=%s rp=%d up=%d md=%d", in.infoStr(&info), ep, w,
		b(s.Unstable), b(s.AutoBalance), s.NodesEpoch, s.StableNodeNum, joinInts(dn), rns, fl, joinInts(ln), ls, rp, b(s.Upgrading), md)
}

func (in *inst) writesStr() string {
	as := in.reg.takeAttempts()
	if len(as) == 0 {
		return "-"
	}
	p := make([]string, len(as))
	for i, a := range as {
		r := "fail"
		if a.ok {
			r = "ok"
		}
		p[i] = fmt.Sprintf("{%s g=%d %s}", in.infoStr(&a.info), a.oldGen, r)
	}
	return strings.Join(p, "")
}

func (in *inst) freshInfo() *cluster.PartitionMetaInfo {
	return in.reg.stored()
}

// exec runs one event on the real coordinator; returns "ret | writes | state".
// Oracle fields of the event are filled in.
func (in *inst) exec(e *event) string {
	ret := "-"
	msg, panicked := hx.Recover(func() {
		switch e.kind {
		case "N":
			var l []cluster.NodeInfo
			for _, k := range ints(e.f[0]) {
				l = append(l, cluster.NodeInfo{RegID: uint64(k), ID: in.nodeID(k), NodeIP: nodeIP(in.slot, k),
					HttpPort: strconv.Itoa(in.port), RedisPort: strconv.Itoa(6000 + k)})
			}
			// learner nodes: "k" (this learner role) or "k!" (another role)
			if len(e.f) > 1 && e.f[1] != "-" && e.f[1] != "" {
				for _, p := range strings.Split(e.f[1], ",") {
					same := !strings.HasSuffix(p, "!")
					k, _ := strconv.Atoi(strings.TrimSuffix(p, "!"))
					role := learnerRole
					if !same {
						role = otherRole
					}
					l = append(l, cluster.NodeInfo{RegID: uint64(k), ID: in.learnerID(k, same), NodeIP: nodeIP(in.slot, k),
						HttpPort: strconv.Itoa(in.port), RedisPort: strconv.Itoa(6000 + k), LearnerRole: role})
				}
			}
			in.reg.deliver(l)
			ret = fmt.Sprint(len(in.coord.VerifDrainCheckChan()) > 0)
		case "A":
			in.tab.mu.Lock()
			for _, p := range strings.Split(e.f[0], ";") {
				kv := strings.SplitN(p, "=", 2)
				k, _ := strconv.Atoi(kv[0])
				if kv[1] == "!" {
					delete(in.tab.ans, k)
					continue
				}
				ms := strings.SplitN(kv[1], "/", 2)
				a := answer{synced: ms[1] == "1"}
				switch ms[0] {
				case "x":
					a.memErr = true
				case "-":
				default:
					for _, m := range strings.Split(ms[0], ",") {
						var n, id uint64
						fmt.Sscanf(m, "%d:%d", &n, &id)
						a.members = append(a.members, [2]uint64{n, id})
					}
				}
				in.tab.ans[k] = a
			}
			in.tab.mu.Unlock()
		case "T":
			d, _ := strconv.Atoi(e.f[0])
			dd := time.Duration(d) * time.Minute
			in.shift += dd
			for _, parts := range in.waiting {
				for pid, t := range parts {
					parts[pid] = t.Add(-dd)
				}
			}
			in.reg.mu.Lock()
			for n, r := range in.reg.info.Removings {
				if r.RemoveTime != 0 {
					r.RemoveTime -= int64(dd)
					in.reg.info.Removings[n] = r
				}
			}
			in.reg.mu.Unlock()
		case "C":
			// C full single placeAll placeAvail
			all, _ := in.coord.GetAllDataNodes()
			avail, _ := in.coord.VerifGetCurrentNodesWithEpoch(nil)
			e.f[2] = in.place(all)
			e.f[3] = in.place(avail)
			var fi *cluster.NamespaceNameInfo
			if e.f[1] == "1" {
				fi = &cluster.NamespaceNameInfo{NamespaceName: nsName, NamespacePartition: 0}
			}
			in.coord.VerifDoCheckNamespaces(in.monitor, fi, in.waiting, e.f[0] == "1")
		case "M":
			// M epochDelta place
			info := in.freshInfo()
			cur, ep := in.coord.VerifGetCurrentNodesWithEpoch(nil)
			e.f[1] = in.place(cur)
			d, _ := strconv.Atoi(e.f[0])
			ret = errName(in.coord.VerifHandleNamespaceMigrate(info, cur, ep+int64(d)))
		case "D":
			k, _ := strconv.Atoi(e.f[0])
			ret = errName(in.coord.VerifAddNamespaceToNode(in.freshInfo(), in.nodeID(k)))
		case "R":
			k, _ := strconv.Atoi(e.f[0])
			ret = errName(in.coord.VerifRemoveNamespaceFromNode(in.freshInfo(), in.nodeID(k)))
		case "F":
			in.coord.VerifRemoveNamespaceFromRemovings(in.freshInfo())
		case "X":
			n, _ := strconv.Atoi(e.f[0])
			in.reg.mu.Lock()
			in.reg.failNext = n
			in.reg.mu.Unlock()
		case "O":
			in.coord.SwitchAutoBalance(e.f[0] == "1")
		case "B":
			e.f[0] = in.place(in.coord.VerifGetCurrentNodes(nil))
			bm := make(chan struct{})
			var once sync.Once
			in.reg.mu.Lock()
			in.reg.onAttempt = func() { once.Do(func() { close(bm) }) }
			in.reg.mu.Unlock()
			moved, allBalanced := in.coord.VerifRebalanceNamespace(bm)
			in.reg.mu.Lock()
			in.reg.onAttempt = nil
			in.reg.mu.Unlock()
			ret = fmt.Sprintf("%v,%v", moved, allBalanced)
		case "K":
			k, _ := strconv.Atoi(e.f[0])
			in.coord.MarkNodeAsRemoving(in.nodeID(k))
		case "P":
			e.f[0] = in.place(in.coord.VerifGetCurrentNodes(nil))
			st := in.coord.VerifState()
			if len(st.RemovingNodes) > 0 { // the ticker body of handleRemovingNodes
				closed := make(chan struct{})
				close(closed)
				in.coord.VerifProcessRemovingNodes(closed, st.RemovingNodes)
			}
		case "Y":
			m, _ := strconv.Atoi(e.f[0])
			in.reg.mu.Lock()
			in.reg.mode = m
			in.reg.mu.Unlock()
		case "G":
			// ChangeNamespaceMetaParam(newReplicator)
			n, _ := strconv.Atoi(e.f[0])
			err := in.coord.ChangeNamespaceMetaParam(nsName, n, "", 0)
			switch {
			case err == nil:
				ret = "ok"
			case err.Error() == pdnode_coord.ErrNodeUnavailable.ToErrorType().Error():
				ret = "nonode"
			default:
				ret = "regerr"
			}
			in.coord.VerifDrainCheckChan()
		case "U":
			in.coord.SetClusterUpgradeState(e.f[0] == "1") // leaving the upgrade state sleeps 1 s before triggering a check
			in.coord.VerifDrainCheckChan()
		case "LC":
			in.lcoord.VerifDoCheckNamespacesForLearner(in.monitor)
		case "LS":
			in.lcoord.SwitchStartLearner(e.f[0] == "1")
		case "LA":
			k, _ := strconv.Atoi(e.f[0])
			ret = lerrName(in.lcoord.VerifAddNsLearnerToNode(in.freshInfo(), in.learnerID(k, true)))
		case "LL":
			k, _ := strconv.Atoi(e.f[0])
			ret = lerrName(in.lcoord.VerifUpdateNsLearnerLeader(in.freshInfo(), in.learnerID(k, true)))
		case "LR":
			k, _ := strconv.Atoi(e.f[0])
			if err := in.lcoord.VerifRemoveNsLearnerFromNode(nsName, 0, in.learnerID(k, true), e.f[1] == "1"); err != nil {
				ret = "lerr"
			} else {
				ret = "lok"
			}
		case "LX":
			if err := in.lcoord.VerifRemoveNsAllLearners(in.freshInfo()); err != nil {
				ret = "lerr"
			} else {
				ret = "lok"
			}
		default:
			panic("unknown event kind " + e.kind)
		}
	})
	if panicked {
		if os.Getenv("VERIF_DEBUG") != "" { fmt.Fprintln(os.Stderr, "PANIC:", msg) }
		ret = "panic"
	}
	return ret + " | " + in.writesStr() + " | " + in.stateStr()
}
