package main

import (
	"errors"
	"sync"

	"github.com/youzan/ZanRedisDB/cluster"
)

// memRegister: in-memory cluster.PDRegister holding ONE namespace with partitions 0..n-1.
// Reads return deep copies carrying the stored modification index (epoch); the replica-info update
// is a compare-and-swap on that index, exactly the contract of PDEtcdRegister.
// Every update ATTEMPT is logged (value passed by the coordinator, old generation, outcome).
type attempt struct {
	pid    int
	info   cluster.PartitionReplicaInfo
	oldGen int64
	ok     bool
}

type pstate struct {
	info  cluster.PartitionReplicaInfo // stored value
	epoch int64                        // its modification index
}

type memRegister struct {
	mu       sync.Mutex
	ns       string
	meta     cluster.NamespaceMetaInfo
	parts    []*pstate
	touched  []int                        // partitions in the order the coordinator first looked at them in this event
	counter  int64                        // global modification index
	failNext int                          // the next failNext updates fail (register unreachable / concurrent writer)
	attempts []attempt
	onAttempt func() // called (outside the lock) at every update attempt
	onGetAll  func() // called (outside the lock) at every GetAllNamespaces

	// 0 healthy; 1 etcd unreachable, the namespace cache still serves (remote read, KV and updates fail); 2 all fails
	mode int
	kv   map[string]string // SaveKV / GetKV
	metaEpoch int64      // modification index of the namespace meta

	// one (feed, ack) pair per WatchDataNodes caller (the main and the learner placement driver)
	watchers   []*watcher
	watchReady chan struct{}
}

type watcher struct {
	feed chan []cluster.NodeInfo
	ack  chan struct{}
}

var errCAS = errors.New("compare failed")
var errUnreach = errors.New("register unreachable")

func newMemRegister(ns string, replica int, infos []cluster.PartitionReplicaInfo) *memRegister {
	r := &memRegister{ns: ns, kv: map[string]string{}, watchReady: make(chan struct{}, 8)}
	r.meta = cluster.NamespaceMetaInfo{PartitionNum: len(infos), Replica: replica, MagicCode: 1, MinGID: 0, EngType: "mem"}
	r.counter = 1
	for _, i := range infos {
		r.parts = append(r.parts, &pstate{info: i.DeepClone(), epoch: 1})
	}
	return r
}

func (r *memRegister) has(pid int) bool { return pid >= 0 && pid < len(r.parts) }

// touch notes that the coordinator is now working on partition pid (caller holds the lock or is the stub)
func (r *memRegister) touch(pid int) {
	for _, p := range r.touched {
		if p == pid {
			return
		}
	}
	r.touched = append(r.touched, pid)
}

func (r *memRegister) partCopy(pid int) cluster.PartitionMetaInfo {
	p := cluster.PartitionMetaInfo{Name: r.ns, Partition: pid}
	p.NamespaceMetaInfo = r.meta.DeepClone()
	p.PartitionReplicaInfo = r.parts[pid].info.DeepClone()
	p.PartitionReplicaInfo.VerifSetEpoch(cluster.EpochType(r.parts[pid].epoch))
	return p
}

func (r *memRegister) takeAttempts() []attempt {
	r.mu.Lock()
	defer r.mu.Unlock()
	a := r.attempts
	r.attempts = nil
	return a
}

// ---- cluster.Register ----
func (r *memRegister) InitClusterID(id string) {}
func (r *memRegister) Start()                  {}
func (r *memRegister) Stop()                   {}
func (r *memRegister) GetAllPDNodes() ([]cluster.NodeInfo, error) {
	return nil, nil
}
// stored is the harness's own view of the stored value (never fails)
func (r *memRegister) stored(pid int) *cluster.PartitionMetaInfo {
	r.mu.Lock()
	defer r.mu.Unlock()
	p := r.partCopy(pid)
	return &p
}

func (r *memRegister) GetNamespacePartInfo(ns string, partition int) (*cluster.PartitionMetaInfo, error) {
	r.mu.Lock()
	defer r.mu.Unlock()
	if r.has(partition) {
		r.touch(partition)
	}
	if r.mode >= 2 {
		return nil, errUnreach
	}
	if ns != r.ns || !r.has(partition) {
		return nil, cluster.ErrKeyNotFound
	}
	p := r.partCopy(partition)
	return &p, nil
}
func (r *memRegister) GetRemoteNamespaceReplicaInfo(ns string, partition int) (*cluster.PartitionReplicaInfo, error) {
	r.mu.Lock()
	defer r.mu.Unlock()
	if r.has(partition) {
		r.touch(partition)
	}
	if r.mode >= 1 {
		return nil, errUnreach
	}
	if ns != r.ns || !r.has(partition) {
		return nil, cluster.ErrKeyNotFound
	}
	p := r.partCopy(partition)
	return &p.PartitionReplicaInfo, nil
}
func (r *memRegister) GetNamespaceMetaInfo(ns string) (cluster.NamespaceMetaInfo, error) {
	r.mu.Lock()
	defer r.mu.Unlock()
	if r.mode >= 2 {
		return cluster.NamespaceMetaInfo{}, errUnreach
	}
	if ns != r.ns {
		return cluster.NamespaceMetaInfo{}, cluster.ErrKeyNotFound
	}
	m := r.meta.DeepClone()
	m.VerifSetMetaEpoch(cluster.EpochType(r.metaEpoch))
	return m, nil
}
func (r *memRegister) GetNamespaceInfo(ns string) ([]cluster.PartitionMetaInfo, error) {
	r.mu.Lock()
	defer r.mu.Unlock()
	if r.mode >= 2 {
		return nil, errUnreach
	}
	if ns != r.ns {
		return nil, cluster.ErrKeyNotFound
	}
	var out []cluster.PartitionMetaInfo
	for pid := range r.parts {
		out = append(out, r.partCopy(pid))
	}
	return out, nil
}
func (r *memRegister) GetAllNamespaces() (map[string]map[int]cluster.PartitionMetaInfo, cluster.EpochType, error) {
	r.mu.Lock()
	cb := r.onGetAll
	if r.mode >= 2 {
		r.mu.Unlock()
		return nil, 0, errUnreach
	}
	m := map[string]map[int]cluster.PartitionMetaInfo{r.ns: {}}
	for pid := range r.parts {
		m[r.ns][pid] = r.partCopy(pid)
	}
	c := r.counter
	r.mu.Unlock()
	if cb != nil {
		cb()
	}
	return m, cluster.EpochType(c), nil
}
func (r *memRegister) GetNamespacesNotifyChan() chan struct{} { return nil }
func (r *memRegister) GetNamespaceSchemas(ns string) (map[string]cluster.SchemaInfo, error) {
	return nil, cluster.ErrKeyNotFound
}
func (r *memRegister) GetNamespaceTableSchema(ns string, table string) (*cluster.SchemaInfo, error) {
	return nil, cluster.ErrKeyNotFound
}
func (r *memRegister) SaveKV(key string, value string) error {
	r.mu.Lock()
	defer r.mu.Unlock()
	if r.mode >= 1 {
		return errUnreach
	}
	r.kv[key] = value
	return nil
}
func (r *memRegister) GetKV(key string) (string, error) {
	r.mu.Lock()
	defer r.mu.Unlock()
	if r.mode >= 1 {
		return "", errUnreach
	}
	v, ok := r.kv[key]
	if !ok {
		return "", cluster.ErrKeyNotFound
	}
	return v, nil
}

// ---- cluster.PDRegister ----
func (r *memRegister) Register(nodeData *cluster.NodeInfo) error   { return nil }
func (r *memRegister) Unregister(nodeData *cluster.NodeInfo) error { return nil }
func (r *memRegister) GetClusterEpoch() (cluster.EpochType, error) {
	return cluster.EpochType(r.counter), nil
}
func (r *memRegister) GetClusterMetaInfo() (cluster.ClusterMetaInfo, error) {
	return cluster.ClusterMetaInfo{}, nil
}
func (r *memRegister) AcquireAndWatchLeader(leader chan *cluster.NodeInfo, stop chan struct{}) {}
func (r *memRegister) GetDataNodes() ([]cluster.NodeInfo, error)                             { return nil, nil }

// WatchDataNodes forwards the node lists the harness feeds; after each delivery it acknowledges, so the
// harness knows the coordinator's watch loop has taken the event.
func (r *memRegister) WatchDataNodes(nodeC chan []cluster.NodeInfo, stopC chan struct{}) {
	defer close(nodeC)
	w := &watcher{feed: make(chan []cluster.NodeInfo), ack: make(chan struct{})}
	r.mu.Lock()
	r.watchers = append(r.watchers, w)
	r.mu.Unlock()
	r.watchReady <- struct{}{}
	for {
		select {
		case <-stopC:
			return
		case l := <-w.feed:
			select {
			case nodeC <- l:
				w.ack <- struct{}{}
			case <-stopC:
				return
			}
		}
	}
}

// deliver hands a node list to every watcher twice: when the second delivery is taken, the first has been
// processed completely by that coordinator's watch loop.
func (r *memRegister) deliver(l []cluster.NodeInfo) {
	r.mu.Lock()
	ws := append([]*watcher{}, r.watchers...)
	r.mu.Unlock()
	for _, w := range ws {
		for i := 0; i < 2; i++ {
			w.feed <- l
			<-w.ack
		}
	}
}
func (r *memRegister) CreateNamespace(ns string, meta *cluster.NamespaceMetaInfo) error { return nil }
func (r *memRegister) UpdateNamespaceMetaInfo(ns string, meta *cluster.NamespaceMetaInfo, oldGen cluster.EpochType) error {
	r.mu.Lock()
	defer r.mu.Unlock()
	if r.mode >= 1 {
		return errUnreach
	}
	if ns != r.ns {
		return cluster.ErrKeyNotFound
	}
	if int64(oldGen) != r.metaEpoch {
		return errCAS
	}
	r.counter++
	r.metaEpoch = r.counter
	r.meta = meta.DeepClone()
	meta.VerifSetMetaEpoch(cluster.EpochType(r.metaEpoch))
	return nil
}
func (r *memRegister) CreateNamespacePartition(ns string, partition int) error { return nil }
func (r *memRegister) IsExistNamespace(ns string) (bool, error)                { return ns == r.ns, nil }
func (r *memRegister) IsExistNamespacePartition(ns string, partition int) (bool, error) {
	return ns == r.ns && r.has(partition), nil
}
func (r *memRegister) DeleteNamespacePart(ns string, partition int) error { return nil }
func (r *memRegister) DeleteWholeNamespace(ns string) error               { return nil }

func (r *memRegister) UpdateNamespacePartReplicaInfo(ns string, partition int,
	replicaInfo *cluster.PartitionReplicaInfo, oldGen cluster.EpochType) error {
	r.mu.Lock()
	a := attempt{pid: partition, info: replicaInfo.DeepClone(), oldGen: int64(oldGen)}
	var err error
	if r.has(partition) {
		r.touch(partition)
	}
	switch {
	case ns != r.ns || !r.has(partition):
		err = cluster.ErrKeyNotFound
	case r.mode >= 1:
		err = errUnreach
	case r.failNext > 0:
		r.failNext--
		err = errUnreach
	case int64(oldGen) != r.parts[partition].epoch:
		err = errCAS
	default:
		r.counter++
		r.parts[partition].epoch = r.counter
		r.parts[partition].info = replicaInfo.DeepClone()
		replicaInfo.VerifSetEpoch(cluster.EpochType(r.counter))
		a.ok = true
	}
	r.attempts = append(r.attempts, a)
	cb := r.onAttempt
	r.mu.Unlock()
	if cb != nil {
		cb()
	}
	return err
}
func (r *memRegister) PrepareNamespaceMinGID() (int64, error) { return 0, nil }
func (r *memRegister) UpdateNamespaceSchema(ns string, table string, schema *cluster.SchemaInfo) error {
	return nil
}
