package main

import (
	"fmt"
	"strconv"
	"strings"
	"sync"

	"github.com/youzan/ZanRedisDB/cluster"
	"github.com/youzan/ZanRedisDB/cluster/pdnode_coord"
	"verif/harness/internal/hx"
)

// "Z" cases: namespace creation (pd_api.go CreateNamespace -> checkAndUpdateNamespacePartitions ->
// allocNamespaceRaftNodes) on an empty register: where the start layouts of the migration property come from.
// createRegister: no namespace at first; replica infos are created with old generation 0.
type createAttempt struct {
	part int
	attempt
}

type createRegister struct {
	*memRegister
	created bool
	parts   map[int]cluster.PartitionReplicaInfo
	epochs  map[int]int64
	log     []createAttempt
}

func newCreateRegister() *createRegister {
	return &createRegister{memRegister: newMemRegister(nsName, 0, nil),
		parts: map[int]cluster.PartitionReplicaInfo{}, epochs: map[int]int64{}}
}
func (r *createRegister) IsExistNamespace(ns string) (bool, error) { return r.created, nil }
func (r *createRegister) CreateNamespace(ns string, meta *cluster.NamespaceMetaInfo) error {
	r.mu.Lock()
	defer r.mu.Unlock()
	if r.created {
		return cluster.ErrKeyAlreadyExist
	}
	r.created = true
	r.meta = meta.DeepClone()
	return nil
}
func (r *createRegister) GetNamespacePartInfo(ns string, partition int) (*cluster.PartitionMetaInfo, error) {
	r.mu.Lock()
	defer r.mu.Unlock()
	p, ok := r.parts[partition]
	if !ok || ns != r.ns {
		return nil, cluster.ErrKeyNotFound
	}
	m := cluster.PartitionMetaInfo{Name: r.ns, Partition: partition}
	m.NamespaceMetaInfo = r.meta.DeepClone()
	m.PartitionReplicaInfo = p.DeepClone()
	m.PartitionReplicaInfo.VerifSetEpoch(cluster.EpochType(r.epochs[partition]))
	return &m, nil
}
func (r *createRegister) GetAllNamespaces() (map[string]map[int]cluster.PartitionMetaInfo, cluster.EpochType, error) {
	r.mu.Lock()
	defer r.mu.Unlock()
	out := map[string]map[int]cluster.PartitionMetaInfo{}
	for pid, p := range r.parts { // as PDEtcdRegister: only partitions that have a replica info
		if out[r.ns] == nil {
			out[r.ns] = map[int]cluster.PartitionMetaInfo{}
		}
		m := cluster.PartitionMetaInfo{Name: r.ns, Partition: pid}
		m.NamespaceMetaInfo = r.meta.DeepClone()
		m.PartitionReplicaInfo = p.DeepClone()
		m.PartitionReplicaInfo.VerifSetEpoch(cluster.EpochType(r.epochs[pid]))
		out[r.ns][pid] = m
	}
	return out, cluster.EpochType(r.counter), nil
}
func (r *createRegister) UpdateNamespacePartReplicaInfo(ns string, partition int,
	replicaInfo *cluster.PartitionReplicaInfo, oldGen cluster.EpochType) error {
	r.mu.Lock()
	defer r.mu.Unlock()
	a := createAttempt{part: partition, attempt: attempt{info: replicaInfo.DeepClone(), oldGen: int64(oldGen)}}
	var err error
	if int64(oldGen) != r.epochs[partition] { // 0 = must not exist yet
		err = errCAS
	} else {
		r.counter++
		r.epochs[partition] = r.counter
		r.parts[partition] = replicaInfo.DeepClone()
		replicaInfo.VerifSetEpoch(cluster.EpochType(r.counter))
		a.ok = true
	}
	r.log = append(r.log, a)
	return err
}

// Z  replica  partnum  nodes  ver  [placement lists, filled in]
func runCreate(slot int, e *event) string {
	replica, _ := strconv.Atoi(e.f[0])
	pnum, _ := strconv.Atoi(e.f[1])
	in := &inst{slot: slot, port: *port}
	reg := newCreateRegister()
	me := &cluster.NodeInfo{NodeIP: "127.0.0.1", HttpPort: "1", RedisPort: "2", RegID: 9999}
	opts := &cluster.Options{AutoBalanceAndMigrate: true, BalanceStart: 0, BalanceEnd: 24, BalanceVer: e.f[3]}
	coord := pdnode_coord.VerifNewPDCoordinator("verif-cluster", me, opts, reg)
	monitor := make(chan struct{})
	var wg sync.WaitGroup
	wg.Add(1)
	go func() { defer wg.Done(); coord.VerifHandleDataNodes(monitor, true) }()
	var l []cluster.NodeInfo
	for _, k := range ints(e.f[2]) {
		l = append(l, cluster.NodeInfo{RegID: uint64(k), ID: in.nodeID(k), NodeIP: nodeIP(slot, k),
			HttpPort: strconv.Itoa(*port), RedisPort: strconv.Itoa(6000 + k)})
	}
	<-reg.watchReady
	reg.deliver(l)
	coord.VerifDrainCheckChan()
	// the placement oracle: what the placement function proposes for an empty register
	probe := &cluster.PartitionMetaInfo{Name: nsName}
	probe.PartitionNum, probe.Replica = pnum, replica
	place := "x"
	if _, p := hx.Recover(func() {
		lists, err := coord.VerifPartitionPlacement(probe, coord.VerifGetCurrentNodes(nil))
		if err == nil {
			var ps []string
			for _, pl := range lists {
				ks := make([]int, len(pl))
				for j, n := range pl {
					ks[j] = kOf(n)
				}
				ps = append(ps, joinInts(ks))
			}
			place = strings.Join(ps, ";")
		}
	}); p {
		place = "panic"
	}
	e.f[4] = place
	ret := "ok"
	if _, p := hx.Recover(func() {
		err := coord.CreateNamespace(nsName, cluster.NamespaceMetaInfo{PartitionNum: pnum, Replica: replica, EngType: "mem"})
		if err != nil {
			ret = "err"
			if err.Error() == pdnode_coord.ErrNodeUnavailable.ToErrorType().Error() {
				ret = "nonode"
			}
		}
	}); p {
		ret = "panic"
	}
	close(monitor)
	wg.Wait()
	var ws []string
	for _, a := range reg.log {
		r := "fail"
		if a.ok {
			r = "ok"
		}
		ws = append(ws, fmt.Sprintf("{p=%d %s g=%d %s}", a.part, in.infoStr(&a.info), a.oldGen, r))
	}
	w := "-"
	if len(ws) > 0 {
		w = strings.Join(ws, "")
	}
	return ret + " | " + w
}

func genCreate(r *hx.Rng) event {
	replica := 1 + r.Pick(5)
	m := replica + r.Pick(5)
	if r.Chance(0.15) {
		m = 1 + r.Pick(replica)
	}
	var nodes []int
	for _, k := range r.Perm(9) {
		if len(nodes) < m {
			nodes = append(nodes, k+1)
		}
	}
	ver := "v2"
	if r.Chance(0.3) {
		ver = "v1"
	}
	return event{"Z", []string{fmt.Sprint(replica), fmt.Sprint(1 + r.Pick(6)), joinInts(nodes), ver, ""}}
}
