package main

import (
	"encoding/json"
	"fmt"
	"net"
	"net/http"
	"strings"
	"sync"

	"github.com/youzan/ZanRedisDB/common"
)

// The coordinator learns data-node state only through HTTP GETs (common.APIRequest) to
//   http://<node ip>:<node http port>/cluster/members/<ns-pid>       -> []MemberInfo
//   http://<node ip>:<node http port>/cluster/israftsynced/<ns-pid>  -> 200 or error
// One loopback server answers for every simulated data node; nodes are told apart by the Host header
// (each node has its own 127.a.b.k address). The answers are set by the event sequence.
type answer struct {
	members [][2]uint64 // (node reg id, raft replica id)
	memErr  bool        // members query fails
	notLoad bool        // the node is up but has not started the namespace: 404 on both queries
	synced  bool
}

type stubKey struct{ k, pid int }

type stubTable struct {
	mu    sync.RWMutex
	ans   map[stubKey]answer // (node, partition) -> answer; missing = unreachable
	nq    int                // number of queries served (evidence)
	touch func(pid int)      // tells the register which partition the coordinator is asking about
}

// "/cluster/members/vns-3" -> 3
func pidOfPath(path string) int {
	i := strings.LastIndex(path, "-")
	if i < 0 {
		return -1
	}
	var pid int
	if _, err := fmt.Sscanf(path[i+1:], "%d", &pid); err != nil {
		return -1
	}
	return pid
}

var (
	stubsMu sync.RWMutex
	stubs   = map[int]*stubTable{} // instance slot -> table
)

func nodeIP(slot, k int) string { return fmt.Sprintf("127.%d.%d.%d", 10+slot/200, slot%200, k) }

func parseHost(host string) (slot, k int, ok bool) {
	h, _, err := net.SplitHostPort(host)
	if err != nil {
		h = host
	}
	var a, b, c, d int
	if n, _ := fmt.Sscanf(h, "%d.%d.%d.%d", &a, &b, &c, &d); n != 4 || a != 127 {
		return 0, 0, false
	}
	return (b-10)*200 + c, d, true
}

func stubHandler(w http.ResponseWriter, req *http.Request) {
	slot, k, ok := parseHost(req.Host)
	if !ok {
		http.Error(w, "bad host", 500)
		return
	}
	stubsMu.RLock()
	t := stubs[slot]
	stubsMu.RUnlock()
	if t == nil {
		http.Error(w, "no instance", 500)
		return
	}
	pid := pidOfPath(req.URL.Path)
	t.mu.Lock()
	a, present := t.ans[stubKey{k, pid}]
	t.nq++
	tf := t.touch
	t.mu.Unlock()
	if tf != nil && pid >= 0 {
		tf(pid)
	}
	switch {
	case !present:
		http.Error(w, "node down", 500)
	case a.notLoad:
		http.Error(w, "no namespace found", 404)
	case strings.HasPrefix(req.URL.Path, common.APIGetMembers+"/"):
		if a.memErr {
			http.Error(w, "members unavailable", 500)
			return
		}
		out := make([]*common.MemberInfo, 0, len(a.members))
		for _, m := range a.members {
			out = append(out, &common.MemberInfo{NodeID: m[0], ID: m[1]})
		}
		b, _ := json.Marshal(out)
		w.Header().Set("Content-Type", "application/json")
		w.Write(b)
	case strings.HasPrefix(req.URL.Path, common.APIIsRaftSynced+"/"):
		if !a.synced {
			http.Error(w, "not synced", 500)
			return
		}
		w.Write([]byte("{}"))
	default:
		// schema/index queries etc.: not available
		http.Error(w, "not found", 404)
	}
}

func startStub(port int) (net.Listener, error) {
	ln, err := net.Listen("tcp4", fmt.Sprintf("0.0.0.0:%d", port))
	if err != nil {
		return nil, err
	}
	srv := &http.Server{Handler: http.HandlerFunc(stubHandler)}
	srv.SetKeepAlivesEnabled(false)
	go srv.Serve(ln)
	return ln, nil
}
