// datasim — data-mapping layer harness (properties C08, C09; reused by C07/C10/C13).
//
// Generates command sequences from small adversarial pools (one seeded PRNG), runs them on a REAL
// node.StateMachine (package smx) and prints the projected observables.
//
//	cases.tsv : the inputs, one line per step (also the model's stdin)
//	  <seq>.<n> S <policy> <nowsec>                 fresh store
//	  <seq>.<n> W <grp> <mode> <ts> <hexargs>       write through ApplyRaftRequest (grp 0 = alone; consecutive
//	                                                lines with the same grp != 0 are applied together, mode
//	                                                b = shared batch operator, l = one request list)
//	  <seq>.<n> R <hexargs>                         read through the production read handler
//	  <seq>.<n> O <type> <hexkey>                   all read views of one collection (C09 observation)
//	  <seq>.<n> D <hexkeys>                         O over every type of every listed key (logical dump)
//	  <seq>.<n> T <hextables>                       table key counter of every listed table
//	  <seq>.<n> E                                   number of engine keys per key class
//	  <seq>.<n> X <ts> <type:hexkey,...>            one pass of the local_deletion expiry sweep; the listed keys are
//	                                                the ones whose expiry is over (what the models clear)
//	impl.out  : <id> TAB <canonical output>
//
// Canonical tokens: _ nil, :N integer, $hex bulk ("-" = empty), *n array header, fHEX float bits,
// -err any error, +s status. Byte strings travel as hex, "-" is the empty string.
package main

import (
	"flag"
	"fmt"
	"math"
	"net"
	"os"
	"path/filepath"
	"sort"
	"strconv"
	"strings"
	"time"

	"github.com/youzan/ZanRedisDB/common"
	"github.com/youzan/ZanRedisDB/rockredis"

	"github.com/siddontang/goredis"

	"verif/harness/internal/hx"
	"verif/harness/internal/smx"
	"verif/harness/internal/srv"
)

func main() {
	seed := flag.Int64("seed", 1, "PRNG seed")
	nseq := flag.Int("n", 50, "number of random sequences")
	slen := flag.Int("len", 40, "max write commands per sequence")
	eng := flag.String("engine", "mem", "mem | pebble | rocksdb")
	policy := flag.String("policy", "local", "local | compact | mix (per sequence)")
	types := flag.String("types", "khslz", "data types to generate: k h s l z")
	out := flag.String("out", ".", "output directory")
	replay := flag.String("replay", "", "re-run the cases of this file instead of generating")
	consts := flag.Bool("consts", false, "print coq/Data/Consts.v and exit")
	exh := flag.Int("exh", 0, "exhaustive mode: all write sequences up to this length over the tiny alphabet (per type)")
	raw := flag.Bool("raw", false, "also write raw.out (engine key/value listing at every D)")
	badkeys := flag.Bool("badkeys", false, "also use malformed keys (empty real key, no table separator): error paths, outside the models")
	expiry := flag.Bool("expiry", true, "also generate *expire / *persist / setex")
	counters := flag.Bool("counters", false, "end every sequence with the table key counters (T line)")
	flag.BoolVar(&withCounters, "xcounters", false, "exhaustive mode: end every sequence with the table key counter")
	big := flag.String("big", "", "big-collection mode: sizes around RangeDeleteNum, e.g. 4999,5000,5001 (-types hszl, -policy local|compact|mix)")
	live := flag.Bool("live", false, "third leg: send the generated sequences over the redis protocol to a real single-replica server (proposer-side handlers); no expiry commands, local policy, W/R/O lines only")
	sweep := flag.Bool("sweep", false, "expiry-sweep mode (local_deletion): collections with an expiry, one synchronous pass of the background sweep, a write to the same collection, observation")
	bigList := flag.Bool("biglist", false, "big-list mode: lists of 5003..12010 elements, LTRIM cutting more than RangeDeleteNum at the tail / head / both ends, regrowth at both ends")
	flag.BoolVar(&bigFirst, "bigfirst", false, "big-collection mode: only the first way of removing a collection per type")
	flag.Parse()

	if *consts {
		printConsts()
		return
	}
	smx.Quiet()
	var lines []string
	if *replay != "" {
		lines = hx.ReadLines(*replay)
	} else if *sweep {
		lines = genSweep(*types, *seed)
	} else if *bigList {
		lines = genBigList(*policy, *seed)
	} else if *big != "" {
		lines = genBig(*big, *types, *policy, *seed)
	} else if *exh > 0 {
		lines = genExhaustive(*exh, *types, *policy)
	} else {
		g := newGen(*seed, *types, *policy)
		g.badkeys, g.expiry = *badkeys, *expiry
		g.counters = *counters
		if *live {
			g.policy, g.expiry, g.counters, g.live = "local", false, false, true
		}
		for i := 0; i < *nseq; i++ {
			lines = append(lines, g.sequence(i+1, *slen)...)
		}
	}
	os.MkdirAll(*out, 0o755)
	cf := hx.Create(filepath.Join(*out, "cases.tsv"))
	for _, l := range lines {
		cf.Printf("%s\n", l)
	}
	cf.Close()
	ex := &executor{engine: *eng, out: hx.Create(filepath.Join(*out, "impl.out")), dbg: hx.Create(filepath.Join(*out, "impl.dbg"))}
	if *raw {
		ex.raw = hx.Create(filepath.Join(*out, "raw.out"))
	}
	if *live {
		ex.runLive(lines)
		ex.out.Close()
		ex.dbg.Close()
		os.Exit(0) // the server's own Stop sleeps for seconds
	}
	ex.run(lines)
	ex.close()
}

func printConsts() {
	fmt.Println("(* GENERATED by harness/cmd/datasim -consts from /repo; do not edit *)")
	fmt.Println("From Coq Require Import NArith ZArith.")
	fmt.Printf("Definition max_batch_num : Z := %d%%Z.\n", rockredis.MAX_BATCH_NUM)
	fmt.Printf("Definition range_delete_num : Z := %d%%Z.\n", rockredis.RangeDeleteNum)
	fmt.Printf("Definition max_key_size : Z := %d%%Z.\n", common.MaxKeySize)
	fmt.Printf("Definition max_subkey_len : Z := %d%%Z.\n", common.MaxSubKeyLen)
	fmt.Printf("Definition max_value_size : Z := %d%%Z.\n", common.MaxValueSize)
	fmt.Printf("Definition max_table_name_len : Z := %d%%Z.\n", rockredis.MaxTableNameLen)
	fmt.Printf("Definition table_sep : N := %d%%N.\n", ':')
	lmin, lmax, linit := rockredis.VerifListSeqs()
	fmt.Printf("Definition list_min_seq : Z := %d%%Z.\n", lmin)
	fmt.Printf("Definition list_max_seq : Z := %d%%Z.\n", lmax)
	fmt.Printf("Definition list_initial_seq : Z := %d%%Z.\n", linit)
}

// ---------------------------------------------------------------- executor

type executor struct {
	engine string
	sm     *smx.SM
	out    *hx.Out
	dbg    *hx.Out
	raw    *hx.Out
	nowsec int64 // read clock of the current case (S line)
	// live leg: a real single-replica server reached over the redis protocol
	live    *srv.Inst
	conn    *goredis.PoolConn
	liveTag string // per-sequence key prefix (the server is not restarted between sequences)
}

func (e *executor) close() {
	if e.sm != nil {
		e.sm.Close()
	}
	e.out.Close()
	e.dbg.Close()
	if e.raw != nil {
		e.raw.Close()
	}
}

type wline struct {
	id   string
	mode string
	req  smx.Req
}

func (e *executor) run(lines []string) {
	var pend []wline
	pendGrp := ""
	flush := func() {
		if len(pend) == 0 {
			return
		}
		reqs := make([]smx.Req, len(pend))
		for i, p := range pend {
			reqs[i] = p.req
		}
		mode := smx.OnePerCall
		if pendGrp != "0" {
			if pend[0].mode == "l" {
				mode = smx.OneRequestList
			} else {
				mode = smx.SharedBatch
			}
		}
		var rs []string
		if e.sm == nil {
			rs = make([]string, len(reqs))
			for i := range rs {
				rs[i] = "nostore"
			}
		} else {
			rs = e.sm.Apply(mode, reqs)
		}
		for i, p := range pend {
			e.out.Printf("%s\t%s\n", p.id, rs[i])
		}
		pend = pend[:0]
	}
	for _, line := range lines {
		f := strings.Split(line, "\t")
		if len(f) < 2 {
			continue
		}
		id, kind := f[0], f[1]
		if kind == "W" && len(f) >= 6 {
			grp := f[2]
			if grp == "0" || grp != pendGrp {
				flush()
			}
			pendGrp = grp
			ts, _ := strconv.ParseInt(f[4], 10, 64)
			pend = append(pend, wline{id: id, mode: f[3], req: smx.Req{Args: hx.UnHL(f[5]), Ts: ts}})
			if grp == "0" {
				flush()
			}
			continue
		}
		flush()
		switch kind {
		case "S":
			if e.sm != nil {
				e.sm.Close()
				e.sm = nil
			}
			sm, err := smx.Open(e.engine, f[2])
			if err != nil {
				e.out.Printf("%s\topenerr\n", id)
				e.dbg.Printf("%s\t%v\n", id, err)
				continue
			}
			e.sm = sm
			e.nowsec = 0
			if len(f) > 3 {
				e.nowsec, _ = strconv.ParseInt(f[3], 10, 64)
			}
			e.out.Printf("%s\tok\n", id)
		case "R":
			if e.sm == nil {
				e.out.Printf("%s\tnostore\n", id)
				continue
			}
			r, errs := e.read(hx.UnHL(f[2]))
			e.out.Printf("%s\t%s\n", id, r)
			if len(errs) > 0 {
				e.dbg.Printf("%s\t%s\n", id, strings.Join(errs, " ; "))
			}
		case "O":
			if e.sm == nil {
				e.out.Printf("%s\tnostore\n", id)
				continue
			}
			e.out.Printf("%s\t%s\n", id, e.observe(f[2], hx.UnH(f[3])))
		case "X":
			// one synchronous pass of the local_deletion expiry sweep (TTLChecker.check + commit of its own
			// batched buffer): the number of expired index entries it collected
			if e.sm == nil {
				e.out.Printf("%s\tnostore\n", id)
				continue
			}
			n, err := e.sm.Store.VerifLocalExpireTick()
			if err != nil {
				e.out.Printf("%s\tswept=-err\n", id)
				e.dbg.Printf("%s\t%v\n", id, err)
			} else {
				e.out.Printf("%s\tswept=:%d\n", id, n)
			}
		case "E":
			// number of engine keys per key class (first byte of the engine key), the whole engine
			if e.sm == nil {
				e.out.Printf("%s\tnostore\n", id)
				continue
			}
			e.out.Printf("%s\t%s\n", id, e.engineCounts())
		case "T":
			// table key counters (GetTableKeyCount) of the listed tables
			if e.sm == nil {
				e.out.Printf("%s\tnostore\n", id)
				continue
			}
			var tparts []string
			for _, t := range hx.UnHL(f[2]) {
				n, err := e.sm.Store.GetTableKeyCount(t)
				if err != nil {
					tparts = append(tparts, hx.H(t)+"=-err")
				} else {
					tparts = append(tparts, hx.H(t)+"=:"+strconv.FormatInt(n, 10))
				}
			}
			e.out.Printf("%s\t%s\n", id, strings.Join(tparts, " "))
		case "D":
			if e.sm == nil {
				e.out.Printf("%s\tnostore\n", id)
				continue
			}
			var parts []string
			for _, k := range hx.UnHL(f[2]) {
				for _, t := range []string{"K", "H", "S", "L", "Z"} {
					o := e.observe(t, k)
					if !emptyObs(o) {
						parts = append(parts, hx.H(k)+":"+o)
					}
				}
			}
			e.out.Printf("%s\t%s\n", id, strings.Join(parts, " || "))
			if e.raw != nil {
				for _, l := range e.sm.RawDump() {
					e.raw.Printf("%s\t%s\n", id, l)
				}
			}
		}
	}
	flush()
}

// ---------------------------------------------------------------- live leg (redis protocol, proposer-side handlers)

const liveNS = "vns"

// liveKey puts the namespace and the per-sequence tag into a generated key "table:rest":
// "vns:table:<tag>rest" (sequences share one server; the tag keeps their keys apart)
func (e *executor) liveKey(k []byte) []byte {
	i := strings.IndexByte(string(k), ':')
	if i < 0 {
		return append([]byte(liveNS+":"), k...)
	}
	o := append([]byte(liveNS+":"), k[:i+1]...)
	o = append(o, []byte(e.liveTag)...)
	return append(o, k[i+1:]...)
}

// liveDo sends one command and prints the reply in the canonical form of the state-machine leg
func (e *executor) liveDo(args [][]byte) string {
	name := strings.ToLower(string(args[0]))
	a := make([]interface{}, 0, len(args))
	for i := 1; i < len(args); i++ {
		if i == 1 || name == "del" || name == "exists" || name == "mget" {
			a = append(a, e.liveKey(args[i]))
		} else {
			a = append(a, args[i])
		}
	}
	v, err := e.conn.Do(name, a...)
	if err != nil {
		if _, ok := err.(goredis.Error); ok {
			return "-err"
		}
		// connection trouble: reconnect once
		e.dbg.Printf("conn\t%v\n", err)
		if c, cerr := e.live.Conn(); cerr == nil {
			e.conn = c
		}
		return "-conn"
	}
	r := canonRedis(v)
	// the node layer rewrites the state machine's reply of some writes; undo it
	switch name {
	case "set":
		if r == "+OK" {
			r = ":1"
		} else if r == "_" {
			r = ":0"
		}
	case "setex", "hmset", "lset", "ltrim", "lfixkey", "zfixkey":
		if r == "+OK" {
			r = "_"
		}
	case "zincrby":
		r = scoreToks(r, 0, 1)
	}
	return r
}

func canonRedis(v interface{}) string {
	switch x := v.(type) {
	case nil:
		return "_"
	case int64:
		return ":" + strconv.FormatInt(x, 10)
	case []byte:
		if x == nil {
			return "_"
		}
		return smx.CanonReply(x)
	case string:
		return "+" + x
	case goredis.Error:
		return "-err"
	case []interface{}:
		p := []string{"*" + strconv.Itoa(len(x))}
		for _, y := range x {
			p = append(p, canonRedis(y))
		}
		return strings.Join(p, " ")
	}
	return fmt.Sprintf("?%T", v)
}

// runLive executes the W / R / O lines of the sequences against the server
func (e *executor) runLive(lines []string) {
	// three consecutive free ports in 39000-39999 (other harnesses use the same range)
	base := 0
	for i := 0; i < 200 && base == 0; i++ {
		b := 39000 + ((os.Getpid()+i*7)%330)*3
		free := true
		for p := b; p < b+3; p++ {
			l, lerr := net.Listen("tcp", ":"+strconv.Itoa(p))
			if lerr != nil {
				free = false
				break
			}
			l.Close()
		}
		if free {
			base = b
		}
	}
	if base == 0 {
		fmt.Fprintln(os.Stderr, "live server: no free port")
		os.Exit(2)
	}
	inst, err := srv.Start(base, liveNS, 1, e.engine)
	if err != nil {
		fmt.Fprintln(os.Stderr, "live server:", err)
		os.Exit(2)
	}
	e.live = inst
	defer inst.Cleanup()
	e.conn, err = inst.Conn()
	if err != nil {
		fmt.Fprintln(os.Stderr, "live conn:", err)
		os.Exit(2)
	}
	for _, line := range lines {
		f := strings.Split(line, "\t")
		if len(f) < 2 {
			continue
		}
		id, kind := f[0], f[1]
		switch kind {
		case "S":
			e.liveTag = "q" + strings.SplitN(id, ".", 2)[0] + "."
			e.out.Printf("%s\tok\n", id)
		case "W":
			if len(f) >= 6 {
				e.out.Printf("%s\t%s\n", id, e.liveDo(hx.UnHL(f[5])))
			}
		case "R":
			r, _ := e.read(hx.UnHL(f[2]))
			e.out.Printf("%s\t%s\n", id, r)
		case "O":
			e.out.Printf("%s\t%s\n", id, e.observe(f[2], hx.UnH(f[3])))
		}
	}
}

// engineCounts lists how many engine keys of every data class the engine holds (kv, the size/meta and
// element keys of the collection types, the zset score index); other classes (table counters, expiry
// queue of the local-deletion policy, ...) are not listed.
func (e *executor) engineCounts() string {
	names := []struct {
		t byte
		n string
	}{{rockredis.KVType, "kv"}, {rockredis.HSizeType, "hsize"}, {rockredis.HashType, "hash"}, {rockredis.SSizeType, "ssize"},
		{rockredis.SetType, "set"}, {rockredis.ZSizeType, "zsize"}, {rockredis.ZSetType, "zset"}, {rockredis.ZScoreType, "zscore"},
		{rockredis.LMetaType, "lmeta"}, {rockredis.ListType, "list"}}
	cnt := map[byte]int{}
	scan := func(t byte, min, max []byte) bool {
		it, err := e.sm.Store.NewDBRangeIterator(min, max, common.RangeROpen, false)
		if err != nil {
			return false
		}
		for ; it.Valid(); it.Next() {
			cnt[t]++
		}
		it.Close()
		return true
	}
	for _, c := range names {
		// the rocksdb engine has a 3-byte prefix extractor and iterates inside the prefix of the start
		// key: one scan per key prefix the generator can produce (tables of poolTables: 1 or 2 bytes)
		if c.t == rockredis.KVType || c.t == rockredis.HSizeType || c.t == rockredis.SSizeType || c.t == rockredis.ZSizeType || c.t == rockredis.LMetaType {
			// type byte, for the size/meta records "meta:", then the redis key "table:key"
			pre := []byte{c.t}
			if c.t != rockredis.KVType {
				pre = append(pre, []byte("meta:")...)
			}
			for _, tb := range poolTables {
				min := append(append([]byte{}, pre...), []byte(tb+":")...)
				max := append(append([]byte{}, pre...), []byte(tb+";")...)
				if !scan(c.t, min, max) {
					return "-err"
				}
			}
			continue
		}
		for l := byte(1); l <= 2; l++ {
			if !scan(c.t, []byte{c.t, 0, l, 0}, []byte{c.t, 0, l + 1, 0}) {
				return "-err"
			}
		}
	}
	var p []string
	for _, c := range names {
		p = append(p, c.n+"=:"+strconv.Itoa(cnt[c.t]))
	}
	return strings.Join(p, " ")
}

// read runs one read command; score-valued bulks are re-printed as float bit patterns.
func (e *executor) read(args [][]byte) (string, []string) {
	name := strings.ToLower(string(args[0]))
	if e.live != nil {
		r := e.liveDo(args)
		switch name {
		case "zscore":
			r = scoreToks(r, 0, 1)
		case "zrange", "zrevrange", "zrangebyscore", "zrevrangebyscore":
			for _, a := range args[2:] {
				if strings.ToLower(string(a)) == "withscores" {
					r = scoreToks(r, 1, 2)
					break
				}
			}
		}
		return r, nil
	}
	if name == "exists" {
		h, _, ok := e.sm.RN.GetMergeHandler(name)
		if !ok {
			return "-unknown", nil
		}
		a := make([][]byte, len(args))
		a[0] = args[0]
		for i := 1; i < len(args); i++ {
			a[i] = append([]byte(smx.NS+":"), args[i]...)
		}
		var res string
		msg, p := hx.Recover(func() {
			v, err := h(common.BuildCommand(a))
			if err != nil {
				res = "-err"
			} else {
				res = smx.CanonReply(v)
			}
		})
		if p {
			return "panic", []string{msg}
		}
		return res, nil
	}
	if name == "ttl" || name == "httl" || name == "sttl" || name == "lttl" || name == "zttl" {
		// the handler reads the wall clock: take a reply whose call did not cross a second boundary and
		// re-base a remaining time to the read clock of the case (the S line), which the models use
		for {
			t0 := time.Now().Unix()
			r, errs := e.sm.ReadE(args...)
			if time.Now().Unix() != t0 {
				continue
			}
			if strings.HasPrefix(r, ":") && e.nowsec != 0 {
				if n, err := strconv.ParseInt(r[1:], 10, 64); err == nil && n > 0 {
					r = ":" + strconv.FormatInt(n+t0-e.nowsec, 10)
				}
			}
			return r, errs
		}
	}
	r, errs := e.sm.ReadE(args...)
	switch name {
	case "zscore":
		r = scoreToks(r, 0, 1)
	case "zrange", "zrevrange", "zrangebyscore", "zrevrangebyscore":
		ws := false
		for _, a := range args[2:] {
			if strings.ToLower(string(a)) == "withscores" {
				ws = true
			}
		}
		if ws {
			r = scoreToks(r, 1, 2)
		}
	}
	return r, errs
}

// scoreToks rewrites the bulk tokens at positions first, first+step, ... (counted over bulk tokens)
// from the decimal text the handler printed to the float's bit pattern.
func scoreToks(r string, first, step int) string {
	toks := strings.Split(r, " ")
	bi := 0
	for i, t := range toks {
		if !strings.HasPrefix(t, "$") {
			continue
		}
		if bi >= first && (bi-first)%step == 0 {
			f, err := strconv.ParseFloat(string(hx.UnH(t[1:])), 64)
			if err == nil {
				toks[i] = smx.CanonFloat(f)
			}
		}
		bi++
	}
	return strings.Join(toks, " ")
}

func bulks(r string) [][]byte {
	var out [][]byte
	for _, t := range strings.Split(r, " ") {
		if strings.HasPrefix(t, "$") {
			out = append(out, hx.UnH(t[1:]))
		}
	}
	return out
}

func emptyObs(o string) bool {
	switch o {
	case "K get=_ | strlen=:0 | exists=:0 | ttl=:-1",
		"H len=:0 | ex=:0 | all=*0 | keys=*0 | vals=*0 | get= | ttl=:-1",
		"S card=:0 | ex=:0 | mem=*0 | is= | ttl=:-1",
		"L len=:0 | ex=:0 | range=*0 | idx= | ttl=:-1",
		"Z card=:0 | ex=:0 | range=*0 | byscore=*0 | bylex=*0 | score= | ttl=:-1":
		return true
	}
	return false
}

func b(s string) []byte { return []byte(s) }

// observe prints every read view of one collection (the raw material of the C09 oracle).
func (e *executor) observe(typ string, key []byte) string {
	rd := func(args ...[]byte) string { r, _ := e.read(args); return r }
	var p []string
	switch typ {
	case "K":
		p = append(p, "K get="+rd(b("get"), key), "strlen="+rd(b("strlen"), key), "exists="+rd(b("exists"), key), "ttl="+rd(b("ttl"), key))
	case "H":
		all := rd(b("hgetall"), key)
		p = append(p, "H len="+rd(b("hlen"), key), "ex="+rd(b("hkeyexist"), key), "all="+all, "keys="+rd(b("hkeys"), key), "vals="+rd(b("hvals"), key))
		var g []string
		bl := bulks(all)
		for i := 0; i+1 < len(bl); i += 2 {
			g = append(g, rd(b("hget"), key, bl[i]))
		}
		p = append(p, "get="+strings.Join(g, " "), "ttl="+rd(b("httl"), key))
	case "S":
		mem := rd(b("smembers"), key)
		p = append(p, "S card="+rd(b("scard"), key), "ex="+rd(b("skeyexist"), key), "mem="+mem)
		var g []string
		for _, m := range bulks(mem) {
			g = append(g, rd(b("sismember"), key, m))
		}
		p = append(p, "is="+strings.Join(g, " "), "ttl="+rd(b("sttl"), key))
	case "L":
		rg := rd(b("lrange"), key, b("0"), b("-1"))
		p = append(p, "L len="+rd(b("llen"), key), "ex="+rd(b("lkeyexist"), key), "range="+rg)
		var g []string
		for i := range bulks(rg) {
			g = append(g, rd(b("lindex"), key, b(strconv.Itoa(i))))
		}
		p = append(p, "idx="+strings.Join(g, " "), "ttl="+rd(b("lttl"), key))
	case "Z":
		rgPlain := rd(b("zrange"), key, b("0"), b("-1"))
		p = append(p, "Z card="+rd(b("zcard"), key), "ex="+rd(b("zkeyexist"), key),
			"range="+rd(b("zrange"), key, b("0"), b("-1"), b("withscores")),
			"byscore="+rd(b("zrangebyscore"), key, b("-inf"), b("+inf"), b("withscores")),
			"bylex="+rd(b("zrangebylex"), key, b("-"), b("+")))
		var g []string
		for _, m := range bulks(rgPlain) {
			g = append(g, rd(b("zscore"), key, m))
		}
		p = append(p, "score="+strings.Join(g, " "), "ttl="+rd(b("zttl"), key))
	default:
		return "badtype"
	}
	return strings.Join(p, " | ")
}

// ---------------------------------------------------------------- generator

var (
	poolTables = []string{"t", "t2", "tt"}
	poolKeys   = []string{"k", "k:", "k:k", "kk", "\x00", "\xff", "abcdefghi", "abcdefghijklmnopq", "abcdefgh", "k\x00", ""}
	poolMems   = []string{"m", "a", "b", "", "k", "k:", "m:m", "\x00", "\xff", "abcdefghi", "abcdefghijklmnopq", "abcdefgh", "a\x00", ":"}
	poolVals   = []string{"", "0", "1", "-1", "v", "w", "007", " 1", "1 ", "+1", "-0", "9223372036854775807", "-9223372036854775808",
		"9223372036854775808", "1.5", "abc", "\x00\xff", "12345678", "123456789abcdefgh"}
	poolIdx    = []string{"-3", "-2", "-1", "0", "1", "2", "3", "9223372036854775807", "-9223372036854775808", "-9223372036854775807", "5000", "5001"}
	poolIncr   = []string{"1", "-1", "0", "2", "10", "9223372036854775807", "-9223372036854775808", "-9223372036854775807"}
	poolScores = []string{"0", "-0", "0", "-0", "-0", "1", "1", "2", "2", "3", "-1", "-2", "10", "+inf", "-inf", "inf", "9007199254740992", "-9007199254740992",
		"9007199254740993", "18014398509481987", "4294967296",
		// at and beyond the int64 range (rockredis.MinScore / MaxScore are +-(2^63-1))
		"9223372036854775807", "9223372036854775808", "-9223372036854775808", "9300000000000000000", "-9300000000000000000",
		"10000000000000000000", "-10000000000000000000", "+inf", "-inf"}
	poolZIncr  = []string{"1", "-1", "0", "-0", "-0", "2", "-2", "+inf", "-inf", "9007199254740992", "1", "9223372036854775807", "-10000000000000000000"}
	poolSRange = []string{"-inf", "+inf", "0", "1", "2", "(0", "(1", "(2", "-1", "3", "(-1", "-0", "9007199254740992", "(9007199254740992",
		"9223372036854775807", "(9223372036854775808", "-9223372036854775808", "10000000000000000000", "(-10000000000000000000"}
	poolLex    = []string{"-", "+", "[a", "(a", "[m", "(m", "[", "(", "[b", "(b", "[k:", "(\xff", "[\x00", "[abcdefghi", "(abcdefgh"}
	poolCount  = []string{"1", "2", "3", "5000", "5001"}
	// far future (2087), a few seconds, already over, before the epoch, around the 32 bit header limit, int64 overflow
	poolExpire = []string{"2000000000", "1", "3", "1000", "0", "-1", "2000000000", "1", "-1700000001", "-1700002000", "2594967290",
		"2594967294", "2594966000", "9223372036854775807", "-9223372036854775808", "abc", "1.5"}
)

type gen struct {
	r      *hx.Rng
	types  string
	policy string
	ts     int64
	grp    int
	// per-sequence subsets
	keys, mems, vals []string
	seqTypes         string
	n                int
	seq              int
	lines            []string
	nanOK            bool
	badkeys, expiry  bool
	counters         bool
	live             bool // no dump lines, single commands only
}

const tsBase = int64(1700000000) * 1000000000

// the read clock written into the S lines: the wall-clock second at generation time (the raft
// timestamps of the generated writes are in 2023, far below it)
var genNow = time.Now().Unix()

var bigFirst bool

// withCounters: the exhaustive generator ends every sequence with the table key counter as well
var withCounters bool

func newGen(seed int64, types, policy string) *gen {
	return &gen{r: hx.NewRng(seed), types: types, policy: policy}
}

func (g *gen) pick(l []string) string { return l[g.r.Intn(len(l))] }
func (g *gen) subset(l []string, n int) []string {
	if n > len(l) {
		n = len(l)
	}
	p := g.r.Perm(len(l))
	o := make([]string, n)
	for i := 0; i < n; i++ {
		o[i] = l[p[i]]
	}
	return o
}

func hexArgs(a ...string) string {
	l := make([][]byte, len(a))
	for i, s := range a {
		l[i] = []byte(s)
	}
	return hx.HL(l)
}

func (g *gen) emit(kind string, fields ...string) {
	g.n++
	g.lines = append(g.lines, fmt.Sprintf("%d.%d\t%s\t%s", g.seq, g.n, kind, strings.Join(fields, "\t")))
}

func typeOfCmd(c string) string {
	switch {
	case strings.HasPrefix(c, "h"):
		return "H"
	case c == "sadd" || c == "srem" || c == "spop" || c == "sclear" || c == "sexpire" || c == "spersist":
		return "S"
	case strings.HasPrefix(c, "z"):
		return "Z"
	case strings.HasPrefix(c, "l") || c == "rpush" || c == "rpop":
		return "L"
	}
	return "K"
}

func (g *gen) nextTs() int64 {
	switch g.r.Intn(6) {
	case 0:
		g.ts += 1
	case 1:
		g.ts += 999999999
	case 2:
		g.ts += 1000000000
	case 3:
		g.ts += int64(g.r.Intn(1000)) + 1
	default:
		g.ts += int64(g.r.Intn(3000000000)) + 1
	}
	return g.ts
}

// sequence generates one command sequence on a fresh store.
func (g *gen) sequence(seq int, maxLen int) []string {
	g.seq, g.n, g.lines = seq, 0, nil
	g.ts = tsBase + int64(g.r.Intn(1000))*1000000007
	pol := g.policy
	if pol == "mix" {
		pol = []string{"local", "compact"}[g.r.Intn(2)]
	}
	g.emit("S", pol, strconv.FormatInt(genNow, 10))
	// subsets
	var keys []string
	for _, t := range g.subset(poolTables, 1+g.r.Intn(2)) {
		for _, k := range g.subset(poolKeys[:len(poolKeys)-1], 1+g.r.Intn(3)) {
			keys = append(keys, t+":"+k)
		}
	}
	if g.badkeys && g.r.Chance(0.08) {
		keys = append(keys, g.pick(poolTables)+":") // empty real key: error path
	}
	if g.badkeys && g.r.Chance(0.05) {
		keys = append(keys, "notable") // no table separator: error path
	}
	g.keys = keys
	g.mems = g.subset(poolMems, 2+g.r.Intn(4))
	g.vals = g.subset(poolVals, 2+g.r.Intn(5))
	nt := 1 + g.r.Intn(2)
	if g.r.Chance(0.15) {
		nt = 3
	}
	tl := strings.Split(g.types, "")
	g.seqTypes = strings.Join(g.subset(tl, nt), "")
	n := 3 + g.r.Intn(maxLen)
	for i := 0; i < n; {
		// group?
		k := 1
		mode := "-"
		grp := "0"
		if !g.live && g.r.Chance(0.12) {
			k = 2 + g.r.Intn(4)
			g.grp++
			grp = strconv.Itoa(g.grp)
			mode = "b"
			if g.r.Chance(0.3) {
				mode = "l"
			}
		}
		touched := map[string]bool{}
		var order []string
		for j := 0; j < k; j++ {
			args := g.writeCmd()
			ts := g.nextTs()
			g.emit("W", grp, mode, strconv.FormatInt(ts, 10), hexArgs(args...))
			name := args[0]
			tk := typeOfCmd(name)
			var ks []string
			if name == "del" {
				ks = args[1:]
			} else {
				ks = args[1:2]
			}
			for _, kk := range ks {
				id := tk + "\x01" + kk
				if !touched[id] {
					touched[id] = true
					order = append(order, id)
				}
			}
			i++
		}
		for _, id := range order {
			p := strings.SplitN(id, "\x01", 2)
			g.emit("O", p[0], hx.H([]byte(p[1])))
			if p[0] == "Z" && g.r.Chance(0.5) {
				g.emit("R", hexArgs(g.zLimitProbe(p[1])...))
			}
		}
		// some random reads
		nr := g.r.Intn(3)
		for j := 0; j < nr; j++ {
			g.emit("R", hexArgs(g.readCmd()...))
		}
	}
	kl := make([][]byte, len(g.keys))
	for i, k := range g.keys {
		kl[i] = []byte(k)
	}
	if !g.live {
		g.emit("D", hx.HL(kl))
	}
	if g.counters {
		tl := make([][]byte, len(poolTables))
		for i, t := range poolTables {
			tl[i] = []byte(t)
		}
		g.emit("T", hx.HL(tl))
		g.emit("E")
	}
	return g.lines
}

// setWithOpts: SET key value with the option words EX seconds / NX / XX in every order and combination,
// valid and invalid (both NX and XX, a repeated word, bad seconds, unknown word), mixed case
func (g *gen) setWithOpts(k string) []string {
	a := []string{"set", k, g.val()}
	words := [][]string{{"nx"}, {"xx"}, {"NX"}, {"Xx"}, {"ex", "100"}, {"EX", "2000000000"}, {"ex", "1"}, {"Ex", "3"}}
	if !g.expiry {
		words = words[:4]
	}
	n := 1 + g.r.Intn(3)
	for i := 0; i < n; i++ {
		if g.r.Chance(0.06) {
			a = append(a, g.pick([]string{"keepttl", "px", "ex", "0"}))
			continue
		}
		if g.expiry && g.r.Chance(0.06) {
			a = append(a, "ex", g.pick([]string{"0", "-1", "abc", "9223372036854775807", "2594967294"}))
			continue
		}
		a = append(a, words[g.r.Intn(len(words))]...)
	}
	return a
}

// zLimitProbe: a whole-range read of a zset with LIMIT offset count: offsets inside, at and beyond the end,
// counts negative (no limit), zero and positive, forward and reverse
func (g *gen) zLimitProbe(k string) []string {
	off := g.pick([]string{"0", "1", "1", "2", "3", "7", "-1"})
	cnt := g.pick([]string{"-1", "-1", "-2", "0", "1", "2", "5000", "5001"})
	var a []string
	switch g.r.Intn(4) {
	case 0:
		a = []string{"zrangebyscore", k, "-inf", "+inf"}
	case 1, 2:
		a = []string{"zrevrangebyscore", k, "+inf", "-inf"}
	default:
		a = []string{"zrangebylex", k, "-", "+"}
	}
	if a[0] != "zrangebylex" && g.r.Chance(0.5) {
		a = append(a, "withscores")
	}
	return append(a, "limit", off, cnt)
}

func (g *gen) key() string { return g.pick(g.keys) }
// bigMem is one byte over MaxSubKeyLen: rejected by CheckKeySubKey
var bigMem = strings.Repeat("x", 10241)

func (g *gen) mem() string {
	if !g.live && g.r.Chance(0.003) {
		// (not on the live leg: the proposer-side shortcuts answer for a missing key before the size check)
		return bigMem
	}
	return g.pick(g.mems)
}
func (g *gen) val() string { return g.pick(g.vals) }

// several members, deliberately with repetitions inside one command
func (g *gen) memsN() []string {
	n := 1 + g.r.Intn(4)
	o := make([]string, n)
	for i := range o {
		if i > 0 && g.r.Chance(0.3) {
			o[i] = o[g.r.Intn(i)]
		} else {
			o[i] = g.mem()
		}
	}
	return o
}

func (g *gen) score() string {
	if g.nanOK && g.r.Chance(0.02) {
		return "nan"
	}
	return g.pick(poolScores)
}

func (g *gen) writeCmd() []string {
	for {
		a := g.writeCmd1()
		n := a[0]
		if !g.expiry && (strings.HasSuffix(n, "expire") || strings.HasSuffix(n, "persist") || n == "setex") {
			continue
		}
		return a
	}
}

func (g *gen) writeCmd1() []string {
	t := g.seqTypes[g.r.Intn(len(g.seqTypes))]
	k := g.key()
	switch t {
	case 'k':
		switch g.r.Intn(17) {
		case 14, 15, 16:
			return g.setWithOpts(k)
		case 0, 1:
			return []string{"set", k, g.val()}
		case 2:
			return []string{"setnx", k, g.val()}
		case 3:
			return []string{"getset", k, g.val()}
		case 4:
			return []string{"incr", k}
		case 5:
			return []string{"incrby", k, g.pick(poolIncr)}
		case 6:
			return []string{"append", k, g.val()}
		case 7:
			return []string{"setrange", k, g.pick([]string{"0", "1", "2", "5", "17", "-1", "8388608", "8388609", "9223372036854775807"}), g.val()}
		case 8, 9:
			a := []string{"del"}
			n := 1 + g.r.Intn(3)
			for i := 0; i < n; i++ {
				if i > 0 && g.r.Chance(0.3) {
					a = append(a, a[1+g.r.Intn(i)])
				} else {
					a = append(a, g.key())
				}
			}
			return a
		case 10:
			return []string{"setex", k, g.pick(poolExpire), g.val()}
		case 11:
			return []string{"expire", k, g.pick(poolExpire)}
		case 12:
			return []string{"persist", k}
		default:
			return []string{"set", k, g.val()}
		}
	case 'h':
		switch g.r.Intn(12) {
		case 0, 1:
			return []string{"hset", k, g.mem(), g.val()}
		case 2:
			return []string{"hsetnx", k, g.mem(), g.val()}
		case 3, 4, 5:
			a := []string{"hmset", k}
			for _, m := range g.memsN() {
				a = append(a, m, g.val())
			}
			return a
		case 6, 7, 8:
			return append([]string{"hdel", k}, g.memsN()...)
		case 9:
			return []string{"hincrby", k, g.mem(), g.pick(poolIncr)}
		case 10:
			return []string{"hclear", k}
		default:
			if g.r.Chance(0.5) {
				return []string{"hexpire", k, g.pick(poolExpire)}
			}
			return []string{"hpersist", k}
		}
	case 's':
		switch g.r.Intn(10) {
		case 0, 1, 2, 3:
			return append([]string{"sadd", k}, g.memsN()...)
		case 4, 5, 6:
			return append([]string{"srem", k}, g.memsN()...)
		case 7:
			if g.r.Chance(0.5) {
				return []string{"spop", k}
			}
			return []string{"spop", k, g.pick(poolCount[:3])}
		case 8:
			return []string{"sclear", k}
		default:
			if g.r.Chance(0.5) {
				return []string{"sexpire", k, g.pick(poolExpire)}
			}
			return []string{"spersist", k}
		}
	case 'z':
		switch g.r.Intn(15) {
		case 14:
			return []string{"zfixkey", k}
		case 0, 1, 2, 3:
			a := []string{"zadd", k}
			for _, m := range g.memsN() {
				a = append(a, g.score(), m)
			}
			return a
		case 4, 5:
			return []string{"zincrby", k, g.pick(poolZIncr), g.mem()}
		case 6, 7, 8:
			return append([]string{"zrem", k}, g.memsN()...)
		case 9:
			return []string{"zremrangebyrank", k, g.pick(poolIdx[:9]), g.pick(poolIdx[:9])}
		case 10:
			return []string{"zremrangebyscore", k, g.pick(poolSRange), g.pick(poolSRange)}
		case 11:
			return []string{"zremrangebylex", k, g.pick(poolLex), g.pick(poolLex)}
		case 12:
			return []string{"zclear", k}
		default:
			if g.r.Chance(0.5) {
				return []string{"zexpire", k, g.pick(poolExpire)}
			}
			return []string{"zpersist", k}
		}
	case 'l':
		switch g.r.Intn(13) {
		case 12:
			return []string{"lfixkey", k}
		case 0, 1, 2:
			return append([]string{"rpush", k}, g.valsN()...)
		case 3, 4:
			return append([]string{"lpush", k}, g.valsN()...)
		case 5:
			return []string{"lpop", k}
		case 6:
			return []string{"rpop", k}
		case 7:
			return []string{"lset", k, g.pick(poolIdx[:9]), g.val()}
		case 8, 9:
			return []string{"ltrim", k, g.pick(poolIdx[:9]), g.pick(poolIdx[:9])}
		case 10:
			return []string{"lclear", k}
		default:
			if g.r.Chance(0.5) {
				return []string{"lexpire", k, g.pick(poolExpire)}
			}
			return []string{"lpersist", k}
		}
	}
	return []string{"set", k, g.val()}
}

func (g *gen) valsN() []string {
	n := 1 + g.r.Intn(3)
	o := make([]string, n)
	for i := range o {
		o[i] = g.val()
	}
	return o
}

func (g *gen) readCmd() []string {
	t := g.seqTypes[g.r.Intn(len(g.seqTypes))]
	k := g.key()
	if g.expiry && g.r.Chance(0.08) {
		return []string{map[byte]string{'k': "ttl", 'h': "httl", 's': "sttl", 'z': "zttl", 'l': "lttl"}[t], k}
	}
	switch t {
	case 'k':
		switch g.r.Intn(5) {
		case 0:
			return []string{"get", k}
		case 1:
			return []string{"mget", k, g.key()}
		case 2:
			return []string{"getrange", k, g.pick(poolIdx[:9]), g.pick(poolIdx[:9])}
		case 3:
			return []string{"exists", k, g.key(), k}
		default:
			return []string{"strlen", k}
		}
	case 'h':
		switch g.r.Intn(4) {
		case 0:
			return []string{"hget", k, g.mem()}
		case 1:
			return append([]string{"hmget", k}, g.memsN()...)
		case 2:
			return []string{"hexists", k, g.mem()}
		default:
			return []string{"hlen", k}
		}
	case 's':
		switch g.r.Intn(3) {
		case 0:
			return []string{"sismember", k, g.mem()}
		case 1:
			return []string{"srandmember", k, g.pick(poolCount[:3])}
		default:
			return []string{"srandmember", k}
		}
	case 'l':
		switch g.r.Intn(3) {
		case 0:
			return []string{"lindex", k, g.pick(poolIdx)}
		case 1:
			return []string{"lrange", k, g.pick(poolIdx), g.pick(poolIdx)}
		default:
			return []string{"llen", k}
		}
	case 'z':
		ws := func(a []string) []string {
			if g.r.Chance(0.5) {
				return append(a, "withscores")
			}
			return a
		}
		lim := func(a []string) []string {
			if g.r.Chance(0.4) {
				return append(a, "limit", g.pick([]string{"0", "1", "2", "-1"}), g.pick([]string{"-1", "0", "1", "2", "5"}))
			}
			return a
		}
		switch g.r.Intn(11) {
		case 0:
			return []string{"zscore", k, g.mem()}
		case 1:
			return []string{"zcount", k, g.pick(poolSRange), g.pick(poolSRange)}
		case 2:
			return []string{"zlexcount", k, g.pick(poolLex), g.pick(poolLex)}
		case 3:
			return ws([]string{"zrange", k, g.pick(poolIdx[:9]), g.pick(poolIdx[:9])})
		case 4:
			return ws([]string{"zrevrange", k, g.pick(poolIdx[:9]), g.pick(poolIdx[:9])})
		case 5:
			return lim([]string{"zrangebylex", k, g.pick(poolLex), g.pick(poolLex)})
		case 6:
			return lim(ws([]string{"zrangebyscore", k, g.pick(poolSRange), g.pick(poolSRange)}))
		case 7:
			return lim(ws([]string{"zrevrangebyscore", k, g.pick(poolSRange), g.pick(poolSRange)}))
		case 8:
			return []string{"zrank", k, g.mem()}
		case 9:
			return []string{"zrevrank", k, g.mem()}
		default:
			return []string{"zcard", k}
		}
	}
	return []string{"get", k}
}

// ---------------------------------------------------------------- big lists (LTRIM above RangeDeleteNum)

// genBigList: lists built with a few multi-value pushes, an LTRIM that cuts more than RangeDeleteNum elements
// (one DeleteRange per cut end) at the tail, at the head, at both ends; then reads at both ends, the engine key
// counts, regrowth at both ends past the old positions, pops, reads, dump, counters.
func genBigList(policy string, seed int64) []string {
	var lines []string
	seq := 0
	pols := []string{policy}
	if policy == "mix" {
		pols = []string{"local", "compact"}
	}
	name := func(p string, i int) string { return fmt.Sprintf("%s%05d", p, i) }
	type cas struct {
		rp1, lp, rp2 int // RPUSH rp1, LPUSH lp, RPUSH rp2 elements (each in chunks of <= 5000)
		start, stop  string
	}
	cases := []cas{
		{5003, 0, 0, "0", "0"},             // tail cut of 5002
		{5000, 0, 1880, "5100", "-1"},      // head cut of 5100
		{5000, 2010, 5000, "5005", "-5006"}, // both cuts of 5005
		{5003, 0, 0, "1", "-5002"},         // small head cut, tail cut of 5001: keeps 1
		{5000, 0, 2, "5001", "5001"},       // head cut of 5001, tail keeps exactly one
	}
	for _, pol := range pols {
		for _, c := range cases {
			seq++
			k := "t:blist"
			cnt := 0
			ts := tsBase + seed*1000
			emit := func(kind string, f ...string) {
				cnt++
				lines = append(lines, fmt.Sprintf("l%d.%d\t%s\t%s", seq, cnt, kind, strings.Join(f, "\t")))
			}
			w := func(a ...string) {
				ts += 1500000001
				emit("W", "0", "-", strconv.FormatInt(ts, 10), hexArgs(a...))
			}
			push := func(cmd, pre string, n int) {
				for from := 0; from < n; from += 5000 {
					to := from + 5000
					if to > n {
						to = n
					}
					a := []string{cmd, k}
					for i := from; i < to; i++ {
						a = append(a, name(pre, i))
					}
					w(a...)
				}
			}
			reads := func() {
				emit("R", hexArgs("llen", k))
				emit("R", hexArgs("lindex", k, "0"))
				emit("R", hexArgs("lindex", k, "-1"))
				emit("R", hexArgs("lrange", k, "0", "4"))
				emit("R", hexArgs("lrange", k, "-5", "-1"))
				emit("E")
			}
			emit("S", pol, strconv.FormatInt(genNow, 10))
			push("rpush", "a", c.rp1)
			push("lpush", "b", c.lp)
			push("rpush", "c", c.rp2)
			emit("R", hexArgs("llen", k))
			w("ltrim", k, c.start, c.stop)
			reads()
			emit("R", hexArgs("lrange", k, "0", "-1"))
			// regrow both ends; after a tail cut, past the old tail position
			if c.stop == "0" {
				push("rpush", "d", 5003)
				emit("R", hexArgs("llen", k))
				emit("R", hexArgs("lrange", k, "-3", "-1"))
				w("ltrim", k, "0", "2")
			}
			w("rpush", k, "z1", "z2")
			w("lpush", k, "y1", "y2")
			reads()
			w("lpop", k)
			w("rpop", k)
			w("lset", k, "0", "h")
			w("lset", k, "-1", "t")
			reads()
			emit("O", "L", hx.H([]byte(k)))
			emit("D", hexArgs(k))
			emit("T", hexArgs("t"))
			emit("E")
		}
	}
	return lines
}

// ---------------------------------------------------------------- expiry sweep (local_deletion)

// genSweep: per type, a key with an expiry that is over and a key without; one pass of the background
// sweep; then at once a write to the swept key (and one to the other key), observations, dump, counters.
func genSweep(types string, seed int64) []string {
	var lines []string
	seq := 0
	build := map[rune][][]string{
		'h': {{"hmset", "K", "a", "1", "b", "2", "c", "3"}}, 's': {{"sadd", "K", "a", "b", "c"}},
		'z': {{"zadd", "K", "1", "a", "2", "b", "3", "c"}}, 'l': {{"rpush", "K", "a", "b", "c"}}, 'k': {{"set", "K", "abc"}},
	}
	expire := map[rune]string{'h': "hexpire", 's': "sexpire", 'z': "zexpire", 'l': "lexpire", 'k': "expire"}
	again := map[rune][][]string{
		'h': {{"hset", "K", "x", "9"}, {"hincrby", "K", "n", "1"}, {"hmset", "K", "a", "7", "y", "8"}},
		's': {{"sadd", "K", "x"}, {"sadd", "K", "a", "y"}, {"srem", "K", "a"}},
		'z': {{"zadd", "K", "9", "x"}, {"zincrby", "K", "1", "a"}, {"zrem", "K", "a"}},
		'l': {{"rpush", "K", "x"}, {"lpush", "K", "x", "y"}, {"lpop", "K"}},
		'k': {{"append", "K", "x"}, {"incr", "K"}, {"setnx", "K", "x"}},
	}
	tname := map[rune]string{'h': "H", 's': "S", 'z': "Z", 'l': "L", 'k': "K"}
	for _, t := range types {
		if build[t] == nil {
			continue
		}
		for _, ag := range again[t] {
			seq++
			cnt := 0
			ts := tsBase + seed*1000
			emit := func(kind string, f ...string) {
				cnt++
				lines = append(lines, fmt.Sprintf("s%d.%d\t%s\t%s", seq, cnt, kind, strings.Join(f, "\t")))
			}
			w := func(key string, a []string) {
				ts += 1500000001
				b := make([]string, len(a))
				for i, x := range a {
					if x == "K" {
						x = key
					}
					b[i] = x
				}
				emit("W", "0", "-", strconv.FormatInt(ts, 10), hexArgs(b...))
			}
			T := tname[t]
			emit("S", "local", strconv.FormatInt(genNow, 10))
			for _, b := range build[t] {
				w("t:dead", b)
				w("t:kept", b)
			}
			if t == 'k' && seq%2 == 0 {
				w("t:dead", []string{"setex", "K", "1", "abc"})
			} else {
				w("t:dead", []string{expire[t], "K", "1"})
			}
			emit("E")
			ts += 5000000000
			emit("X", strconv.FormatInt(ts, 10), T+":"+hx.H([]byte("t:dead")))
			w("t:dead", ag)
			emit("O", T, hx.H([]byte("t:dead")))
			w("t:kept", ag)
			emit("O", T, hx.H([]byte("t:kept")))
			emit("D", hexArgs("t:dead", "t:kept"))
			emit("T", hexArgs("t"))
			emit("E")
		}
	}
	return lines
}

// ---------------------------------------------------------------- big collections

// genBig builds, for every type of types, every size of sizes and every way the type has of removing a
// whole collection, the sequence: build the collection with commands of at most MAX_BATCH_NUM members,
// read its size, remove it, observe, re-create it with a few members (one old, some new), observe, dump,
// table counter, engine key counts. The sizes sit around rockredis.RangeDeleteNum, where the removal
// switches from key-by-key deletes to one DeleteRange.
func genBig(sizes string, types string, policy string, seed int64) []string {
	var lines []string
	seq := 0
	name := func(i int) string { return fmt.Sprintf("m%05d", i) }
	pols := []string{policy}
	if policy == "mix" {
		pols = []string{"local", "compact"}
	}
	type variant struct {
		clear [][]string
		obs   string
	}
	for _, pol := range pols {
		for _, t := range types {
			var clears [][]string
			switch t {
			case 'h':
				clears = [][]string{{"hclear"}}
			case 's':
				clears = [][]string{{"sclear"}}
			case 'z':
				clears = [][]string{{"zclear"}, {"zremrangebyrank", "0", "-1"}, {"zremrangebyscore", "-inf", "+inf"}, {"zremrangebylex", "-", "+"}}
			case 'l':
				clears = [][]string{{"lclear"}, {"ltrim", "6000", "7000"}}
			default:
				continue
			}
			for _, sz := range strings.Split(sizes, ",") {
				n, err := strconv.Atoi(strings.TrimSpace(sz))
				if err != nil || n <= 0 {
					continue
				}
				for ci, cl := range clears {
					if bigFirst && ci > 0 {
						break
					}
					seq++
					k := "t:big"
					cnt := 0
					ts := tsBase + seed*1000
					emit := func(kind string, f ...string) {
						cnt++
						lines = append(lines, fmt.Sprintf("b%d.%d\t%s\t%s", seq, cnt, kind, strings.Join(f, "\t")))
					}
					w := func(a ...string) {
						ts += 1500000001
						emit("W", "0", "-", strconv.FormatInt(ts, 10), hexArgs(a...))
					}
					emit("S", pol, strconv.FormatInt(genNow, 10))
					T := strings.ToUpper(string(t))
					// build in chunks of at most 5000 members
					for from := 0; from < n; from += 5000 {
						to := from + 5000
						if to > n {
							to = n
						}
						var a []string
						switch t {
						case 'h':
							a = []string{"hmset", k}
							for i := from; i < to; i++ {
								a = append(a, name(i), "v")
							}
						case 's':
							a = []string{"sadd", k}
							for i := from; i < to; i++ {
								a = append(a, name(i))
							}
						case 'z':
							a = []string{"zadd", k}
							for i := from; i < to; i++ {
								a = append(a, strconv.Itoa(i%7), name(i))
							}
						case 'l':
							a = []string{"rpush", k}
							for i := from; i < to; i++ {
								a = append(a, name(i))
							}
						}
						w(a...)
					}
					sizeCmd := map[rune]string{'h': "hlen", 's': "scard", 'z': "zcard", 'l': "llen"}[t]
					emit("R", hexArgs(sizeCmd, k))
					emit("E")
					w(append([]string{cl[0], k}, cl[1:]...)...)
					emit("O", T, hx.H([]byte(k)))
					emit("E")
					// re-create: one old member and two new ones
					switch t {
					case 'h':
						w("hmset", k, name(0), "new", "zz1", "1")
						w("hset", k, "zz2", "2")
					case 's':
						w("sadd", k, name(0), "zz1")
						w("sadd", k, "zz2")
					case 'z':
						w("zadd", k, "5", name(0), "6", "zz1")
						w("zincrby", k, "1", "zz2")
					case 'l':
						w("rpush", k, name(0), "zz1")
						w("lpush", k, "zz2")
					}
					emit("O", T, hx.H([]byte(k)))
					if t == 'z' {
						emit("R", hexArgs("zlexcount", k, "-", "+"))
						emit("R", hexArgs("zscore", k, name(1)))
						emit("R", hexArgs("zcount", k, "-inf", "+inf"))
					}
					if t == 'h' {
						emit("R", hexArgs("hget", k, name(1)))
					}
					if t == 's' {
						emit("R", hexArgs("sismember", k, name(1)))
					}
					if t == 'l' {
						emit("R", hexArgs("lindex", k, "3"))
					}
					emit("D", hexArgs(k))
					emit("T", hexArgs("t"))
					emit("E")
				}
			}
		}
	}
	return lines
}

// ---------------------------------------------------------------- exhaustive small scope

// genExhaustive enumerates every write sequence of length <= depth over a tiny alphabet
// (1 table, 2 keys, 2 members, 2 values) per type; after every write the touched key is observed.
func genExhaustive(depth int, types string, policy string) []string {
	if policy == "mix" {
		policy = "local"
	}
	var lines []string
	seq := 0
	for _, t := range types {
		alpha := tinyAlphabet(byte(t))
		if len(alpha) == 0 {
			continue
		}
		idx := make([]int, depth)
		for l := 1; l <= depth; l++ {
			for i := range idx {
				idx[i] = 0
			}
			for {
				seq++
				n := 0
				emit := func(kind string, f ...string) {
					n++
					lines = append(lines, fmt.Sprintf("x%d.%d\t%s\t%s", seq, n, kind, strings.Join(f, "\t")))
				}
				emit("S", policy, strconv.FormatInt(genNow, 10))
				ts := tsBase
				for i := 0; i < l; i++ {
					a := alpha[idx[i]]
					ts += 1500000001
					emit("W", "0", "-", strconv.FormatInt(ts, 10), hexArgs(a...))
					emit("O", typeOfCmd(a[0]), hx.H([]byte(a[1])))
				}
				if t == 'z' || t == 'Z' {
					emit("R", hexArgs("zrevrangebyscore", "t:k", "+inf", "-inf", "withscores", "limit", "1", "-1"))
					emit("R", hexArgs("zrangebyscore", "t:k", "-inf", "+inf", "limit", "1", "-1"))
					emit("R", hexArgs("zrevrangebyscore", "t:k", "+inf", "-inf", "limit", "1", "1"))
					emit("R", hexArgs("zrangebylex", "t:k", "-", "+", "limit", "1", "-1"))
				}
				emit("D", hexArgs("t:k", "t:j"))
				if withCounters {
					emit("T", hexArgs("t"))
					emit("E")
				}
				// next
				p := l - 1
				for p >= 0 {
					idx[p]++
					if idx[p] < len(alpha) {
						break
					}
					idx[p] = 0
					p--
				}
				if p < 0 {
					break
				}
			}
		}
	}
	return lines
}

func tinyAlphabet(t byte) [][]string {
	ks := []string{"t:k", "t:j"}
	var a [][]string
	switch t {
	case 'h':
		for _, k := range ks {
			a = append(a, []string{"hset", k, "a", "1"}, []string{"hmset", k, "a", "1", "a", "2"}, []string{"hmset", k, "a", "1", "b", "2"},
				[]string{"hdel", k, "a"}, []string{"hdel", k, "a", "a"}, []string{"hdel", k, "a", "b"}, []string{"hincrby", k, "a", "1"}, []string{"hclear", k})
		}
	case 's':
		for _, k := range ks {
			a = append(a, []string{"sadd", k, "a"}, []string{"sadd", k, "a", "a"}, []string{"sadd", k, "a", "b"},
				[]string{"srem", k, "a"}, []string{"srem", k, "a", "a"}, []string{"srem", k, "b", "a"}, []string{"spop", k}, []string{"sclear", k})
		}
	case 'z':
		for _, k := range ks {
			a = append(a, []string{"zadd", k, "1", "a"}, []string{"zadd", k, "1", "a", "2", "a"}, []string{"zadd", k, "2", "a", "2", "b"},
				[]string{"zrem", k, "a"}, []string{"zrem", k, "a", "a"}, []string{"zrem", k, "b", "a"}, []string{"zincrby", k, "1", "a"},
				[]string{"zremrangebyrank", k, "0", "0"}, []string{"zremrangebyscore", k, "(1", "2"}, []string{"zclear", k},
				[]string{"zfixkey", k}, []string{"zadd", k, "+inf", "c"},
				// 0 and -0 are one score (one score-index key) with two bit patterns
				[]string{"zadd", k, "0", "a"}, []string{"zadd", k, "-0", "a"}, []string{"zincrby", k, "-0", "a"})
		}
	case 'l':
		for _, k := range ks {
			a = append(a, []string{"rpush", k, "1"}, []string{"lpush", k, "2", "3"}, []string{"lpop", k}, []string{"rpop", k},
				[]string{"lset", k, "-1", "9"}, []string{"ltrim", k, "1", "-1"}, []string{"ltrim", k, "0", "0"}, []string{"lclear", k},
				[]string{"lfixkey", k})
		}
	case 'k':
		for _, k := range ks {
			a = append(a, []string{"set", k, "1"}, []string{"setnx", k, "v"}, []string{"incr", k}, []string{"append", k, "0"},
				[]string{"del", k, k}, []string{"del", "t:k", "t:j"}, []string{"getset", k, "2"})
		}
	// upper case: one key, the commands of the type mixed with its expiry commands (the timestamps
	// of an exhaustive sequence are 1.5 s apart: "1" is over at the next command, "3" two commands later)
	case 'H':
		a = [][]string{{"hset", "t:k", "a", "1"}, {"hsetnx", "t:k", "a", "2"}, {"hdel", "t:k", "a"}, {"hincrby", "t:k", "b", "1"}, {"hclear", "t:k"},
			{"hexpire", "t:k", "1"}, {"hexpire", "t:k", "3"}, {"hexpire", "t:k", "2000000000"}, {"hpersist", "t:k"}}
	case 'S':
		a = [][]string{{"sadd", "t:k", "a"}, {"sadd", "t:k", "b", "a"}, {"srem", "t:k", "a"}, {"spop", "t:k"}, {"sclear", "t:k"},
			{"sexpire", "t:k", "1"}, {"sexpire", "t:k", "3"}, {"sexpire", "t:k", "2000000000"}, {"spersist", "t:k"}}
	case 'Z':
		a = [][]string{{"zadd", "t:k", "1", "a"}, {"zincrby", "t:k", "1", "b"}, {"zrem", "t:k", "a"}, {"zremrangebyrank", "t:k", "0", "0"}, {"zclear", "t:k"},
			{"zexpire", "t:k", "1"}, {"zexpire", "t:k", "3"}, {"zexpire", "t:k", "2000000000"}, {"zpersist", "t:k"}, {"zfixkey", "t:k"}}
	case 'L':
		a = [][]string{{"rpush", "t:k", "1"}, {"lpush", "t:k", "2", "3"}, {"lpop", "t:k"}, {"lset", "t:k", "0", "9"}, {"ltrim", "t:k", "1", "-1"}, {"lclear", "t:k"},
			{"lexpire", "t:k", "1"}, {"lexpire", "t:k", "3"}, {"lexpire", "t:k", "2000000000"}, {"lpersist", "t:k"}, {"lfixkey", "t:k"}}
	case 'K':
		a = [][]string{{"set", "t:k", "1"}, {"setnx", "t:k", "5"}, {"incr", "t:k"}, {"append", "t:k", "0"}, {"del", "t:k", "t:j"}, {"getset", "t:k", "2"},
			{"setex", "t:k", "1", "7"}, {"setex", "t:k", "2000000000", "8"}, {"set", "t:k", "a", "ex", "3", "nx"}, {"set", "t:k", "b", "xx", "ex", "2000000000"}, {"set", "t:k", "c", "ex", "1", "xx"}, {"expire", "t:k", "1"}, {"expire", "t:k", "3"}, {"expire", "t:k", "2000000000"}, {"persist", "t:k"}}
	}
	return a
}

var _ = math.Inf
var _ = sort.Strings
