package main

// Command-level mode (-cmd): the same command sequences through the REAL data layer (node.StateMachine over
// rockredis, package smx) on every engine; the replies must not depend on engine_type. The generator aims at
// what the engine-level defects E1-E3 need to become visible through commands: reverse ranges and scans
// whose bounds / cursors are stored elements, and members that contain 0x00 or are empty.
//
//	cmdcases.tsv : <seq>.<n> \t W|R \t <hexarg>,<hexarg>,...
//	cmd-<engine>.out : <seq>.<n> \t <canonical reply>

import (
	"fmt"
	"strings"

	"verif/harness/internal/hx"
	"verif/harness/internal/smx"
)

type cstep struct {
	id    string
	write bool
	args  [][]byte
}

var cmdElems = [][]byte{{}, {0x00}, []byte("a"), {'a', 0x00}, {'a', 0x00, 0x00}, []byte("ab"), []byte("b"), {'b', 0x00}, {0xff}, []byte("c")}
var cmdScores = []string{"-1", "0", "1", "1.5", "2", "3"}

func bs(s ...string) [][]byte {
	o := make([][]byte, len(s))
	for i := range s {
		o[i] = []byte(s[i])
	}
	return o
}

// genHLLSeq: more HLL keys than the caches of rockredis hold (32 dirty + 1024 read), so that the oldest
// ones live only in the engine and PFCOUNT over several keys has to read them back through MultiGetBytes,
// which rockredis.PFCount calls with the key slice as the result slice
func genHLLSeq(r *hx.Rng, seq int) []cstep {
	var st []cstep
	n := 0
	add := func(w bool, args [][]byte) {
		n++
		st = append(st, cstep{fmt.Sprintf("%d.%d", seq, n), w, args})
	}
	nk := 1100 + r.Pick(50)
	pk := func(i int) []byte { return []byte(fmt.Sprintf("t:p%04d", i)) }
	for i := 0; i < nk; i++ {
		for j := 1; j > 0; j-- {
			add(true, [][]byte{[]byte("pfadd"), pk(i), r.Bytes(1+r.Pick(3), []byte("abc\x00"))})
		}
		if i < 30 && r.Chance(0.5) {
			add(true, [][]byte{[]byte("pfadd"), pk(i), r.Bytes(1+r.Pick(3), []byte("abc\x00"))})
		}
	}
	for q := 12 + r.Pick(10); q > 0; q-- {
		a := bs("pfcountm")
		for j := 2 + r.Pick(3); j > 0; j-- {
			a = append(a, pk(r.Pick(30))) // the oldest keys: evicted from both caches
		}
		add(false, a)
	}
	for q := 3; q > 0; q-- {
		add(false, append(bs("pfcount"), pk(30+r.Pick(10))))
	}
	return st
}

func genCmdSeq(r *hx.Rng, seq int) []cstep {
	if seq%40 == 0 {
		return genHLLSeq(r, seq)
	}
	var st []cstep
	n := 0
	add := func(w bool, args [][]byte) {
		n++
		st = append(st, cstep{fmt.Sprintf("%d.%d", seq, n), w, args})
	}
	elem := func() []byte { return cmdElems[r.Pick(len(cmdElems))] }
	score := func() string { return cmdScores[r.Pick(len(cmdScores))] }
	hk := [][]byte{[]byte("t:h"), []byte("t:h2"), []byte("tb:h")}
	key := func(base string) []byte {
		// several collections of one type, so that a collection has neighbours on both sides in the engine
		return []byte([]string{"t:", "t:", "t:", "t:", "t:", "ta:"}[r.Pick(6)] + base + []string{"", "", "", "2"}[r.Pick(4)])
	}
	_ = hk
	pkey := func() []byte { return []byte("t:p" + []string{"", "2", "3"}[r.Pick(3)]) } // one table: PFCOUNT rejects mixed tables
	cnt := func() string { return []string{"1", "2", "3", "10"}[r.Pick(4)] }
	nw := 10 + r.Pick(25)
	for i := 0; i < nw; i++ {
		switch r.Pick(10) {
		case 0, 1:
			add(true, [][]byte{[]byte("hset"), key("h"), elem(), []byte("v" + fmt.Sprint(i))})
		case 2, 3:
			add(true, [][]byte{[]byte("sadd"), key("s"), elem()})
		case 4, 5, 6:
			add(true, [][]byte{[]byte("zadd"), key("z"), []byte(score()), elem()})
		case 7:
			switch r.Pick(3) {
			case 0:
				add(true, [][]byte{[]byte("hdel"), key("h"), elem()})
			case 1:
				add(true, [][]byte{[]byte("srem"), key("s"), elem()})
			default:
				add(true, [][]byte{[]byte("zrem"), key("z"), elem()})
			}
		case 8:
			add(true, [][]byte{[]byte("pfadd"), pkey(), elem()})
		default:
			add(true, [][]byte{[]byte("rpush"), key("l"), elem()})
		}
		if r.Chance(0.45) || i == nw-1 {
			for j := 1 + r.Pick(4); j > 0; j-- {
				switch r.Pick(18) {
				case 16, 17:
					// rockredis.PFCount over several keys (MultiGetBytes with the key slice as result slice);
					// the node layer only accepts one key, so this goes to the store directly
					a := bs("pfcountm")
					for q := 1 + r.Pick(3); q > 0; q-- {
						a = append(a, pkey())
					}
					add(false, a)
				case 0:
					add(false, [][]byte{[]byte("hrevscan"), key("h"), elem(), []byte("count"), []byte(cnt())})
				case 1:
					add(false, [][]byte{[]byte("hscan"), key("h"), elem(), []byte("count"), []byte(cnt())})
				case 2:
					add(false, [][]byte{[]byte("srevscan"), key("s"), elem(), []byte("count"), []byte(cnt())})
				case 3:
					add(false, [][]byte{[]byte("sscan"), key("s"), elem(), []byte("count"), []byte(cnt())})
				case 4:
					add(false, [][]byte{[]byte("zrevscan"), key("z"), elem(), []byte("count"), []byte(cnt())})
				case 5:
					add(false, [][]byte{[]byte("zscan"), key("z"), elem(), []byte("count"), []byte(cnt())})
				case 6:
					add(false, append(bs("zrevrange"), key("z"), []byte([]string{"0", "1", "-2"}[r.Pick(3)]), []byte([]string{"-1", "1", "0"}[r.Pick(3)]), []byte("withscores")))
				case 7:
					mx, mn := score(), score()
					if r.Chance(0.3) {
						mx = "(" + mx
					}
					if r.Chance(0.3) {
						mn = "(" + mn
					}
					a := append(bs("zrevrangebyscore"), key("z"), []byte(mx), []byte(mn))
					if r.Chance(0.4) {
						a = append(a, bs("limit", fmt.Sprint(r.Pick(2)), cnt())...)
					}
					add(false, a)
				case 8:
					add(false, append(bs("zrangebyscore"), key("z"), []byte(score()), []byte(score())))
				case 9:
					lo := append([]byte{"[("[r.Pick(2)]}, elem()...)
					hi := append([]byte{"[("[r.Pick(2)]}, elem()...)
					add(false, append(bs("zrangebylex"), key("z"), lo, hi))
				case 10:
					lo := append([]byte{"[("[r.Pick(2)]}, elem()...)
					hi := append([]byte{"[("[r.Pick(2)]}, elem()...)
					add(false, append(bs("zlexcount"), key("z"), lo, hi))
				case 11:
					add(false, append(bs("zrevrank"), key("z"), elem()))
				case 12:
					add(false, append(bs("zrank"), key("z"), elem()))
				case 13:
					add(false, append(bs("hgetall"), key("h")))
				case 14:
					add(false, append(bs("smembers"), key("s")))
				default:
					add(false, append(bs("lrange"), key("l"), []byte("0"), []byte("-1")))
				}
			}
		}
	}
	return st
}

// minKeyLen: the shortest engine key the data layer wrote (read on the mem engine, whose raw cursor is not
// confined to a prefix). The engines are only required to agree on non-empty keys (pebble cannot flush the
// empty user key); this records that the data layer never writes one.
var minKeyLen = -1

func runCmdSeq(eng string, steps []cstep) []string {
	out := make([]string, len(steps))
	sm, err := smx.Open(eng, "local")
	if err != nil {
		for i := range out {
			out[i] = "openerr"
		}
		return out
	}
	defer sm.Close()
	ts := int64(1700000000000000000)
	for i, s := range steps {
		if s.write {
			ts += 1000000
			out[i] = sm.Apply(smx.OnePerCall, []smx.Req{{Args: s.args, Ts: ts}})[0]
		} else if string(s.args[0]) == "pfcountm" {
			func() {
				defer func() {
					if r := recover(); r != nil {
						out[i] = "panic"
					}
				}()
				n, err := sm.Store.PFCount(ts, s.args[1:]...)
				if err != nil {
					out[i] = "-err"
				} else {
					out[i] = fmt.Sprintf(":%d", n)
				}
			}()
		} else {
			out[i] = sm.Read(s.args...)
		}
	}
	if eng == "mem" {
		for _, l := range sm.RawDump() {
			k := strings.SplitN(l, "=", 2)[0]
			n := len(hx.UnH(k))
			if minKeyLen < 0 || n < minKeyLen {
				minKeyLen = n
			}
		}
	}
	return out
}

func cmdMode(seed int64, nseq int, engines []string, replayFile, outDir string) {
	smx.Quiet()
	var seqs [][]cstep
	if replayFile != "" {
		var cur []cstep
		last := ""
		for _, l := range hx.ReadLines(replayFile) {
			p := strings.Split(l, "\t")
			if len(p) < 3 {
				continue
			}
			sq := strings.Split(p[0], ".")[0]
			if sq != last && cur != nil {
				seqs = append(seqs, cur)
				cur = nil
			}
			last = sq
			cur = append(cur, cstep{p[0], p[1] == "W", hx.UnHL(p[2])})
		}
		if cur != nil {
			seqs = append(seqs, cur)
		}
	} else {
		r := hx.NewRng(seed)
		for i := 0; i < nseq; i++ {
			seqs = append(seqs, genCmdSeq(r, i+1))
		}
	}
	co := hx.Create(outDir + "/cmdcases.tsv")
	for _, sq := range seqs {
		for _, s := range sq {
			k := "R"
			if s.write {
				k = "W"
			}
			co.Printf("%s\t%s\t%s\n", s.id, k, hx.HL(s.args))
		}
	}
	co.Close()
	for _, en := range engines {
		o := hx.Create(outDir + "/cmd-" + en + ".out")
		for _, sq := range seqs {
			res := runCmdSeq(en, sq)
			for i, s := range sq {
				o.Printf("%s\t%s\n", s.id, res[i])
			}
		}
		o.Close()
	}
	ko := hx.Create(outDir + "/cmd-minkeylen.out")
	ko.Printf("minkeylen\t%d\n", minKeyLen)
	ko.Close()
}
