package main

// Concurrent mode (-conc): one writer commits batches B1..Bn while readers iterate and point-read. The
// schedule is not controlled (that is the point: the property quantifies over all of them); what is recorded
// is, for every read, what it saw and how many commits were acknowledged before it started / after it ended.
// Oracle (props/C20.py): every snapshot read (range iterator, raw cursor walk, MultiGetBytes) equals the store
// after exactly j committed batches for some j in [acked before, acked after + 1], and j never decreases
// per reader: a committed batch is visible atomically and completely, a batch being built not at all.
//
//	conc-<engine>.out lines:  <reader> \t <kind> \t <acked before> \t <acked after> \t k=v,k=v,...
//	conc-script.tsv        :  the batches (engine script steps), one line per batch

import (
	"fmt"
	"strings"
	"sync"
	"sync/atomic"

	"github.com/youzan/ZanRedisDB/engine"
	"verif/harness/internal/hx"
)

func concBatches(r *hx.Rng, n int) [][]string {
	pfx := "706678" // "pfx": one 3-byte prefix, valid on rocksdb too
	ring := []string{"00", "0000", "61", "6100", "62", "ff", "ffff", "7a"}
	var out [][]string
	for i := 1; i <= n; i++ {
		var b []string
		v := hx.H(le8(uint64(i)))
		for _, k := range ring {
			b = append(b, "P "+pfx+"72"+k+" "+v) // ring keys: all carry the batch number
		}
		b = append(b, "M "+pfx+"63 "+hx.H(le8(1))) // counter = number of committed batches
		b = append(b, "D "+pfx+"64"+hx.H(le8(uint64(i-1))))
		b = append(b, "P "+pfx+"64"+hx.H(le8(uint64(i)))+" "+v) // exactly one "d" key
		if i%3 == 0 {
			b = append(b, "R "+pfx+"65 "+pfx+"66") // wipe the "e" keys ...
		}
		for j := r.Pick(4); j > 0; j-- { // ... and add some
			b = append(b, "P "+pfx+"65"+hx.H(r.Bytes(1+r.Pick(2), []byte{0, 1, 0x61, 0xff}))+" "+v)
		}
		out = append(out, b)
	}
	return out
}

func concRun(eng string, batches [][]string, readers int, outPath string) {
	o := hx.Create(outPath)
	defer o.Close()
	in, err := openEng(eng)
	if err != nil {
		o.Printf("0\topenerr\t0\t0\t\n")
		return
	}
	defer in.close()
	e := in.e
	var acked int64
	var mu sync.Mutex
	emit := func(rd int, kind string, lo, hi int64, content string) {
		mu.Lock()
		o.Printf("%d\t%s\t%d\t%d\t%s\n", rd, kind, lo, hi, content)
		mu.Unlock()
	}
	done := make(chan struct{})
	var wg sync.WaitGroup
	pfx := []byte("pfx")
	maxk := append(append([]byte{}, pfx...), 0xff, 0xff, 0xff, 0xff, 0xff)
	ringKeys := [][]byte{}
	for _, k := range []string{"00", "0000", "61", "6100", "62", "ff", "ffff", "7a"} {
		ringKeys = append(ringKeys, hx.UnH("70667872"+k))
	}
	ringKeys = append(ringKeys, hx.UnH("70667863"))
	for rd := 1; rd <= readers; rd++ {
		wg.Add(1)
		go func(rd int) {
			defer wg.Done()
			rr := hx.NewRng(int64(rd) * 7919)
			for it := 0; ; it++ {
				select {
				case <-done:
					return
				default:
				}
				lo := atomic.LoadInt64(&acked)
				switch rr.Pick(4) {
				case 0, 1:
					rev := rr.Pick(2) == 1
					opts := engine.IteratorOpts{Range: engine.Range{Min: pfx, Max: maxk, Type: 0}, Reverse: rev, WithSnap: rr.Pick(2) == 1}
					ri, err := engine.NewDBRangeIteratorWithOpts(e, opts)
					if err != nil {
						emit(rd, "itererr", lo, lo, "")
						continue
					}
					var kv []string
					for ; ri.Valid(); ri.Next() {
						kv = append(kv, hx.H(ri.Key())+"="+hx.H(ri.Value()))
					}
					ri.Close()
					if rev {
						for i, j := 0, len(kv)-1; i < j; i, j = i+1, j-1 {
							kv[i], kv[j] = kv[j], kv[i]
						}
					}
					emit(rd, "iter", lo, atomic.LoadInt64(&acked), strings.Join(kv, ","))
				case 2:
					vals := make([][]byte, len(ringKeys))
					errs := make([]error, len(ringKeys))
					e.MultiGetBytes(ringKeys, vals, errs)
					var kv []string
					for i := range ringKeys {
						kv = append(kv, hx.H(ringKeys[i])+"="+hv(vals[i]))
					}
					emit(rd, "mget", lo, atomic.LoadInt64(&acked), strings.Join(kv, ","))
				default:
					ci, err := e.GetIterator(engine.IteratorOpts{Range: engine.Range{Min: pfx, Max: maxk}})
					if err != nil {
						emit(rd, "itererr", lo, lo, "")
						continue
					}
					var kv []string
					for ci.Seek(pfx); ci.Valid(); ci.Next() {
						kv = append(kv, hx.H(ci.Key())+"="+hx.H(ci.Value()))
					}
					ci.Close()
					emit(rd, "cursor", lo, atomic.LoadInt64(&acked), strings.Join(kv, ","))
				}
			}
		}(rd)
	}
	wb := e.NewWriteBatch()
	for _, b := range batches {
		for _, st := range b {
			f := strings.Split(st, " ")
			switch f[0] {
			case "P":
				wb.Put(hx.UnH(f[1]), hx.UnH(f[2]))
			case "D":
				wb.Delete(hx.UnH(f[1]))
			case "R":
				wb.DeleteRange(hx.UnH(f[1]), hx.UnH(f[2]))
			case "M":
				wb.Merge(hx.UnH(f[1]), hx.UnH(f[2]))
			}
		}
		if err := e.Write(wb); err != nil {
			emit(0, "commiterr", 0, 0, "")
		}
		wb.Clear()
		atomic.AddInt64(&acked, 1)
	}
	close(done)
	wg.Wait()
	wb.Destroy()
	emit(0, "final", int64(len(batches)), int64(len(batches)), fmt.Sprint(len(batches)))
}

func concMode(seed int64, n int, engines []string, outDir string) {
	r := hx.NewRng(seed)
	batches := concBatches(r, n)
	co := hx.Create(outDir + "/conc-script.tsv")
	for i, b := range batches {
		co.Printf("%d\t%s\n", i+1, strings.Join(b, ";"))
	}
	co.Close()
	for _, en := range engines {
		concRun(en, batches, 3, outDir+"/conc-"+en+".out")
	}
}
