package main

import (
	"math/rand"
	"strconv"
	"strings"
)

// The generator: sequences of abstract steps, every time RELATIVE to the start second of the
// sequence (now0), in nanoseconds. All log timestamps and all expiry instants stay at least
// `guard` away from now0 (and from now0 - 48 h), so that no decision that uses the real clock
// (reads, compaction filter, local-deletion scan) depends on sub-day clock values.

const (
	day   = int64(86400)
	guard = 20 * day // seconds
)

type gen struct {
	r      *rand.Rand
	lines  []string
	seq    int
	step   int
	policy string
	engine string
	cur    int64            // current relative log time (ns)
	exp    map[string]int64 // type/key -> last requested expiry second (relative), tracked heuristically
	vers   map[string]map[int64]bool
	eras   []int64 // anchors (relative seconds)
}

func hx(s string) string { return hexs([]byte(s)) }

func (g *gen) emit(kind string, fields ...string) string {
	id := strconv.Itoa(g.seq) + "." + strconv.Itoa(g.step)
	g.step++
	g.lines = append(g.lines, id+"\t"+kind+"\t"+strings.Join(fields, "\t"))
	return id
}

func (g *gen) pick(l []string) string { return l[g.r.Intn(len(l))] }

var (
	keyPool  = []string{"t:a", "t:b"}
	types    = []string{"k", "h", "s", "z", "l"}
	fields   = []string{"f", "g", "m1"}
	vals     = []string{"v", "", "12", "-3", "abc", "9223372036854775807", "x y"}
	durs     = []string{"1", "1", "2", "2", "5", "10", "60", "3600", "34560000", "0", "-1", "-5", "4294967295", "-3000000000"}
	ldurs    = []string{"1", "2", "5", "10", "60", "3600", "34560000", "-1", "-5"}
	smallInt = []string{"1", "-1", "5", "0", "100"}
)

func okTime(sec int64) bool {
	return (sec > guard || sec < -guard-3*day) && sec+1790000000 > 0
}

func (g *gen) nextTs() string {
	x := g.r.Intn(100)
	switch {
	case x < 55:
		g.cur += []int64{1, 1000, 1000000, nsPerSec, 3 * nsPerSec, 999999999}[g.r.Intn(6)]
	case x < 85 && len(g.exp) > 0:
		// around the expiry instant of some key
		ks := make([]string, 0, len(g.exp))
		for k := range g.exp {
			ks = append(ks, k)
		}
		sortStrings(ks)
		e := g.exp[ks[g.r.Intn(len(ks))]]
		off := []int64{-nsPerSec, -1, 0, 1, nsPerSec - 1, nsPerSec, -nsPerSec - 1, 2 * nsPerSec}[g.r.Intn(8)]
		if okTime(e-2) && okTime(e+2) {
			g.cur = e*nsPerSec + off
		}
	case x < 90:
		// same timestamp as the previous entry
	case x < 92:
		return "Z"
	case x < 96:
		g.cur = g.eras[g.r.Intn(len(g.eras))]*nsPerSec + int64(g.r.Intn(1000))
	default:
		g.cur += int64(g.r.Intn(7200)) * nsPerSec
	}
	return strconv.FormatInt(g.cur, 10)
}

func sortStrings(l []string) {
	for i := 1; i < len(l); i++ {
		for j := i; j > 0 && l[j] < l[j-1]; j-- {
			l[j], l[j-1] = l[j-1], l[j]
		}
	}
}

// trackExpire remembers the expiry a command asks for (whether or not it will succeed).
func (g *gen) trackExpire(t, key string, ts string, dur string) bool {
	if ts == "Z" {
		return true
	}
	tsv, _ := strconv.ParseInt(ts, 10, 64)
	d, _ := strconv.ParseInt(dur, 10, 64)
	e := tsv/nsPerSec + d
	if d > 1000000000 || d < -1000000000 {
		return true // overflow / wrap cases: no meaningful instant
	}
	if !okTime(e) {
		return false
	}
	g.exp[t+"/"+key] = e
	return true
}

func (g *gen) some(pool []string, max int) []string {
	n := 1 + g.r.Intn(max)
	out := make([]string, n)
	for i := range out {
		out[i] = g.pick(pool)
	}
	return out
}

// write emits one write command (and the observation lines after it).
func (g *gen) write() {
	t := g.pick(types)
	key := g.pick(keyPool)
	ts := g.nextTs()
	dp := durs
	if g.policy == "local" {
		dp = ldurs
	}
	var name string
	var args []string
	keys := []string{key}
	switch t {
	case "k":
		switch x := g.r.Intn(100); {
		case x < 4:
			opts := [][]string{{"ex", "10"}, {"nx"}, {"xx"}, {"ex", "2", "nx"}, {"xx", "ex", "3600"}, {"EX", "5"}, {"nx", "xx"}, {"ex", "0"}}[g.r.Intn(8)]
			for i, o := range opts {
				if (o == "ex" || o == "EX") && i+1 < len(opts) {
					g.trackExpire("k", key, ts, opts[i+1])
				}
			}
			name, args = "set", append([]string{key, g.pick(vals)}, opts...)
		case x < 7:
			if g.r.Intn(2) == 0 {
				name, args = "setifeq", []string{key, g.pick(vals), g.pick(vals)}
			} else {
				g.trackExpire("k", key, ts, "10")
				name, args = "setifeq", []string{key, g.pick(vals), g.pick(vals), "ex", "10"}
			}
		case x < 9:
			name, args = "delifeq", []string{key, g.pick(vals)}
		case x < 12:
			name, args = "set", []string{key, g.pick(vals)}
		case x < 30:
			d := g.pick(dp)
			if !g.trackExpire("k", key, ts, d) {
				d = "1"
				g.trackExpire("k", key, ts, d)
			}
			name, args = "setex", []string{key, d, g.pick(vals)}
		case x < 36:
			name, args = "setnx", []string{key, g.pick(vals)}
		case x < 42:
			name, args = "getset", []string{key, g.pick(vals)}
		case x < 46:
			k2 := g.pick(keyPool)
			name, args = "mset", []string{key, g.pick(vals), k2, g.pick(vals)}
			keys = append(keys, k2)
		case x < 52:
			name, args = "incr", []string{key}
		case x < 58:
			name, args = "incrby", []string{key, g.pick(smallInt)}
		case x < 66:
			name, args = "append", []string{key, g.pick(vals)}
		case x < 72:
			name, args = "setrange", []string{key, strconv.Itoa(g.r.Intn(5)), g.pick(vals)}
		case x < 77:
			k2 := g.pick(keyPool)
			name, args = "del", []string{key, k2}
			keys = append(keys, k2)
		case x < 93:
			d := g.pick(dp)
			if !g.trackExpire("k", key, ts, d) {
				d = "1"
				g.trackExpire("k", key, ts, d)
			}
			name, args = "expire", []string{key, d}
		default:
			name, args = "persist", []string{key}
		}
	default:
		pre := t
		x := g.r.Intn(100)
		switch {
		case x < 16:
			d := g.pick(dp)
			if !g.trackExpire(t, key, ts, d) {
				d = "1"
				g.trackExpire(t, key, ts, d)
			}
			name, args = pre+"expire", []string{key, d}
		case x < 21:
			name, args = pre+"persist", []string{key}
		case x < 29:
			name, args = pre+"clear", []string{key}
		default:
			switch t {
			case "h":
				switch y := g.r.Intn(100); {
				case y < 35:
					name, args = "hset", []string{key, g.pick(fields), g.pick(vals)}
				case y < 45:
					name, args = "hsetnx", []string{key, g.pick(fields), g.pick(vals)}
				case y < 60:
					args = []string{key}
					for _, f := range g.some(fields, 3) {
						args = append(args, f, g.pick(vals))
					}
					name = "hmset"
				case y < 80:
					name, args = "hdel", append([]string{key}, g.some(fields, 3)...)
				default:
					name, args = "hincrby", []string{key, g.pick(fields), g.pick(smallInt)}
				}
			case "s":
				switch y := g.r.Intn(100); {
				case y < 50:
					name, args = "sadd", append([]string{key}, g.some(fields, 3)...)
				case y < 80:
					name, args = "srem", append([]string{key}, g.some(fields, 3)...)
				default:
					name, args = "spop", []string{key, strconv.Itoa(g.r.Intn(3))}
				}
			case "z":
				switch y := g.r.Intn(100); {
				case y < 45:
					args = []string{key}
					for _, m := range g.some(fields, 3) {
						args = append(args, strconv.Itoa(g.r.Intn(7)-3), m)
					}
					name = "zadd"
				case y < 60:
					name, args = "zincrby", []string{key, strconv.Itoa(g.r.Intn(7) - 3), g.pick(fields)}
				case y < 78:
					name, args = "zrem", append([]string{key}, g.some(fields, 3)...)
				case y < 88:
					name, args = "zremrangebyrank", []string{key, strconv.Itoa(g.r.Intn(7) - 3), strconv.Itoa(g.r.Intn(7) - 3)}
				default:
					lo := g.r.Intn(7) - 3
					name, args = "zremrangebyscore", []string{key, strconv.Itoa(lo), strconv.Itoa(lo + g.r.Intn(4))}
				}
			case "l":
				switch y := g.r.Intn(100); {
				case y < 30, y < 60:
					name = "lpush"
					if y >= 30 {
						name = "rpush"
					}
					args = append([]string{key}, g.some(vals, 3)...)
				case y < 72:
					name, args = "lpop", []string{key}
				case y < 84:
					name, args = "rpop", []string{key}
				case y < 92:
					name, args = "ltrim", []string{key, strconv.Itoa(g.r.Intn(7) - 3), strconv.Itoa(g.r.Intn(7) - 3)}
				default:
					name, args = "lset", []string{key, strconv.Itoa(g.r.Intn(7) - 3), g.pick(vals)}
				}
			}
		}
	}
	f := []string{ts, name}
	for _, a := range args {
		f = append(f, hx(a))
	}
	g.emit("W", f...)
	g.emit("X")
	seen := map[string]bool{}
	for _, k := range keys {
		if !seen[k] {
			seen[k] = true
			g.emit("O", t, hx(k))
		}
	}
	if g.r.Intn(2) == 0 {
		g.emit("Q")
	}
}

// observeAll: every key as every type, then the multi-key / multi-member reads (Q: EXISTS k1 k2 k3, MGET,
// HMGET, SISMEMBER, ZSCORE over the key pool and one key that is never written).
func (g *gen) observeAll() {
	for _, t := range types {
		for _, k := range keyPool {
			g.emit("O", t, hx(k))
		}
	}
	g.emit("Q")
}

func (g *gen) sequence(seq int, maxLen int, engine string) {
	g.seq, g.step = seq, 0
	g.exp = map[string]int64{}
	g.vers = map[string]map[int64]bool{}
	g.policy = "compact"
	if g.r.Intn(100) < 18 {
		g.policy = "local"
	}
	g.engine = engine
	g.emit("NEW", g.policy, engine)
	past := -(guard + 5*day + int64(g.r.Intn(1900))*day)
	future := guard + 5*day + int64(g.r.Intn(1400))*day
	g.eras = []int64{past, future}
	switch g.r.Intn(10) {
	case 0, 1, 2, 3:
		g.eras = []int64{past}
	case 4, 5:
		g.eras = []int64{future}
	case 6:
		// ancient: expiry seconds below minExpiredPossible are never lazily cleaned
		g.eras = []int64{past, 1400000000 - 1790000000}
	}
	g.cur = g.eras[0]*nsPerSec + int64(g.r.Intn(1000000000))
	n := 8 + g.r.Intn(maxLen)
	for i := 0; i < n; i++ {
		x := g.r.Intn(100)
		switch {
		case x < 78:
			g.write()
		case x < 88:
			// background step, with every key observed before and after
			g.observeAll()
			if g.policy == "compact" && g.engine == "rocksdb" && g.r.Intn(2) == 0 {
				g.emit("K")
			} else if g.policy == "compact" {
				g.emit("C", []string{"100", "100", "50", "30", "0"}[g.r.Intn(5)])
			} else {
				g.emit("L")
			}
			g.emit("X")
			g.observeAll()
		default:
			// the expiry decision of the read path with a chosen read clock, around an expiry instant
			t := g.pick(types)
			k := g.pick(keyPool)
			tn := g.cur
			if e, ok := g.exp[t+"/"+k]; ok {
				tn = e*nsPerSec + []int64{-nsPerSec, -1, 0, 1, nsPerSec}[g.r.Intn(5)]
			}
			g.emit("A", strconv.FormatInt(tn, 10), t, hx(k))
		}
	}
	g.observeAll()
}

// filterDeltas: ExpireAt - (filter clock) of the compaction-filter probes, in seconds, on both sides of the
// lazy threshold (48 h) and of "now"
var filterDeltas = []string{"-176400", "-172801", "-172800", "-172799", "-1", "0", "1", "3600", "172740", "172800", "176400"}

// grid: the deterministic part of every run. One short sequence per (read-modify-write command, offset
// around the expiry second, value incl. the empty string) on an expired / about-to-expire key, one per
// (collection type, clear | expire, re-create), and the compaction-filter probes.
func (g *gen) grid(engines []string) {
	type rmw struct {
		t    string
		name string
		args []string
	}
	setup := map[string][][]string{
		"k": {{"set", "t:a", "12"}},
		"h": {{"hmset", "t:a", "f", "12", "g", "v"}},
		"s": {{"sadd", "t:a", "f", "g"}},
		"z": {{"zadd", "t:a", "1", "f", "2", "g"}},
		"l": {{"rpush", "t:a", "v", "12"}},
	}
	exp := map[string]string{"k": "expire", "h": "hexpire", "s": "sexpire", "z": "zexpire", "l": "lexpire"}
	var cmds []rmw
	for _, v := range []string{"", "x", "12"} {
		cmds = append(cmds, rmw{"k", "append", []string{"t:a", v}}, rmw{"k", "setrange", []string{"t:a", "1", v}},
			rmw{"k", "getset", []string{"t:a", v}}, rmw{"k", "setnx", []string{"t:a", v}}, rmw{"k", "set", []string{"t:a", v}},
			rmw{"h", "hset", []string{"t:a", "m1", v}}, rmw{"h", "hsetnx", []string{"t:a", "f", v}},
			rmw{"l", "lpush", []string{"t:a", v}}, rmw{"l", "rpush", []string{"t:a", v}})
	}
	cmds = append(cmds, rmw{"k", "set", []string{"t:a", "x", "nx"}}, rmw{"k", "set", []string{"t:a", "x", "xx"}},
		rmw{"k", "set", []string{"t:a", "x", "ex", "10"}}, rmw{"k", "setifeq", []string{"t:a", "12", "x"}},
		rmw{"k", "setifeq", []string{"t:a", "", "x"}}, rmw{"k", "setifeq", []string{"t:a", "zz", "x", "ex", "10"}},
		rmw{"k", "delifeq", []string{"t:a", "12"}}, rmw{"k", "delifeq", []string{"t:a", "zz"}},
		rmw{"l", "ltrim", []string{"t:a", "0", "0"}}, rmw{"l", "ltrim", []string{"t:a", "5", "9"}}, rmw{"l", "lset", []string{"t:a", "0", "z"}},
		rmw{"l", "lset", []string{"t:a", "-1", "z"}}, rmw{"z", "zremrangebyrank", []string{"t:a", "0", "0"}},
		rmw{"z", "zremrangebyrank", []string{"t:a", "0", "-1"}}, rmw{"z", "zremrangebyrank", []string{"t:a", "-1", "5"}})
	cmds = append(cmds, rmw{"k", "incr", []string{"t:a"}}, rmw{"k", "incrby", []string{"t:a", "5"}}, rmw{"k", "del", []string{"t:a"}},
		rmw{"k", "expire", []string{"t:a", "10"}}, rmw{"k", "persist", []string{"t:a"}}, rmw{"k", "mset", []string{"t:a", "", "t:b", "x"}},
		rmw{"h", "hmset", []string{"t:a", "m1", "", "f", "x"}}, rmw{"h", "hdel", []string{"t:a", "f", "m1"}}, rmw{"h", "hincrby", []string{"t:a", "f", "5"}},
		rmw{"h", "hclear", []string{"t:a"}}, rmw{"h", "hexpire", []string{"t:a", "10"}}, rmw{"h", "hpersist", []string{"t:a"}},
		rmw{"s", "sadd", []string{"t:a", "m1", ""}}, rmw{"s", "srem", []string{"t:a", "f"}}, rmw{"s", "spop", []string{"t:a", "1"}},
		rmw{"s", "sclear", []string{"t:a"}}, rmw{"s", "sexpire", []string{"t:a", "10"}}, rmw{"s", "spersist", []string{"t:a"}},
		rmw{"z", "zadd", []string{"t:a", "3", "m1"}}, rmw{"z", "zincrby", []string{"t:a", "2", "f"}}, rmw{"z", "zrem", []string{"t:a", "f"}},
		rmw{"z", "zremrangebyscore", []string{"t:a", "0", "5"}}, rmw{"z", "zclear", []string{"t:a"}}, rmw{"z", "zexpire", []string{"t:a", "10"}},
		rmw{"z", "zpersist", []string{"t:a"}},
		rmw{"l", "lpop", []string{"t:a"}}, rmw{"l", "rpop", []string{"t:a"}}, rmw{"l", "lclear", []string{"t:a"}},
		rmw{"l", "lexpire", []string{"t:a", "10"}}, rmw{"l", "lpersist", []string{"t:a"}})
	// a counter command on an expired value that is not a number starts from 0 (the dead bytes do not decide the reply)
	pres := map[int][][]string{} // own setup of a command (default: setup[t])
	for _, v := range []string{"token", "", "1.5", "99999999999999999999"} {
		pres[len(cmds)] = [][]string{{"set", "t:a", v}}
		cmds = append(cmds, rmw{"k", "incr", []string{"t:a"}})
		pres[len(cmds)] = [][]string{{"set", "t:a", v}}
		cmds = append(cmds, rmw{"k", "incrby", []string{"t:a", "-7"}})
	}
	pres[len(cmds)] = [][]string{{"hset", "t:a", "f", "token"}}
	cmds = append(cmds, rmw{"h", "hincrby", []string{"t:a", "f", "3"}})
	base := -(guard + 100*day) * nsPerSec
	w := func(ts int64, name string, args ...string) {
		f := []string{strconv.FormatInt(ts, 10), name}
		for _, a := range args {
			if strings.HasPrefix(a, "~S") {
				f = append(f, a) // resolved by the executor: -(second of the entry's timestamp) + k
			} else {
				f = append(f, hx(a))
			}
		}
		g.emit("W", f...)
		g.emit("X") // the oracle judges every write against the physical state before and after it
	}
	n := 0
	for ci, c := range cmds {
		for oi, off := range []int64{-1, 0, nsPerSec} {
			g.seq, g.step = 1000000+n, 0
			n++
			g.emit("NEW", "compact", engines[(ci+oi)%len(engines)])
			pre := setup[c.t]
			if p, ok := pres[ci]; ok {
				pre = p
			}
			for _, st := range pre {
				w(base, st[0], st[1:]...)
			}
			w(base+1, exp[c.t], "t:a", "10")
			e := (base/nsPerSec + 10) * nsPerSec
			w(e+off, c.name, c.args...)
			g.emit("O", c.t, hx("t:a"))
			g.emit("Q")
			if c.name == "mset" {
				g.emit("O", "k", hx("t:b"))
			}
			g.emit("A", strconv.FormatInt(e-1, 10), c.t, hx("t:a"))
			g.emit("A", strconv.FormatInt(e, 10), c.t, hx("t:a"))
		}
	}
	// a re-created collection must not show members of its cleared / expired predecessor
	for ti, t := range []string{"h", "s", "z", "l"} {
		for vi, via := range []string{"clear", "expire"} {
			g.seq, g.step = 1000000+n, 0
			n++
			g.emit("NEW", "compact", engines[(ti+vi)%len(engines)])
			for _, st := range setup[t] {
				w(base, st[0], st[1:]...)
			}
			ts := base + 5
			if via == "clear" {
				w(ts, t+"clear", "t:a")
			} else {
				w(ts, exp[t], "t:a", "10")
				ts = (base/nsPerSec + 11) * nsPerSec
			}
			g.emit("O", t, hx("t:a"))
			switch t {
			case "h":
				w(ts+7, "hset", "t:a", "m1", "x")
			case "s":
				w(ts+7, "sadd", "t:a", "m1")
			case "z":
				w(ts+7, "zadd", "t:a", "5", "m1")
			case "l":
				w(ts+7, "rpush", "t:a", "x")
			}
			g.emit("O", t, hx("t:a"))
			g.policy = "compact"
			g.observeAll()
			g.emit("C", "100")
			g.emit("X")
			g.observeAll()
		}
	}
	// a list re-created with the generation number of its cleared predecessor: the push meets stored elements
	// ("should not override": error, the elements written so far stay, fixListKey)
	for ei, eng := range engines {
		g.seq, g.step = 1000000+n, 0
		n++
		g.emit("NEW", "compact", eng)
		w(base, "rpush", "t:a", "x", "y")
		w(base, "lpop", "t:a")
		w(base, "lclear", "t:a")
		if ei%2 == 0 {
			w(base, "rpush", "t:a", "a", "b")
		} else {
			w(base, "lpush", "t:a", "a", "b")
		}
		g.emit("O", "l", hx("t:a"))
		w(base+5, "rpush", "t:a", "c")
		g.emit("O", "l", hx("t:a"))
		w(base+6, "lpop", "t:a")
		g.emit("O", "l", hx("t:a"))
	}
	// multi-key reads over live, expired (not yet compacted), cleared and absent keys: an expired key counts
	// exactly like an absent one in EXISTS k1 k2 ..., MGET, HMGET, SISMEMBER, ZSCORE
	for ei := range engines {
		for vi, which := range []string{"a", "b", "ab", "none"} {
			g.seq, g.step = 1000000+n, 0
			n++
			g.emit("NEW", "compact", engines[(ei+vi)%len(engines)])
			for _, k := range []string{"t:a", "t:b"} {
				w(base, "set", k, "v"+k)
				w(base, "hmset", k, "f", "1", "g", "", "m1", "x")
				w(base, "sadd", k, "f", "m1")
				w(base, "zadd", k, "1", "f", "-2", "g")
			}
			g.emit("Q")
			for _, k := range []string{"t:a", "t:b"} {
				if strings.Contains(which, k[2:]) {
					w(base+1, "expire", k, "10")
					w(base+1, "hexpire", k, "10")
					w(base+1, "sexpire", k, "10")
					w(base+1, "zexpire", k, "10")
				}
			}
			g.emit("Q")
			g.policy = "compact"
			g.observeAll()
			g.emit("C", "100")
			g.emit("X")
			g.emit("Q")
		}
	}
	// local deletion: a refused conditional write (SET .. EX s NX on an existing key, SET .. EX s XX on a missing one,
	// SETNX on an existing key, SETIFEQ .. EX with another value) must not leave an expiry behind: the writes after
	// it, a deleter scan and the reads
	for ri, refused := range [][]string{{"set", "t:a", "x", "ex", "10", "nx"}, {"set", "t:b", "x", "ex", "10", "xx"},
		{"setifeq", "t:a", "zz", "x", "ex", "10"}, {"set", "t:a", "x", "nx", "ex", "5"}} {
		g.seq, g.step = 1000000+n, 0
		n++
		g.emit("NEW", "local", []string{"pebble", "mem"}[ri%2])
		g.policy = "local"
		w(base, "set", "t:a", "v")
		w(base+1, refused[0], refused[1:]...)
		w(base+2, "set", "t:b", "y")
		w(base+3, "hset", "t:a", "f", "v")
		g.observeAll()
		g.emit("L")
		g.emit("X")
		g.observeAll()
	}
	// *EXPIRE with a negative duration that lands exactly on second 0 (-(second of the entry) and +-1 as controls):
	// "a second not after the epoch is second 1" - the key is dead at once, never persistent (when = 0 means no expiry)
	for ti, t := range types {
		for ki, k := range []string{"~S0", "~S-1", "~S1", "~S2"} {
			for pi, pol := range []string{"compact", "local"} {
				g.seq, g.step = 1000000+n, 0
				n++
				g.emit("NEW", pol, engines[(ti+ki+pi)%len(engines)])
				g.policy = pol
				for _, st := range setup[t] {
					w(base, st[0], st[1:]...)
				}
				w(base+nsPerSec, exp[t], "t:a", k)
				g.emit("O", t, hx("t:a"))
				g.emit("A", strconv.FormatInt(base+nsPerSec, 10), t, hx("t:a"))
				g.emit("Q")
				if pol == "local" {
					g.observeAll()
					g.emit("L")
					g.emit("X")
					g.observeAll()
				} else {
					w(base+2*nsPerSec, exp[t], "t:a", "100")
					g.emit("O", t, hx("t:a"))
				}
			}
		}
	}
	// compaction-filter probes on both sides of the lazy threshold
	for _, eng := range engines {
		g.seq, g.step = 1000000+n, 0
		n++
		g.emit("NEW", "compact", eng)
		g.emit("F", strings.Join(filterDeltas, ","))
	}
}

func generate(seed int64, n, maxLen int, engines []string) []string {
	g := &gen{r: rand.New(rand.NewSource(seed))}
	g.grid(engines)
	for i := 0; i < n; i++ {
		g.sequence(i, maxLen, engines[i%len(engines)])
	}
	return g.lines
}
