package main

import (
	"fmt"
	"strings"
	"time"

	"verif/harness/internal/smx"
)

// bitmapConvert: unexpired data must survive the conversion of an old-format bitmap (one KV value, written by
// rockredis.BitSetOld) into segment keys, which the first new-format SETBIT (BitSetV2) performs. Runs the real
// rockredis functions on a real store under both expiration policies; prints one result per (policy, engine):
// "ok" or the bits that were lost.
func bitmapConvert() string {
	var res []string
	offs := []int64{0, 7, 8, 9000, 20000}
	for _, pol := range []string{"compact", "local"} {
		for _, eng := range []string{"mem", "pebble"} {
			r := func() (out string) {
				defer func() {
					if p := recover(); p != nil {
						out = fmt.Sprint("panic: ", p)
					}
				}()
				sm, err := smx.Open(eng, pol)
				if err != nil {
					return "inconclusive: open: " + err.Error()
				}
				defer sm.Close()
				db := sm.Store
				key := []byte(smx.NS + ":t:bm")
				ts := time.Now().Add(-100 * 24 * time.Hour).UnixNano()
				for i, o := range offs {
					if _, err := db.BitSetOld(ts+int64(i), key, o, 1); err != nil {
						return "inconclusive: BitSetOld: " + err.Error()
					}
				}
				for _, o := range offs {
					if b, err := db.BitGetV2(key, o); err != nil || b != 1 {
						return fmt.Sprintf("inconclusive: bit %d of the old-format bitmap reads %d (%v) before the conversion", o, b, err)
					}
				}
				if _, err := db.BitSetV2(ts+100, key, 5, 1); err != nil {
					return "inconclusive: BitSetV2: " + err.Error()
				}
				var lost []string
				for _, o := range append([]int64{5}, offs...) {
					if b, err := db.BitGetV2(key, o); err != nil || b != 1 {
						lost = append(lost, fmt.Sprint(o))
					}
				}
				n, err := db.BitCountV2(key, 0, -1)
				if len(lost) == 0 && err == nil && n == int64(len(offs)+1) {
					return "ok"
				}
				return fmt.Sprintf("lost bits %s, BITCOUNT %d (%v) want %d", strings.Join(lost, ","), n, err, len(offs)+1)
			}()
			res = append(res, pol+"/"+eng+": "+r)
		}
	}
	return strings.Join(res, "; ")
}
