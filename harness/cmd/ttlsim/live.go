package main

import (
	"encoding/binary"
	"fmt"
	"time"

	"github.com/youzan/ZanRedisDB/rockredis"
	"verif/harness/internal/srv"
)

// liveTimestamps drives a REAL single-process server through the redis protocol (handler -> propose ->
// raft -> apply) and reads back, from the engine, the timestamp every applied write carried: the
// modify-time suffix of KV values and hash fields and the ts field of set / zset / list metas.
// The property's hypothesis "ts > 0" (the ts = 0 escape of isExpired) is thereby checked on the
// production propose path: every timestamp must be positive and inside the wall-clock window of
// the run.
func liveTimestamps(port int) string {
	inst, err := srv.Start(port, "lv", 1, "mem")
	if err != nil {
		return "inconclusive: " + err.Error()
	}
	defer func() { inst.S.Stop(); inst.Cleanup() }()
	c, err := inst.Conn()
	if err != nil {
		return "inconclusive: " + err.Error()
	}
	defer c.Close()
	t0 := time.Now().UnixNano()
	cmds := [][]interface{}{
		{"set", "lv:t:a", "v"}, {"setex", "lv:t:b", "100", "v"}, {"incr", "lv:t:c"}, {"append", "lv:t:d", "x"},
		{"hset", "lv:t:h", "f", "v"}, {"hmset", "lv:t:h2", "f", "v", "g", "w"}, {"sadd", "lv:t:s", "m"},
		{"zadd", "lv:t:z", "1", "m"}, {"lpush", "lv:t:l", "v"}, {"rpush", "lv:t:l", "w"},
	}
	for _, cm := range cmds {
		if _, err := c.Do(cm[0].(string), cm[1:]...); err != nil {
			return fmt.Sprintf("cmd-error %v: %v", cm[0], err)
		}
	}
	t1 := time.Now().UnixNano()
	var seen, bad int
	var first string
	check := func(what string, ts int64) {
		seen++
		if ts <= 0 || ts < t0 || ts > t1 {
			bad++
			if first == "" {
				first = fmt.Sprintf("%s ts=%d window=[%d,%d]", what, ts, t0, t1)
			}
		}
	}
	store := inst.Nodes[0].Node.VerifKVStore()
	store.VerifScanAll(func(k, v []byte) {
		if len(k) == 0 {
			return
		}
		switch k[0] {
		case rockredis.KVType, rockredis.HashType:
			if len(v) >= 8 {
				check(fmt.Sprintf("type %d", k[0]), int64(binary.BigEndian.Uint64(v[len(v)-8:])))
			}
		case rockredis.SSizeType, rockredis.ZSizeType:
			if len(v) >= 16 {
				check(fmt.Sprintf("type %d", k[0]), int64(binary.BigEndian.Uint64(v[len(v)-8:])))
			}
		case rockredis.LMetaType:
			if len(v) >= 24 {
				check(fmt.Sprintf("type %d", k[0]), int64(binary.BigEndian.Uint64(v[len(v)-8:])))
			}
		}
	})
	if seen < 8 {
		return fmt.Sprintf("too-few-entries %d", seen)
	}
	if bad > 0 {
		return fmt.Sprintf("bad-timestamp %d of %d: %s", bad, seen, first)
	}
	return fmt.Sprintf("ok entries=%d", seen)
}
