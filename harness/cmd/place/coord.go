package main

// Cases that go through the placement driver's consumers of the layout (DataPlacement methods of a
// real PDCoordinator built over a stub register that only answers GetAllNamespaces):
//   A ver ns p r nodes isrs part    allocNodeForNamespace  -> "ok <name>" | "refuse" | "panic"
//   U ver ns p r nodes isrs part    decideUnwantedRaftNode -> "ok <name>" ("ok x" = none) | "panic"
// isrs = the RaftNodes of partitions 0..len-1 of the namespace as stored in the register (no removings),
// which is what getCurrentPartitionNodes hands to the layout function as the previous layout.

import (
	"github.com/youzan/ZanRedisDB/cluster"
	"github.com/youzan/ZanRedisDB/cluster/pdnode_coord"
	"verif/harness/internal/hx"
)

type stubReg struct {
	cluster.PDRegister
	all map[string]map[int]cluster.PartitionMetaInfo
}

func (s *stubReg) GetAllNamespaces() (map[string]map[int]cluster.PartitionMetaInfo, cluster.EpochType, error) {
	return s.all, 1, nil
}

func coordCase(kind string, ver, ns string, p, r int, nodes []nodeTag, isrs [][]string, part int) string {
	return eval3(func() string {
		out := ""
		_, pn := hx.Recover(func() {
			meta := cluster.NamespaceMetaInfo{PartitionNum: p, Replica: r}
			parts := map[int]cluster.PartitionMetaInfo{}
			for pid, l := range isrs {
				pi := cluster.PartitionMetaInfo{Name: ns, Partition: pid, NamespaceMetaInfo: meta}
				pi.RaftNodes = append([]string{}, l...)
				parts[pid] = pi
			}
			reg := &stubReg{all: map[string]map[int]cluster.PartitionMetaInfo{ns: parts}}
			me := &cluster.NodeInfo{NodeIP: "127.0.0.1", HttpPort: "1", RpcPort: "2"}
			coord := pdnode_coord.VerifNewPDCoordinator("verif", me, &cluster.Options{BalanceVer: ver}, reg)
			info, ok := parts[part]
			if !ok {
				info = cluster.PartitionMetaInfo{Name: ns, Partition: part, NamespaceMetaInfo: meta}
			}
			cur := nodeMap(nodes)
			if kind == "A" {
				n, err := coord.VerifAllocNodeForNamespace(&info, cur)
				if err != nil {
					if pdnode_coord.VerifErrNodeUnavailable(err) {
						out = "refuse"
					} else {
						out = "error"
					}
				} else {
					out = "ok " + encName(n.ID)
				}
			} else {
				out = "ok " + encName(coord.VerifDecideUnwantedRaftNode(&info, cur))
			}
		})
		if pn {
			return "panic"
		}
		return out
	})
}
