// Package smx runs a REAL node.StateMachine (node.NewStateMachine on a chosen engine and expiry
// policy, in a temp dir) for the data-layer harnesses: requests are fed as BatchInternalRaftRequests
// through ApplyRaftRequest (production batching, namespace cutting, handler dispatch, error
// handling), replies are collected from the pkg/wait registry, read commands are run through the
// production read handlers (node.VerifReadNode, a raft-less KVNode sharing the store).
package smx

import (
	"bytes"
	"fmt"
	"math"
	"net"
	"os"
	"reflect"
	"sort"
	"strconv"
	"strings"

	"github.com/absolute8511/redcon"
	"github.com/youzan/ZanRedisDB/common"
	"github.com/youzan/ZanRedisDB/engine"
	"github.com/youzan/ZanRedisDB/node"
	"github.com/youzan/ZanRedisDB/pkg/wait"
	"github.com/youzan/ZanRedisDB/rockredis"
	"github.com/youzan/ZanRedisDB/slow"
)

// NS is the namespace every harness key lives in (cut by the production code).
const NS = "ns"

type nullLogger struct{}

func (nullLogger) Output(int, string) error        { return nil }
func (nullLogger) OutputErr(int, string) error     { return nil }
func (nullLogger) OutputWarning(int, string) error { return nil }

// Quiet silences the loggers of the packages under test (log text is never an observable).
func Quiet() {
	node.SetLogger(0, nullLogger{})
	rockredis.SetLogger(0, nullLogger{})
	engine.SetLogger(0, nullLogger{})
	slow.SetLogger(0, nullLogger{})
}

// SM is one state machine instance.
type SM struct {
	SM     node.StateMachine
	Store  *node.KVStore
	RN     *node.KVNode
	W      wait.Wait
	Dir    string
	Engine string
	Policy string
	nextID uint64
}

// Open creates a state machine. engine: mem | pebble | rocksdb. policy: local | compact.
func Open(eng string, policy string) (*SM, error) {
	dir, err := os.MkdirTemp("", "verif-smx-")
	if err != nil {
		return nil, err
	}
	opts := &node.KVOptions{
		DataDir: dir,
		EngType: rockredis.EngType,
	}
	switch policy {
	case "local", "":
		policy = "local"
		opts.ExpirationPolicy = common.LocalDeletion
		opts.DataVersion = common.DefaultDataVer
	case "compact":
		opts.ExpirationPolicy = common.WaitCompact
		opts.DataVersion = common.ValueHeaderV1
	default:
		return nil, fmt.Errorf("unknown policy %q", policy)
	}
	opts.RockOpts.EngineType = eng
	engine.FillDefaultOptions(&opts.RockOpts)
	w := wait.New()
	sm, err := node.NewStateMachine(opts, node.MachineConfig{}, 1, NS+"-0", nil, w, nil)
	if err != nil {
		os.RemoveAll(dir)
		return nil, err
	}
	s := &SM{SM: sm, W: w, Dir: dir, Engine: eng, Policy: policy, nextID: 1}
	s.Store = node.VerifStore(sm)
	s.RN = node.VerifReadNode(sm)
	if s.Store == nil || s.RN == nil {
		return nil, fmt.Errorf("not a kv state machine")
	}
	return s, nil
}

// Close stops the store and removes its directory.
func (s *SM) Close() {
	func() {
		defer func() { recover() }()
		s.SM.Close()
	}()
	os.RemoveAll(s.Dir)
}

// Req is one write request: Args[0] = command name, Args[1] = "table:key" (already without the
// namespace, as the node layer proposes RedisReq), Ts = the timestamp carried by the raft entry.
type Req struct {
	Args [][]byte
	Ts   int64
}

// ApplyMode says how a group of requests reaches the state machine.
type ApplyMode int

const (
	// OnePerCall: every request is its own raft entry and its own batch-operator lifetime
	// (ApplyRaftRequest, then CommitBatch) — what a single client waiting for each reply sees.
	OnePerCall ApplyMode = iota
	// SharedBatch: every request is its own raft entry (own timestamp) but all entries of the
	// group are applied with one batch operator, committed at the end (node.applyEntries).
	SharedBatch
	// OneRequestList: all requests travel in ONE BatchInternalRaftRequest (list Timestamp 0, so the
	// per-request header timestamps apply).
	OneRequestList
)

// Apply feeds the requests and returns one canonical reply per request.
func (s *SM) Apply(mode ApplyMode, reqs []Req) []string {
	out := make([]string, len(reqs))
	ids := make([]uint64, len(reqs))
	wrs := make([]wait.WaitResult, len(reqs))
	irs := make([]node.InternalRaftRequest, len(reqs))
	for i, r := range reqs {
		ids[i] = s.nextID
		s.nextID++
		wrs[i] = s.W.Register(ids[i])
		irs[i] = node.InternalRaftRequest{
			Header: node.RequestHeader{ID: ids[i], DataType: int32(node.RedisReq), Timestamp: r.Ts},
			Data:   common.BuildCommand(r.Args).Raw,
		}
	}
	stop := make(chan struct{})
	run := func(f func()) (panicked string) {
		defer func() {
			if r := recover(); r != nil {
				panicked = fmt.Sprint(r)
				// leave the store usable for the following commands
				func() {
					defer func() { recover() }()
					s.Store.AbortBatch()
				}()
			}
		}()
		f()
		return ""
	}
	switch mode {
	case OnePerCall:
		for i := range reqs {
			i := i
			p := run(func() {
				b := s.SM.GetBatchOperator()
				var rl node.BatchInternalRaftRequest
				rl.ReqNum = 1
				rl.Reqs = []node.InternalRaftRequest{irs[i]}
				rl.Timestamp = reqs[i].Ts
				s.SM.ApplyRaftRequest(false, b, rl, 1, ids[i], stop)
				b.CommitBatch()
			})
			if p != "" {
				out[i] = "panic"
			}
		}
	case SharedBatch:
		p := run(func() {
			b := s.SM.GetBatchOperator()
			for i := range reqs {
				var rl node.BatchInternalRaftRequest
				rl.ReqNum = 1
				rl.Reqs = []node.InternalRaftRequest{irs[i]}
				rl.Timestamp = reqs[i].Ts
				s.SM.ApplyRaftRequest(false, b, rl, 1, ids[i], stop)
			}
			b.CommitBatch()
		})
		if p != "" {
			for i := range out {
				if s.W.IsRegistered(ids[i]) {
					out[i] = "panic"
				}
			}
		}
	case OneRequestList:
		p := run(func() {
			b := s.SM.GetBatchOperator()
			var rl node.BatchInternalRaftRequest
			rl.ReqNum = int32(len(reqs))
			rl.Reqs = irs
			// list Timestamp 0: every request keeps its own header timestamp (ApplyRaftRequest falls
			// back to it). No proposer in /repo builds a list with more than one request, so a shared
			// timestamp for several commands is outside what production emits.
			s.SM.ApplyRaftRequest(false, b, rl, 1, ids[0], stop)
			b.CommitBatch()
		})
		if p != "" {
			for i := range out {
				if s.W.IsRegistered(ids[i]) {
					out[i] = "panic"
				}
			}
		}
	}
	for i := range reqs {
		if out[i] != "" {
			if s.W.IsRegistered(ids[i]) {
				s.W.Trigger(ids[i], nil)
			}
			continue
		}
		if s.W.IsRegistered(ids[i]) {
			s.W.Trigger(ids[i], nil)
			out[i] = "noreply"
			continue
		}
		select {
		case <-wrs[i].WaitC():
		default:
		}
		out[i] = CanonReply(wrs[i].GetResult())
	}
	return out
}

// CanonReply maps a state machine reply (interface{}) to the canonical token form:
// _ (nil) | :N (any integer) | $hex (bytes) | *n item... ([][]byte) | fHEX16 (float64 by bit pattern,
// -0 kept, NaN canonical) | -err (any error) | +str (string).
func CanonReply(v interface{}) string {
	if v == nil {
		return "_"
	}
	switch x := v.(type) {
	case error:
		return "-err"
	case []byte:
		if x == nil {
			return "_"
		}
		return "$" + hexs(x)
	case [][]byte:
		p := make([]string, 0, len(x)+1)
		p = append(p, "*"+strconv.Itoa(len(x)))
		for _, b := range x {
			p = append(p, "$"+hexs(b))
		}
		return strings.Join(p, " ")
	case string:
		return "+" + x
	case float64:
		return CanonFloat(x)
	}
	rv := reflect.ValueOf(v)
	switch rv.Kind() {
	case reflect.Int, reflect.Int8, reflect.Int16, reflect.Int32, reflect.Int64:
		return ":" + strconv.FormatInt(rv.Int(), 10)
	case reflect.Uint, reflect.Uint8, reflect.Uint16, reflect.Uint32, reflect.Uint64:
		return ":" + strconv.FormatUint(rv.Uint(), 10)
	case reflect.Bool:
		if rv.Bool() {
			return ":1"
		}
		return ":0"
	}
	return fmt.Sprintf("?%T", v)
}

// CanonFloat prints a float64 by its IEEE bit pattern (what the store keeps), NaN canonicalised,
// -0 printed as +0.
func CanonFloat(f float64) string {
	if f != f {
		return "fnan"
	}
	if f == 0 {
		f = 0 // -0 and +0 are one score: the score index stores them alike, only ZSCORE prints the sign
	}
	return fmt.Sprintf("f%016x", math.Float64bits(f))
}

func hexs(b []byte) string {
	if len(b) == 0 {
		return "-"
	}
	const hx = "0123456789abcdef"
	o := make([]byte, 2*len(b))
	for i, c := range b {
		o[2*i] = hx[c>>4]
		o[2*i+1] = hx[c&15]
	}
	return string(o)
}

// ---------- reads through the production handlers ----------

// capConn records what a read handler writes, as canonical tokens.
type capConn struct {
	toks []string
	errs []string
}

func (c *capConn) RemoteAddr() string { return "verif" }
func (c *capConn) Close() error       { return nil }
func (c *capConn) WriteError(msg string) {
	c.toks = append(c.toks, "-err")
	c.errs = append(c.errs, msg)
}
func (c *capConn) WriteString(str string) { c.toks = append(c.toks, "+"+str) }
func (c *capConn) WriteBulk(bulk []byte) {
	// redcon writes a nil bulk as the empty bulk string "$0", same token as empty
	c.toks = append(c.toks, "$"+hexs(bulk))
}
func (c *capConn) WriteBulkString(bulk string)     { c.toks = append(c.toks, "$"+hexs([]byte(bulk))) }
func (c *capConn) WriteInt(num int)                { c.toks = append(c.toks, ":"+strconv.Itoa(num)) }
func (c *capConn) WriteInt64(num int64)            { c.toks = append(c.toks, ":"+strconv.FormatInt(num, 10)) }
func (c *capConn) WriteArray(count int)            { c.toks = append(c.toks, "*"+strconv.Itoa(count)) }
func (c *capConn) WriteNull()                      { c.toks = append(c.toks, "_") }
func (c *capConn) WriteRaw(data []byte)            { c.toks = append(c.toks, "raw"+hexs(data)) }
func (c *capConn) Context() interface{}            { return nil }
func (c *capConn) SetContext(v interface{})        {}
func (c *capConn) SetReadBuffer(bytes int)         {}
func (c *capConn) Detach() redcon.DetachedConn     { return nil }
func (c *capConn) ReadPipeline() []redcon.Command  { return nil }
func (c *capConn) PeekPipeline() []redcon.Command  { return nil }
func (c *capConn) Flush() error                    { return nil }
func (c *capConn) NetConn() net.Conn               { return nil }

// Read runs a read command through the registered production handler. args[1] is "table:key"
// WITHOUT namespace; the namespace prefix is added here (the handler cuts it again).
// Returns the canonical token string ("-unknown" when no read handler has that name).
func (s *SM) Read(args ...[]byte) string {
	r, _ := s.ReadE(args...)
	return r
}

// ReadE is Read plus the error texts written by the handler (for debugging output only).
func (s *SM) ReadE(args ...[]byte) (res string, errs []string) {
	name := strings.ToLower(string(args[0]))
	h, ok := s.RN.GetHandler(name)
	if !ok {
		return "-unknown", nil
	}
	a := make([][]byte, len(args))
	for i := range args {
		a[i] = append([]byte{}, args[i]...)
	}
	if name == "mget" {
		// every argument is a key
		for i := 1; i < len(a); i++ {
			a[i] = append([]byte(NS+":"), a[i]...)
		}
	} else if len(a) > 1 {
		a[1] = append([]byte(NS+":"), a[1]...)
	}
	cmd := common.BuildCommand(a)
	c := &capConn{}
	defer func() {
		if r := recover(); r != nil {
			res = "panic"
		}
	}()
	h(c, cmd)
	return strings.Join(c.toks, " "), c.errs
}

// ---------- raw engine listing ----------

// RawDump lists every engine key with its value (hex), in engine order.
func (s *SM) RawDump() []string {
	it, err := s.Store.NewDBRangeIterator(nil, nil, common.RangeClose, false)
	if err != nil {
		return []string{"err " + err.Error()}
	}
	defer it.Close()
	var out []string
	for ; it.Valid(); it.Next() {
		out = append(out, hexs(it.Key())+"="+hexs(it.Value()))
	}
	return out
}

// SortedCopy returns the byte strings sorted bytewise.
func SortedCopy(l [][]byte) [][]byte {
	o := make([][]byte, len(l))
	copy(o, l)
	sort.Slice(o, func(i, j int) bool { return bytes.Compare(o[i], o[j]) < 0 })
	return o
}
