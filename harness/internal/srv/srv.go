// Package srv starts a real single-process ZanRedisDB server (static seed nodes, no placement
// driver) with one namespace of P partitions, one replica each, for the harnesses.
package srv

import (
	"fmt"
	"io/ioutil"
	"os"
	"path"
	"strconv"
	"time"

	"github.com/siddontang/goredis"
	"github.com/youzan/ZanRedisDB/common"
	"github.com/youzan/ZanRedisDB/node"
	"github.com/youzan/ZanRedisDB/rockredis"
	"github.com/youzan/ZanRedisDB/server"
)

type Inst struct {
	S       *server.Server
	Port    int
	Dir     string
	NS      string
	PartNum int
	Nodes   []*node.NamespaceNode
	nextGroup int
}

// Start launches the server. portBase..portBase+2 are used. engine: "mem" | "pebble" | "rocksdb".
func Start(portBase int, ns string, partNum int, engine string) (*Inst, error) {
	return StartWithout(portBase, ns, partNum, engine, -1)
}

// StartWithout is Start, but the partition `missing` (if >= 0) is not hosted by this server
// (Nodes[missing] is nil): commands routed to it must be rejected.
func StartWithout(portBase int, ns string, partNum int, engine string, missing int) (*Inst, error) {
	var hosted []int
	for i := 0; i < partNum; i++ {
		if i != missing {
			hosted = append(hosted, i)
		}
	}
	return StartHosting(portBase, ns, partNum, engine, hosted)
}

// StartHosting starts a server that hosts only the listed partitions of the namespace
// (Nodes[i] is nil for the others).
func StartHosting(portBase int, ns string, partNum int, engine string, hostedList []int) (*Inst, error) {
	isHosted := map[int]bool{}
	for _, h := range hostedList {
		isHosted[h] = true
	}
	tmpDir, err := ioutil.TempDir("", "verif-srv-")
	if err != nil {
		return nil, err
	}
	ioutil.WriteFile(path.Join(tmpDir, "myid"), []byte("1"), common.FILE_PERM)
	raftAddr := fmt.Sprintf("http://127.0.0.1:%d", portBase+2)
	opts := server.ServerConfig{
		ClusterID:     "verif-" + ns,
		DataDir:       tmpDir,
		RedisAPIPort:  portBase,
		HttpAPIPort:   portBase + 1,
		LocalRaftAddr: raftAddr,
		BroadcastAddr: "127.0.0.1",
		TickMs:        50,
		ElectionTick:  5,
	}
	opts.RocksDBOpts.EngineType = engine
	kv, err := server.NewServer(opts)
	if err != nil {
		return nil, err
	}
	inst := &Inst{S: kv, Port: portBase, Dir: tmpDir, NS: ns, PartNum: partNum}
	var replica node.ReplicaInfo
	replica.NodeID = 1
	replica.ReplicaID = 1
	replica.RaftAddr = raftAddr
	for i := 0; i < partNum; i++ {
		if !isHosted[i] {
			inst.Nodes = append(inst.Nodes, nil)
			continue
		}
		nsConf := node.NewNSConfig()
		nsConf.Name = ns + "-" + strconv.Itoa(i)
		nsConf.BaseName = ns
		nsConf.EngType = rockredis.EngType
		nsConf.PartitionNum = partNum
		nsConf.Replicator = 1
		nsConf.RaftGroupConf.GroupID = 1000
		nsConf.RaftGroupConf.SeedNodes = append(nsConf.RaftGroupConf.SeedNodes, replica)
		n, err := kv.InitKVNamespace(1, nsConf, false)
		if err != nil {
			return nil, err
		}
		inst.Nodes = append(inst.Nodes, n)
	}
	kv.Start()
	deadline := time.Now().Add(20 * time.Second)
	for {
		lead := 0
		want := 0
		for _, n := range inst.Nodes {
			if n == nil {
				continue
			}
			want++
			if n.Node.IsLead() {
				lead++
			}
		}
		if lead == want {
			break
		}
		if time.Now().After(deadline) {
			return nil, fmt.Errorf("inconclusive: leaders not elected in time (%d/%d)", lead, partNum)
		}
		time.Sleep(50 * time.Millisecond)
	}
	return inst, nil
}

// InitPartition initialises and starts one more partition replica of namespace base `ns` configured
// with `pnum` partitions on the running server and waits until it leads (single replica).
func (i *Inst) InitPartition(ns string, pid int, pnum int) error {
	var replica node.ReplicaInfo
	replica.NodeID = 1
	replica.ReplicaID = 1
	replica.RaftAddr = fmt.Sprintf("http://127.0.0.1:%d", i.Port+2)
	nsConf := node.NewNSConfig()
	nsConf.Name = ns + "-" + strconv.Itoa(pid)
	nsConf.BaseName = ns
	nsConf.EngType = rockredis.EngType
	nsConf.PartitionNum = pnum
	nsConf.Replicator = 1
	nsConf.RaftGroupConf.GroupID = uint64(5000 + i.nextGroup)
	i.nextGroup++
	nsConf.RaftGroupConf.SeedNodes = append(nsConf.RaftGroupConf.SeedNodes, replica)
	n, err := i.S.InitKVNamespace(1, nsConf, false)
	if err != nil {
		return err
	}
	if err := n.Start(false); err != nil {
		return err
	}
	deadline := time.Now().Add(20 * time.Second)
	for !n.Node.IsLead() || !n.IsReady() {
		if time.Now().After(deadline) {
			return fmt.Errorf("inconclusive: partition %s-%d not ready in time", ns, pid)
		}
		time.Sleep(20 * time.Millisecond)
	}
	return nil
}

// DestroyPartition destroys the local replica and waits until it is unregistered.
func (i *Inst) DestroyPartition(ns string, pid int) error {
	full := ns + "-" + strconv.Itoa(pid)
	n := i.S.GetNamespaceFromFullName(full)
	if n == nil {
		return fmt.Errorf("partition not found: %s", full)
	}
	if err := n.Destroy(); err != nil {
		return err
	}
	deadline := time.Now().Add(20 * time.Second)
	for {
		if i.S.GetNsMgr().GetNamespaceNode(full) == nil {
			if _, ok := i.S.GetNsMgr().GetNamespaces()[full]; !ok {
				return nil
			}
		}
		if time.Now().After(deadline) {
			return fmt.Errorf("inconclusive: partition %s not unregistered in time", full)
		}
		time.Sleep(20 * time.Millisecond)
	}
}

func (i *Inst) Conn() (*goredis.PoolConn, error) {
	c := goredis.NewClient("127.0.0.1:"+strconv.Itoa(i.Port), "")
	c.SetMaxIdleConns(4)
	return c.Get()
}

// Cleanup removes the data directory (the server's own Stop sleeps for seconds; harnesses exit instead).
func (i *Inst) Cleanup() { os.RemoveAll(i.Dir) }
