// Package raftdrv drives a cluster of REAL raft.Node instances of /repo (the youzan fork of
// etcd/raft) from ONE goroutine, under a seeded scheduler, and records a global-state trace.
// It is the implementation side of properties C01, C02, C03 and the producer of the traces the
// abstract-protocol acceptor (coq/RaftAbs) consumes.
//
// # Semantics (mirrors DESIGN.md 4.0 Net.v and node/raft.go)
//
// A Cluster holds, per node id: the durable part (the storage object: hard state, snapshot,
// entries — what a restart sees), the volatile raft.Node, the in-flight Ready with the list of
// processReady sub-steps still to run, the application's apply queue and applied cursor, and
// the network: a multiset of messages that were sent and not dropped (delivering does NOT
// remove a message: duplication and reordering are free; loss = never delivered or "drop").
//
// Events (Event.K):
//
//	tick      n            Node.Tick()  (queued; handled by the next step)
//	deliver   n m          Node.Step(message m) for a message addressed to n (queued)
//	drop      m            remove message m from the network
//	gc        m            remove every message with id < m from the network (bulk loss)
//	propose   n p          Node.Propose(8-byte big-endian payload id p)
//	conf      n cc x       Node.ProposeConfChange(cc ∈ addnode|addlearner|remove|update, replica x);
//	                       if x was never started, addnode/addlearner also boots x in join mode
//	                       (StartNode with no peers, as node/raft.go does with join=true)
//	transfer  n x          Node.TransferLeadership(lead=n's current lead, transferee=x) at n
//	readindex n p          Node.ReadIndex
//	unreach   n x          Node.ReportUnreachable(x)
//	snaprep   n x fail     Node.ReportSnapshot(x, finish|failure)
//	step      n rnd nomore busy   raft.VerifSetRand(rnd); Node.StepNode(!nomore, busy).
//	                       If a Ready comes back it becomes n's in-flight Ready and its sub-steps
//	                       are scheduled in production order (node/raft.go processReady):
//	                         leader-turning Ready : publish send psnap pents phs advance
//	                         any other Ready      : publish psnap pents phs wait send advance
//	ready     n            run the next sub-step of n's in-flight Ready:
//	                         publish = hand CommittedEntries/Snapshot to the apply queue
//	                         psnap   = the snapshot is saved but not yet effective: on restart node/raft.go ignores
//	                                   a snapshot newer than the persisted commit index (wal.ValidSnapshotEntries)
//	                         pents   = storage.Append(rd.Entries)             (durable; WAL writes entries first)
//	                         phs     = storage.SetHardState(rd.HardState)     (durable); a Ready that carries a
//	                                   snapshot becomes durable here as a whole (ApplySnapshot, Append, SetHardState)
//	                         wait    = if the Ready carries a conf change or snapshot: drain the apply
//	                                   queue now, feeding conf changes back through
//	                                   ApplyConfChange + ConfChangedCh + HandleConfChanged
//	                         send    = add rd.Messages (after node/raft.go processMessages: only the
//	                                   last MsgAppResp survives) to the network
//	                         advance = Node.Advance(rd)
//	apply     n            the application applies the queued committed entries/snapshot; a conf
//	                       change applied asynchronously blocks in ApplyConfChange until n's next step
//	compact   n keep       as node/raft.go beginSnapshot: CreateSnapshot(applied index, conf state)
//	                       then Compact(max(1, applied-keep))
//	crash     n            volatile node, in-flight Ready (unsent messages), apply queue dropped;
//	                       storage as written so far
//	restart   n            raft.RestartNode from the storage object only (Config.Applied = 0,
//	                       application cursor = snapshot index, as node/raft.go + applyCommits)
//
// # Trace format (stable; one JSON object per line = type Record)
//
// Line 0 is the header {"hdr":{...Options..., "seed":…, "sched":…}}. Every later line:
//
//	{"s":seq, "ev":{Event}, "res":"…",            result / error enum of the event ("" = ok)
//	 "panic":"…",                                  recovered Go panic text (violation), else absent
//	 "rd":{Ready projection}                       only for step events that returned a Ready
//	 "sub":"publish|psnap|…"                       only for ready events: the sub-step that ran
//	 "applied":[{n,i,t,k,p,x}]                     entries/snapshots the application applied in this event
//	                                               (k = "S" for a snapshot install up to index i)
//	 "add":[{id, Msg}] , "del":[ids]               network delta (messages added / removed)
//	 "sd":{disk digest without log}                the sender's durable state at the moment its messages left
//	 "nodes":[{NodeState}]                         the nodes whose projected state CHANGED in this event
//	                                               (all nodes in the first record); a consumer keeps the
//	                                               last NodeState per id to reconstruct the global state
//	}
//
// NodeState: {"id","alive","born","removed", "term","vote","role"(0 follower,1 candidate,2 leader,
// 3 precandidate),"lead","commit","applied"(raftLog.applied),"first","last","uoff"(unstable offset),
// "learner"(isLearner flag), "voters":[ids],"learners":[ids], "votes":[[id,granted]],
// "prs":[{id,match,next,state,learner,paused,recent}],"usnap":{i,t,voters,learners}|absent,
// "log":[{i,t,k,p,x}] (whole raftLog incl. unstable; k ∈ "E" empty,"N" normal payload p,"C" conf
// change type p replica x), "dummy" term at first-1, "inflight":sub-steps left of the in-flight Ready,
// "app":{"applied","snapi","voters","learners"}, "aq": apply-queue length,
// "disk":{"term","vote","commit","si","st","svoters","slearners","first","last","log":[…]}}.
// For a node that is down only id/alive/born/removed/app/disk are meaningful.
//
// Msg: {"type"(raftpb.MessageType number),"from","to","term","logterm","index","commit","reject",
// "hint","ctx"(string),"ents":[{i,t,k,p,x}],"snap":{i,t,voters,learners}}.
//
// Ready projection: {"soft":{lead,role}|absent,"hs":{term,vote,commit}|absent,"ents":[…],
// "cents":[…],"more":bool,"snap":{…}|absent,"msgs":[message ids in canonical order],
// "sync":MustSync,"newleader":bool,"wait":bool,"stages":[…]}.
package raftdrv
