package raftdrv

import (
	"math/rand"
)

// Schedule identifies one generated run: everything is a function of (Seed, Index).
type Schedule struct {
	Seed    int64   `json:"seed"`
	Index   int     `json:"sched"`
	Profile string  `json:"profile"`
	Opt     Options `json:"opt"`
	Events  int     `json:"events"`
}

// Header is line 0 of a trace file.
type Header struct {
	Hdr Schedule `json:"hdr"`
}

// PlanSchedule derives configuration and profile of schedule #idx of a seed.
func PlanSchedule(seed int64, idx int, events int, storage string, profile string) (Schedule, *rand.Rand) {
	r := rand.New(rand.NewSource(seed*1000003 + int64(idx)*7919 + 17))
	s := Schedule{Seed: seed, Index: idx, Events: events}
	s.Opt = RandomOptions(r, storage)
	if profile == "" {
		s.Profile = ProfileNames[r.Intn(len(ProfileNames))]
	} else {
		s.Profile = profile
	}
	return s, r
}

// RunGenerated executes a generated schedule; sink gets every record (incl. record 0).
// Returns the executed events (for replay) and the generator histogram.
func RunGenerated(s Schedule, r *rand.Rand, dir string, sink func(*Record)) ([]Event, map[string]int, error) {
	opt := s.Opt
	opt.Dir = dir
	c, rec0, err := NewCluster(opt)
	if c != nil {
		defer c.Close()
	}
	sink(rec0)
	if err != nil {
		return nil, nil, nil // the panic is in rec0
	}
	g := NewGen(r, c, Profiles[s.Profile])
	var evs []Event
	for i := 0; i < s.Events; i++ {
		ev := g.Next()
		evs = append(evs, ev)
		rec := c.Apply(ev)
		sink(rec)
		if rec.Panic != "" {
			break
		}
	}
	return evs, g.Hist, nil
}

// RunEvents replays an explicit event list.
func RunEvents(opt Options, dir string, evs []Event, sink func(*Record)) {
	opt.Dir = dir
	c, rec0, err := NewCluster(opt)
	if c != nil {
		defer c.Close()
	}
	sink(rec0)
	if err != nil {
		return
	}
	for _, ev := range evs {
		rec := c.Apply(ev)
		sink(rec)
		if rec.Panic != "" {
			break
		}
	}
}

// Scenario is a hand-written (or minimised) schedule: corpus files and replays.
type Scenario struct {
	Name   string  `json:"name,omitempty"`
	Opt    Options `json:"opt"`
	Events []Event `json:"events"`
}

// RunScenario executes a scenario. Besides the event kinds of doc.go it understands the macro
// {"k":"_settle","m":rounds,"rnd":r}: repeatedly, for every live node in id order, step / run the
// whole Ready / apply, then deliver every not-yet-delivered message once, until nothing happens or
// the rounds are used up. With "x":N the macro stops as soon as node N holds an in-flight Ready that
// carries a snapshot (before any of its sub-steps ran). {"k":"_block","n":N} / {"k":"_unblock","n":N}
// make _settle skip deliveries to and from node N (a partition); {"k":"_dropnet","n":N} loses every
// message to or from N that is in the network.
// With "keep":N the steps of node N inside _settle use NoMore (its application is slow: nothing is
// handed out). {"k":"_deliver","n":to,"x":from,"m":type} delivers every not-yet-delivered message
// from -> to of that raftpb type (0 = any type) without stepping anybody.
// Macros are expanded into concrete events (returned for the record).
func RunScenario(sc Scenario, dir string, sink func(*Record)) []Event {
	opt := sc.Opt
	opt.Dir = dir
	c, rec0, err := NewCluster(opt)
	if c != nil {
		defer c.Close()
	}
	sink(rec0)
	if err != nil {
		return nil
	}
	var done []Event
	delivered := map[int]bool{}
	blocked := map[uint64]bool{}
	do := func(ev Event) *Record {
		done = append(done, ev)
		rec := c.Apply(ev)
		sink(rec)
		return rec
	}
	for _, ev := range sc.Events {
		if c.Panic != "" {
			break
		}
		if ev.K == "_block" {
			blocked[ev.N] = true
			continue
		}
		if ev.K == "_dropnet" {
			// every message to or from node N that is in the network is lost
			for _, mid := range append([]int(nil), c.NetIDs()...) {
				m, _ := c.Msg(mid)
				if m.From == ev.N || m.To == ev.N {
					do(Event{K: "drop", M: mid})
				}
			}
			continue
		}
		if ev.K == "_deliver" {
			for _, mid := range append([]int(nil), c.NetIDs()...) {
				m, _ := c.Msg(mid)
				if delivered[mid] || m.To != ev.N || (ev.X != 0 && m.From != ev.X) || (ev.M != 0 && int(m.Type) != ev.M) {
					continue
				}
				delivered[mid] = true
				if c.View(m.To).Alive {
					do(Event{K: "deliver", N: m.To, M: mid})
				}
			}
			continue
		}
		if ev.K == "_unblock" {
			delete(blocked, ev.N)
			continue
		}
		if ev.K != "_settle" {
			if ev.K == "propose" && ev.P == 0 {
				ev.P = c.NewPayload()
			}
			do(ev)
			continue
		}
		rounds := ev.M
		if rounds == 0 {
			rounds = 20
		}
		stop := false
		for r := 0; r < rounds && c.Panic == "" && !stop; r++ {
			progress := false
			for _, id := range c.IDs() {
				v := c.View(id)
				if !v.Alive {
					continue
				}
				if !v.InFlight {
					rec := do(Event{K: "step", N: id, Rnd: ev.Rnd, NoMore: ev.Keep != 0 && ev.Keep == id})
					if rec.Rd != nil {
						progress = true
						if ev.X == id && rec.Rd.Snap != nil {
							stop = true
							break
						}
					}
				}
				if c.Panic == "" && c.View(id).InFlight {
					do(Event{K: "ready", N: id, All: true})
					progress = true
				}
				if v2 := c.View(id); c.Panic == "" && v2.Alive && v2.ApplyQ > 0 && !v2.Blocked && !v2.Removed {
					do(Event{K: "apply", N: id})
					progress = true
				}
			}
			if stop {
				break
			}
			for _, mid := range append([]int(nil), c.NetIDs()...) {
				if delivered[mid] || c.Panic != "" {
					continue
				}
				m, _ := c.Msg(mid)
				if blocked[m.From] || blocked[m.To] {
					continue
				}
				delivered[mid] = true
				if c.View(m.To).Alive {
					do(Event{K: "deliver", N: m.To, M: mid})
					progress = true
				}
			}
			if !progress {
				break
			}
		}
	}
	return done
}

// RunPrefixThenGenerate replays prefix, then inject, then lets a fresh generator continue for
// more events (used for "every crash point of a base schedule").
func RunPrefixThenGenerate(s Schedule, prefix, inject []Event, r *rand.Rand, more int, dir string, sink func(*Record)) []Event {
	opt := s.Opt
	opt.Dir = dir
	c, rec0, err := NewCluster(opt)
	if c != nil {
		defer c.Close()
	}
	sink(rec0)
	if err != nil {
		return nil
	}
	var evs []Event
	for _, ev := range append(append([]Event(nil), prefix...), inject...) {
		evs = append(evs, ev)
		rec := c.Apply(ev)
		sink(rec)
		if rec.Panic != "" {
			return evs
		}
	}
	// payload ids must stay unique
	for _, ev := range prefix {
		if ev.K == "propose" && ev.P >= c.nextP {
			c.nextP = ev.P + 1
		}
	}
	g := NewGen(r, c, Profiles[s.Profile])
	for i := 0; i < more; i++ {
		ev := g.Next()
		evs = append(evs, ev)
		rec := c.Apply(ev)
		sink(rec)
		if rec.Panic != "" {
			break
		}
	}
	return evs
}

// RunGeneratedCore executes a generated schedule with the handler-level case sink on.
func RunGeneratedCore(s Schedule, r *rand.Rand, dir string, sink CoreSink) *CoreStats {
	opt := s.Opt
	opt.Dir = dir
	c, _, err := NewCluster(opt)
	if c != nil {
		defer c.Close()
	}
	if err != nil {
		return nil
	}
	c.Core = sink
	g := NewGen(r, c, Profiles[s.Profile])
	for i := 0; i < s.Events; i++ {
		rec := c.Apply(g.Next())
		if rec.Panic != "" {
			break
		}
	}
	return c.CoreStats
}
