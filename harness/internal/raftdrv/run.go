package raftdrv

import (
	"math/rand"
)

// Schedule identifies one generated run: everything is a function of (Seed, Index).
type Schedule struct {
	Seed    int64   `json:"seed"`
	Index   int     `json:"sched"`
	Profile string  `json:"profile"`
	Opt     Options `json:"opt"`
	Events  int     `json:"events"`
}

// Header is line 0 of a trace file.
type Header struct {
	Hdr Schedule `json:"hdr"`
}

// PlanSchedule derives configuration and profile of schedule #idx of a seed.
func PlanSchedule(seed int64, idx int, events int, storage string, profile string) (Schedule, *rand.Rand) {
	r := rand.New(rand.NewSource(seed*1000003 + int64(idx)*7919 + 17))
	s := Schedule{Seed: seed, Index: idx, Events: events}
	s.Opt = RandomOptions(r, storage)
	if profile == "" {
		s.Profile = ProfileNames[r.Intn(len(ProfileNames))]
	} else {
		s.Profile = profile
	}
	return s, r
}

// RunGenerated executes a generated schedule; sink gets every record (incl. record 0).
// Returns the executed events (for replay) and the generator histogram.
func RunGenerated(s Schedule, r *rand.Rand, dir string, sink func(*Record)) ([]Event, map[string]int, error) {
	opt := s.Opt
	opt.Dir = dir
	c, rec0, err := NewCluster(opt)
	if c != nil {
		defer c.Close()
	}
	sink(rec0)
	if err != nil {
		return nil, nil, nil // the panic is in rec0
	}
	g := NewGen(r, c, Profiles[s.Profile])
	var evs []Event
	for i := 0; i < s.Events; i++ {
		ev := g.Next()
		evs = append(evs, ev)
		rec := c.Apply(ev)
		sink(rec)
		if rec.Panic != "" {
			break
		}
	}
	return evs, g.Hist, nil
}

// RunEvents replays an explicit event list.
func RunEvents(opt Options, dir string, evs []Event, sink func(*Record)) {
	opt.Dir = dir
	c, rec0, err := NewCluster(opt)
	if c != nil {
		defer c.Close()
	}
	sink(rec0)
	if err != nil {
		return
	}
	for _, ev := range evs {
		rec := c.Apply(ev)
		sink(rec)
		if rec.Panic != "" {
			break
		}
	}
}
