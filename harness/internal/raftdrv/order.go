package raftdrv

import (
	"bytes"
	"fmt"
	"go/ast"
	"go/parser"
	"go/printer"
	"go/token"
	"os"
	"path/filepath"
	"strings"
	"sync"
)

// The driver does not run node/raft.go's processReady (it needs the whole server); it runs the
// same operations in the ORDER that function uses. To keep that order tied to the source, it is
// read from the working tree on every run: ExtractOrder parses node/raft.go (processReady,
// persistRaftState) and wal/wal.go (Save) and lists, in source order with the conditions on
// their path, the calls that matter: publishEntries, transport.Send, persistRaftState
// (-> SaveSnap, Save -> saveEntry, saveState), node.HandleConfChanged (the wait-apply loop) and
// node.Advance. The conditions are kept as Go expressions and evaluated per Ready over the atoms
//
//	isMeNewLeader                          the Ready's SoftState turns this node leader
//	raft.IsEmptyHardState(rd.HardState)    the Ready carries no hard-state change
//	raft.IsEmptySnap(rd.Snapshot)          the Ready carries no snapshot
//	should…(&rd)                           committed entries overlap the unstable ones
//
// (local boolean variables are resolved through their definitions; a flag set to true inside a
// branch takes the condition of that branch; anything else counts as true). If the code is
// reordered or re-guarded, the driver follows and the oracles judge the new behaviour.

// G is one condition on the path to an operation (Neg: the else branch).
type G struct {
	Expr string `json:"e"`
	Neg  bool   `json:"neg,omitempty"`
}

// Tok is one ordered operation of processReady.
type Tok struct {
	Op     string `json:"op"` // publish | send | persist | wait | advance
	Guards []G    `json:"g,omitempty"`
}

// Env holds the value of the atoms for one Ready.
type Env struct {
	Leader, Overlap, EmptyHS, EmptySnap bool
}

// Order is the extracted (or built-in) operation order.
type Order struct {
	Toks    []Tok             `json:"toks"`
	Persist []string          `json:"persist"` // durable write order inside persistRaftState: psnap, pents, phs
	Defs    map[string]string `json:"defs"`    // local variable := expression
	Flags   map[string][]G    `json:"flags"`   // local variable = true under these conditions
	Source  string            `json:"source"`  // "ast" or "builtin: <why>"
	// FreshOnUnusedWAL: node/raft.go startRaft treats an existing wal that holds no hard state and no
	// entries as a first start (StartNode with the configured peers) instead of RestartNode. Read
	// from the source: an if-statement in startRaft whose condition mentions oldwal together with a
	// call, and whose body assigns oldwal = false.
	FreshOnUnusedWAL bool `json:"fresh_on_unused_wal"`
	// Atoms: every assignment to isMeNewLeader / waitApply in processReady (with its guards); AtomsChanged: they are
	// not the ones the driver's readyStage implements
	Atoms        []string `json:"atoms,omitempty"`
	AtomsChanged bool     `json:"atoms_changed,omitempty"`
}

// BuiltinOrder is node/raft.go as of the verified tree (used when extraction fails).
func BuiltinOrder(why string) Order {
	return Order{Toks: []Tok{
		{Op: "persist", Guards: []G{{Expr: "raft.IsEmptySnap(rd.Snapshot) && shouldPersistBeforeApply(&rd)"}}},
		{Op: "publish"},
		{Op: "send", Guards: []G{{Expr: "sendBeforePersist"}}},
		{Op: "persist", Guards: []G{{Expr: "!persistedEarly"}}},
		{Op: "wait", Guards: []G{{Expr: "!isMeNewLeader"}}},
		{Op: "send", Guards: []G{{Expr: "!isMeNewLeader"}}},
		{Op: "send", Guards: []G{{Expr: "!isMeNewLeader", Neg: true}, {Expr: "!sendBeforePersist"}}},
		{Op: "advance"}},
		Persist: []string{"psnap", "pents", "phs"},
		Defs:    map[string]string{"sendBeforePersist": "isMeNewLeader && raft.IsEmptyHardState(rd.HardState)"},
		Flags:   map[string][]G{"persistedEarly": {{Expr: "raft.IsEmptySnap(rd.Snapshot) && shouldPersistBeforeApply(&rd)"}}},
		Source:  "builtin: " + why, FreshOnUnusedWAL: true}
}

func (o Order) String() string {
	var b []string
	for _, t := range o.Toks {
		s := t.Op
		for _, g := range t.Guards {
			if g.Neg {
				s += "[not(" + g.Expr + ")]"
			} else {
				s += "[" + g.Expr + "]"
			}
		}
		b = append(b, s)
	}
	var d []string
	for k, v := range o.Defs {
		d = append(d, k+":="+v)
	}
	for k, gs := range o.Flags {
		x := k + "=true when"
		for _, g := range gs {
			if g.Neg {
				x += " not(" + g.Expr + ")"
			} else {
				x += " " + g.Expr
			}
		}
		d = append(d, x)
	}
	sortStrings(d)
	return strings.Join(b, " ") + " | " + strings.Join(o.Persist, ",") + " | " + strings.Join(d, "; ") + " | " + o.Source +
		fmt.Sprintf(" | restart: fresh-on-unused-wal=%v", o.FreshOnUnusedWAL) + o.atomsNote()
}

func sortStrings(a []string) {
	for i := 1; i < len(a); i++ {
		for j := i; j > 0 && a[j] < a[j-1]; j-- {
			a[j], a[j-1] = a[j-1], a[j]
		}
	}
}

var exprCache sync.Map

func parseExprCached(s string) ast.Expr {
	if v, ok := exprCache.Load(s); ok {
		return v.(ast.Expr)
	}
	e, err := parser.ParseExpr(s)
	if err != nil {
		e = ast.NewIdent("true")
	}
	exprCache.Store(s, e)
	return e
}

func (o Order) evalGuards(gs []G, env Env, depth int) bool {
	for _, g := range gs {
		v := o.eval(parseExprCached(g.Expr), env, depth)
		if g.Neg {
			v = !v
		}
		if !v {
			return false
		}
	}
	return true
}

func callName(e ast.Expr) string {
	switch f := e.(type) {
	case *ast.Ident:
		return f.Name
	case *ast.SelectorExpr:
		return callName(f.X) + "." + f.Sel.Name
	}
	return ""
}

func (o Order) eval(e ast.Expr, env Env, depth int) bool {
	if depth > 8 {
		return true
	}
	switch x := e.(type) {
	case *ast.ParenExpr:
		return o.eval(x.X, env, depth)
	case *ast.UnaryExpr:
		if x.Op == token.NOT {
			return !o.eval(x.X, env, depth)
		}
	case *ast.BinaryExpr:
		switch x.Op {
		case token.LAND:
			return o.eval(x.X, env, depth) && o.eval(x.Y, env, depth)
		case token.LOR:
			return o.eval(x.X, env, depth) || o.eval(x.Y, env, depth)
		}
	case *ast.Ident:
		switch x.Name {
		case "true":
			return true
		case "false":
			return false
		case "isMeNewLeader":
			return env.Leader
		}
		if gs, ok := o.Flags[x.Name]; ok {
			return o.evalGuards(gs, env, depth+1)
		}
		if d, ok := o.Defs[x.Name]; ok {
			return o.eval(parseExprCached(d), env, depth+1)
		}
	case *ast.CallExpr:
		n := callName(x.Fun)
		switch {
		case strings.HasSuffix(n, "IsEmptyHardState"):
			return env.EmptyHS
		case strings.HasSuffix(n, "IsEmptySnap"):
			return env.EmptySnap
		case strings.HasPrefix(n, "should") || strings.Contains(n, ".should"):
			return env.Overlap
		}
	}
	return true // unknown condition: assume the operation runs
}

// Stages lists the sub-steps of one Ready.
func (o Order) Stages(env Env) []string {
	var out []string
	for _, t := range o.Toks {
		if !o.evalGuards(t.Guards, env, 0) {
			continue
		}
		if t.Op == "persist" {
			out = append(out, o.Persist...)
		} else {
			out = append(out, t.Op)
		}
	}
	return out
}

func exprString(fset *token.FileSet, e ast.Expr) string {
	var b bytes.Buffer
	printer.Fprint(&b, fset, e)
	return b.String()
}

func findFunc(f *ast.File, recv, name string) *ast.FuncDecl {
	for _, d := range f.Decls {
		fd, ok := d.(*ast.FuncDecl)
		if !ok || fd.Name.Name != name {
			continue
		}
		if recv == "" && fd.Recv == nil {
			return fd
		}
		if fd.Recv != nil && len(fd.Recv.List) == 1 {
			t := fd.Recv.List[0].Type
			if st, ok := t.(*ast.StarExpr); ok {
				t = st.X
			}
			if id, ok := t.(*ast.Ident); ok && id.Name == recv {
				return fd
			}
		}
	}
	return nil
}

type walker struct {
	fset   *token.FileSet
	call   func(name string, gs []G)
	assign func(lhs string, rhs ast.Expr, define bool, gs []G)
	rng    []string // enclosing range expressions (context of the statement being visited)
}

func (w *walker) stmts(list []ast.Stmt, gs []G) {
	for _, st := range list {
		w.stmt(st, gs)
	}
}

func (w *walker) calls(n ast.Node, gs []G) {
	ast.Inspect(n, func(x ast.Node) bool {
		switch c := x.(type) {
		case *ast.FuncLit:
			return false // closures / goroutine bodies are not part of the sequential order
		case *ast.CallExpr:
			w.call(exprString(w.fset, c.Fun), gs)
		}
		return true
	})
}

func (w *walker) stmt(st ast.Stmt, gs []G) {
	with := func(g G) []G { return append(append([]G(nil), gs...), g) }
	switch s := st.(type) {
	case *ast.IfStmt:
		if s.Init != nil {
			w.stmt(s.Init, gs)
		}
		w.calls(s.Cond, gs)
		c := exprString(w.fset, s.Cond)
		w.stmts(s.Body.List, with(G{Expr: c}))
		if s.Else != nil {
			w.stmt(s.Else, with(G{Expr: c, Neg: true}))
		}
	case *ast.BlockStmt:
		w.stmts(s.List, gs)
	case *ast.ForStmt:
		w.stmts(s.Body.List, gs)
	case *ast.RangeStmt:
		w.rng = append(w.rng, exprString(w.fset, s.X))
		w.stmts(s.Body.List, gs)
		w.rng = w.rng[:len(w.rng)-1]
	case *ast.SelectStmt:
		for _, cc := range s.Body.List {
			if c, ok := cc.(*ast.CommClause); ok {
				if c.Comm != nil {
					w.stmt(c.Comm, gs)
				}
				w.stmts(c.Body, gs)
			}
		}
	case *ast.SwitchStmt:
		for _, cc := range s.Body.List {
			if c, ok := cc.(*ast.CaseClause); ok {
				w.stmts(c.Body, gs)
			}
		}
	case *ast.GoStmt, *ast.DeferStmt:
		// not sequential
	case *ast.AssignStmt:
		if len(s.Lhs) == 1 && len(s.Rhs) == 1 && w.assign != nil {
			if id, ok := s.Lhs[0].(*ast.Ident); ok {
				w.assign(id.Name, s.Rhs[0], s.Tok == token.DEFINE, gs)
			}
		}
		w.calls(st, gs)
	default:
		w.calls(st, gs)
	}
}

// ExtractOrder reads the operation order from the working tree under repo.
func ExtractOrder(repo string) Order {
	fset := token.NewFileSet()
	f, err := parser.ParseFile(fset, filepath.Join(repo, "node", "raft.go"), nil, 0)
	if err != nil {
		return BuiltinOrder("parse " + err.Error())
	}
	pr := findFunc(f, "raftNode", "processReady")
	ps := findFunc(f, "raftNode", "persistRaftState")
	if pr == nil || ps == nil {
		return BuiltinOrder("processReady/persistRaftState not found")
	}
	o := Order{Source: "ast", Defs: map[string]string{}, Flags: map[string][]G{}}
	w := &walker{fset: fset}
	w.call = func(call string, gs []G) {
		var op string
		switch {
		case strings.HasSuffix(call, ".persistRaftState"):
			op = "persist"
		case strings.HasSuffix(call, ".publishEntries"):
			op = "publish"
		case strings.HasSuffix(call, ".transport.Send"):
			op = "send"
		case strings.HasSuffix(call, ".node.HandleConfChanged"):
			op = "wait"
		case strings.HasSuffix(call, ".node.Advance"):
			op = "advance"
		default:
			return
		}
		o.Toks = append(o.Toks, Tok{Op: op, Guards: append([]G(nil), gs...)})
	}
	w.assign = func(lhs string, rhs ast.Expr, define bool, gs []G) {
		txt := exprString(fset, rhs)
		if lhs == "isMeNewLeader" || lhs == "waitApply" {
			// atoms computed by the driver itself (readyStage): their computation in the source is recorded and compared
			// with the form the driver implements
			a := lhs + " = " + txt
			for _, r := range w.rng {
				a += " {range " + r + "}"
			}
			for _, g := range gs {
				if g.Neg {
					a += " [not(" + g.Expr + ")]"
				} else {
					a += " [" + g.Expr + "]"
				}
			}
			o.Atoms = append(o.Atoms, a)
			return
		}
		if define {
			if txt == "false" || txt == "true" {
				return // a flag: its meaning comes from the branch that sets it
			}
			if _, dup := o.Defs[lhs]; !dup {
				o.Defs[lhs] = txt
			}
			return
		}
		if txt == "true" {
			if _, dup := o.Flags[lhs]; !dup {
				o.Flags[lhs] = append([]G(nil), gs...)
			}
		}
	}
	w.stmts(pr.Body.List, nil)
	// keep only definitions that some guard (transitively) mentions
	used := map[string]bool{}
	var mark func(txt string)
	mark = func(txt string) {
		for name := range o.Defs {
			if !used[name] && containsIdent(txt, name) {
				used[name] = true
				mark(o.Defs[name])
			}
		}
		for name, gs := range o.Flags {
			if !used[name] && containsIdent(txt, name) {
				used[name] = true
				for _, g := range gs {
					mark(g.Expr)
				}
			}
		}
	}
	for _, t := range o.Toks {
		for _, g := range t.Guards {
			mark(g.Expr)
		}
	}
	for name := range o.Defs {
		if !used[name] {
			delete(o.Defs, name)
		}
	}
	for name := range o.Flags {
		if !used[name] {
			delete(o.Flags, name)
		}
	}
	// persistRaftState: SaveSnap vs Save
	var pseq []string
	w2 := &walker{fset: fset}
	w2.call = func(call string, gs []G) {
		switch {
		case strings.HasSuffix(call, ".persistStorage.SaveSnap"):
			pseq = append(pseq, "psnap")
		case strings.HasSuffix(call, ".persistStorage.Save"):
			pseq = append(pseq, "SAVE")
		}
	}
	w2.stmts(ps.Body.List, nil)
	// wal.Save: saveEntry vs saveState
	walOrder := []string{"pents", "phs"}
	if wf, err := parser.ParseFile(fset, filepath.Join(repo, "wal", "wal.go"), nil, 0); err == nil {
		if sv := findFunc(wf, "WAL", "Save"); sv != nil {
			var seen []string
			w3 := &walker{fset: fset}
			w3.call = func(call string, gs []G) {
				switch {
				case strings.HasSuffix(call, ".saveEntry") && !contains(seen, "pents"):
					seen = append(seen, "pents")
				case strings.HasSuffix(call, ".saveState") && !contains(seen, "phs"):
					seen = append(seen, "phs")
				}
			}
			w3.stmts(sv.Body.List, nil)
			if len(seen) == 2 {
				walOrder = seen
			}
		}
	}
	for _, p := range pseq {
		if p == "SAVE" {
			o.Persist = append(o.Persist, walOrder...)
		} else {
			o.Persist = append(o.Persist, p)
		}
	}
	// start path: is an unused wal started as a new node?
	if sr := findFunc(f, "raftNode", "startRaft"); sr != nil {
		ast.Inspect(sr.Body, func(n ast.Node) bool {
			is, ok := n.(*ast.IfStmt)
			if !ok {
				return true
			}
			c := exprString(fset, is.Cond)
			if !containsIdent(c, "oldwal") || !strings.Contains(c, "(") {
				return true
			}
			for _, st := range is.Body.List {
				if as, ok := st.(*ast.AssignStmt); ok && len(as.Lhs) == 1 && len(as.Rhs) == 1 {
					if id, ok := as.Lhs[0].(*ast.Ident); ok && id.Name == "oldwal" && exprString(fset, as.Rhs[0]) == "false" {
						o.FreshOnUnusedWAL = true
					}
				}
			}
			return true
		})
	}
	need := map[string]bool{"persist": false, "publish": false, "send": false, "wait": false, "advance": false}
	for _, t := range o.Toks {
		need[t.Op] = true
	}
	for k, v := range need {
		if !v {
			return BuiltinOrder("operation " + k + " not found in processReady")
		}
	}
	if len(o.Persist) != 3 {
		return BuiltinOrder(fmt.Sprintf("persistRaftState order %v", o.Persist))
	}
	o.AtomsChanged = len(o.Atoms) != len(ExpectedAtoms)
	for i := range o.Atoms {
		if !o.AtomsChanged && o.Atoms[i] != ExpectedAtoms[i] {
			o.AtomsChanged = true
		}
	}
	return o
}

func containsIdent(txt, name string) bool {
	i := 0
	for {
		j := strings.Index(txt[i:], name)
		if j < 0 {
			return false
		}
		j += i
		before := j == 0 || !isIdentChar(txt[j-1])
		after := j+len(name) >= len(txt) || !isIdentChar(txt[j+len(name)])
		if before && after {
			return true
		}
		i = j + len(name)
	}
}

func isIdentChar(c byte) bool {
	return c == '_' || (c >= 'a' && c <= 'z') || (c >= 'A' && c <= 'Z') || (c >= '0' && c <= '9') || c == '.'
}

func contains(l []string, s string) bool {
	for _, x := range l {
		if x == s {
			return true
		}
	}
	return false
}

// RepoPath is the repository root (VERIF_REPO, default /repo).
func RepoPath() string {
	if p := os.Getenv("VERIF_REPO"); p != "" {
		return p
	}
	return "/repo"
}

// ExpectedAtoms is the computation of isMeNewLeader / waitApply that Cluster.readyStage implements.
var ExpectedAtoms = []string{
	"isMeNewLeader = false",
	"isMeNewLeader = (rd.RaftState == raft.StateLeader) [rd.SoftState != nil]",
	"waitApply = false",
	"waitApply = true {range rd.CommittedEntries} [!isMeNewLeader] [ent.Type == raftpb.EntryConfChange]",
	"waitApply = true [!raft.IsEmptySnap(rd.Snapshot)] [!waitApply]",
}

func (o Order) atomsNote() string {
	if o.Source != "ast" {
		return ""
	}
	if o.AtomsChanged {
		return " | ATOMS CHANGED: " + strings.Join(o.Atoms, " ;; ")
	}
	return " | atoms: as implemented by the driver"
}
