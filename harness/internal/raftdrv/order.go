package raftdrv

import (
	"bytes"
	"fmt"
	"go/ast"
	"go/parser"
	"go/printer"
	"go/token"
	"os"
	"path/filepath"
	"strings"
)

// The driver does not run node/raft.go's processReady (it needs the whole server); it runs the
// same operations in the ORDER that function uses. To keep that order tied to the source, it is
// read from the working tree on every run: ExtractOrder parses node/raft.go (processReady,
// persistRaftState) and wal/wal.go (Save) and lists, in source order with their guards, the
// calls that matter: publishEntries, transport.Send, persistRaftState (-> SaveSnap, Save ->
// saveEntry, saveState), node.HandleConfChanged (the wait-apply loop) and node.Advance.
// If the code is reordered, the driver follows and the oracles judge the new order.

// Tok is one ordered operation of processReady with the guards recognised on its path.
type Tok struct {
	Op     string `json:"op"`     // publish | send | persist | wait | advance
	Leader int    `json:"leader"` // +1 only when isMeNewLeader, -1 only when !isMeNewLeader, 0 any
	Early  int    `json:"early"`  // +1 the "persist before apply" branch, -1 only when that branch did not run, 0 any
}

// Order is the extracted (or built-in) operation order.
type Order struct {
	Toks    []Tok    `json:"toks"`
	Persist []string `json:"persist"` // durable write order inside persistRaftState: psnap, pents, phs
	Source  string   `json:"source"`  // "ast" or "builtin: <why>"
}

// BuiltinOrder is node/raft.go as of the verified tree (used when extraction fails).
func BuiltinOrder(why string) Order {
	return Order{Toks: []Tok{{Op: "persist", Early: 1}, {Op: "publish"}, {Op: "send", Leader: 1}, {Op: "persist", Early: -1},
		{Op: "wait", Leader: -1}, {Op: "send", Leader: -1}, {Op: "advance"}},
		Persist: []string{"psnap", "pents", "phs"}, Source: "builtin: " + why}
}

func (o Order) String() string {
	var b []string
	for _, t := range o.Toks {
		s := t.Op
		if t.Leader > 0 {
			s += "[leader]"
		} else if t.Leader < 0 {
			s += "[!leader]"
		}
		if t.Early > 0 {
			s += "[early]"
		} else if t.Early < 0 {
			s += "[!early]"
		}
		b = append(b, s)
	}
	return strings.Join(b, " ") + " | " + strings.Join(o.Persist, ",") + " | " + o.Source
}

// Stages lists the sub-steps of one Ready. overlap = the Ready's committed entries overlap its
// unstable entries and it carries no snapshot (the condition of the early-persist branch).
func (o Order) Stages(leader, overlap bool) []string {
	hasEarly := false
	for _, t := range o.Toks {
		if t.Op == "persist" && t.Early > 0 {
			hasEarly = true
		}
	}
	early := hasEarly && overlap
	var out []string
	for _, t := range o.Toks {
		if (t.Leader > 0 && !leader) || (t.Leader < 0 && leader) {
			continue
		}
		if (t.Early > 0 && !early) || (t.Early < 0 && early) {
			continue
		}
		if t.Op == "persist" {
			out = append(out, o.Persist...)
		} else {
			out = append(out, t.Op)
		}
	}
	return out
}

func exprString(fset *token.FileSet, e ast.Expr) string {
	var b bytes.Buffer
	printer.Fprint(&b, fset, e)
	return b.String()
}

func findFunc(f *ast.File, recv, name string) *ast.FuncDecl {
	for _, d := range f.Decls {
		fd, ok := d.(*ast.FuncDecl)
		if !ok || fd.Name.Name != name {
			continue
		}
		if recv == "" && fd.Recv == nil {
			return fd
		}
		if fd.Recv != nil && len(fd.Recv.List) == 1 {
			t := fd.Recv.List[0].Type
			if st, ok := t.(*ast.StarExpr); ok {
				t = st.X
			}
			if id, ok := t.(*ast.Ident); ok && id.Name == recv {
				return fd
			}
		}
	}
	return nil
}

type guard struct {
	text string
	neg  bool
}

// walk visits statements in source order, keeping the stack of enclosing if-conditions.
func walkStmts(fset *token.FileSet, list []ast.Stmt, gs []guard, visit func(call string, gs []guard)) {
	for _, st := range list {
		walkStmt(fset, st, gs, visit)
	}
}

func walkStmt(fset *token.FileSet, st ast.Stmt, gs []guard, visit func(call string, gs []guard)) {
	calls := func(n ast.Node) {
		ast.Inspect(n, func(x ast.Node) bool {
			switch c := x.(type) {
			case *ast.FuncLit:
				return false // goroutine bodies / closures are not part of the sequential order
			case *ast.CallExpr:
				visit(exprString(fset, c.Fun), gs)
			}
			return true
		})
	}
	switch s := st.(type) {
	case *ast.IfStmt:
		if s.Init != nil {
			walkStmt(fset, s.Init, gs, visit)
		}
		calls(s.Cond)
		c := exprString(fset, s.Cond)
		walkStmts(fset, s.Body.List, append(append([]guard(nil), gs...), guard{c, false}), visit)
		if s.Else != nil {
			walkStmt(fset, s.Else, append(append([]guard(nil), gs...), guard{c, true}), visit)
		}
	case *ast.BlockStmt:
		walkStmts(fset, s.List, gs, visit)
	case *ast.ForStmt:
		walkStmts(fset, s.Body.List, gs, visit)
	case *ast.RangeStmt:
		walkStmts(fset, s.Body.List, gs, visit)
	case *ast.SelectStmt:
		for _, cc := range s.Body.List {
			if c, ok := cc.(*ast.CommClause); ok {
				if c.Comm != nil {
					walkStmt(fset, c.Comm, gs, visit)
				}
				walkStmts(fset, c.Body, gs, visit)
			}
		}
	case *ast.SwitchStmt:
		for _, cc := range s.Body.List {
			if c, ok := cc.(*ast.CaseClause); ok {
				walkStmts(fset, c.Body, gs, visit)
			}
		}
	case *ast.GoStmt, *ast.DeferStmt:
		// not sequential
	default:
		calls(st)
	}
}

// polarity of an identifier inside a guard stack: +1 required true, -1 required false, 0 absent
func polarity(gs []guard, idents ...string) int {
	for _, g := range gs {
		for _, id := range idents {
			i := strings.Index(g.text, id)
			if i < 0 {
				continue
			}
			neg := g.neg
			if i > 0 && g.text[i-1] == '!' {
				neg = !neg
			}
			if neg {
				return -1
			}
			return 1
		}
	}
	return 0
}

// ExtractOrder reads the operation order from the working tree under repo.
func ExtractOrder(repo string) Order {
	fset := token.NewFileSet()
	src := filepath.Join(repo, "node", "raft.go")
	f, err := parser.ParseFile(fset, src, nil, 0)
	if err != nil {
		return BuiltinOrder("parse " + err.Error())
	}
	pr := findFunc(f, "raftNode", "processReady")
	ps := findFunc(f, "raftNode", "persistRaftState")
	if pr == nil || ps == nil {
		return BuiltinOrder("processReady/persistRaftState not found")
	}
	// which local variable remembers the early persist? the one assigned true in the branch
	// guarded by the overlap predicate; its name is found by looking at the persist guards.
	o := Order{Source: "ast"}
	earlyVar := ""
	// first pass: find the early branch: a persistRaftState call under a guard that calls a
	// function named should…(rd) ; remember identifiers assigned in that branch
	ast.Inspect(pr.Body, func(n ast.Node) bool {
		is, ok := n.(*ast.IfStmt)
		if !ok {
			return true
		}
		c := exprString(fset, is.Cond)
		if !strings.Contains(c, "should") {
			return true
		}
		hasPersist := false
		ast.Inspect(is.Body, func(x ast.Node) bool {
			if ce, ok := x.(*ast.CallExpr); ok && strings.HasSuffix(exprString(fset, ce.Fun), ".persistRaftState") {
				hasPersist = true
			}
			return true
		})
		if !hasPersist {
			return true
		}
		for _, st := range is.Body.List {
			if as, ok := st.(*ast.AssignStmt); ok && len(as.Lhs) == 1 && len(as.Rhs) == 1 {
				if id, ok := as.Lhs[0].(*ast.Ident); ok && exprString(fset, as.Rhs[0]) == "true" {
					earlyVar = id.Name
				}
			}
		}
		return true
	})
	walkStmts(fset, pr.Body.List, nil, func(call string, gs []guard) {
		var op string
		switch {
		case strings.HasSuffix(call, ".persistRaftState"):
			op = "persist"
		case strings.HasSuffix(call, ".publishEntries"):
			op = "publish"
		case strings.HasSuffix(call, ".transport.Send"):
			op = "send"
		case strings.HasSuffix(call, ".node.HandleConfChanged"):
			op = "wait"
		case strings.HasSuffix(call, ".node.Advance"):
			op = "advance"
		default:
			return
		}
		t := Tok{Op: op, Leader: polarity(gs, "isMeNewLeader")}
		if op == "persist" {
			if polarity(gs, "should") > 0 {
				t.Early = 1
			} else if earlyVar != "" {
				t.Early = polarity(gs, earlyVar) // "!persistedEarly" -> -1: runs only when the early branch did not
			}
		}
		o.Toks = append(o.Toks, t)
	})
	// persistRaftState: SaveSnap vs Save
	var pseq []string
	walkStmts(fset, ps.Body.List, nil, func(call string, gs []guard) {
		switch {
		case strings.HasSuffix(call, ".persistStorage.SaveSnap"):
			pseq = append(pseq, "psnap")
		case strings.HasSuffix(call, ".persistStorage.Save"):
			pseq = append(pseq, "SAVE")
		}
	})
	// wal.Save: saveEntry vs saveState
	walOrder := []string{"pents", "phs"}
	if wf, err := parser.ParseFile(fset, filepath.Join(repo, "wal", "wal.go"), nil, 0); err == nil {
		if sv := findFunc(wf, "WAL", "Save"); sv != nil {
			var seen []string
			walkStmts(fset, sv.Body.List, nil, func(call string, gs []guard) {
				switch {
				case strings.HasSuffix(call, ".saveEntry") && !contains(seen, "pents"):
					seen = append(seen, "pents")
				case strings.HasSuffix(call, ".saveState") && !contains(seen, "phs"):
					seen = append(seen, "phs")
				}
			})
			if len(seen) == 2 {
				walOrder = seen
			}
		}
	}
	for _, p := range pseq {
		if p == "SAVE" {
			o.Persist = append(o.Persist, walOrder...)
		} else {
			o.Persist = append(o.Persist, p)
		}
	}
	// sanity: every op must be present, otherwise fall back
	need := map[string]bool{"persist": false, "publish": false, "send": false, "wait": false, "advance": false}
	for _, t := range o.Toks {
		need[t.Op] = true
	}
	for k, v := range need {
		if !v {
			return BuiltinOrder("operation " + k + " not found in processReady")
		}
	}
	if len(o.Persist) != 3 {
		return BuiltinOrder(fmt.Sprintf("persistRaftState order %v", o.Persist))
	}
	return o
}

func contains(l []string, s string) bool {
	for _, x := range l {
		if x == s {
			return true
		}
	}
	return false
}

// RepoPath is the repository root (VERIF_REPO, default /repo).
func RepoPath() string {
	if p := os.Getenv("VERIF_REPO"); p != "" {
		return p
	}
	return "/repo"
}
