package raftdrv

import (
	"math"
	"math/rand"

	pb "github.com/youzan/ZanRedisDB/raft/raftpb"
)

// Profile holds the relative weights of the scheduler's choices.
type Profile struct {
	Name                                           string
	Tick, Step, Ready, Deliver, Redeliver, Drop    float64
	Propose, Conf, Apply, Crash, CrashMid, Restart float64
	Compact, Transfer, SnapRep, Unreach, ReadIndex float64
	Partition, Heal                                float64
	// a sleeping node is rarely stepped (and gets no ticks): its queues fill up between two Ready loops, so one StepNode
	// handles several messages, incl. winning a term and being deposed again inside one step (the acceptor infers such a
	// leadership from the messages the Ready carries, raftabs 78faf97)
	Sleep, Wake                    float64
	HoldRemoved                    float64 // messages FROM a member whose removal was proposed stay in the network for a while (late answers of an ex-member)
	HoldSnap, SnapBatch            float64 // MsgSnap kept in the network; MsgSnap + the MsgApp that follows it delivered back to back, then one step
	PNoMore, PBusy, PRndZero, PAll float64
	MaxConf                        int
}

var Profiles = map[string]Profile{
	"uniform": {Name: "uniform", HoldRemoved: 0.4, Tick: 1, Step: 1, Ready: 1, Deliver: 1, Redeliver: 1, Drop: 1, Propose: 1, Conf: 1, Apply: 1,
		Crash: 0.3, CrashMid: 0.5, Restart: 1, Compact: 1, Transfer: 1, SnapRep: 1, Unreach: 1, ReadIndex: 0.3, Partition: 1, Heal: 1,
		PNoMore: 0.1, PBusy: 0.1, PRndZero: 0.3, PAll: 0.5, MaxConf: 8},
	"steady": {Name: "steady", Tick: 2, Step: 8, Ready: 12, Deliver: 12, Redeliver: 0.5, Drop: 0.15, Propose: 2, Conf: 0.15, Apply: 4,
		Crash: 0.02, CrashMid: 0.03, Restart: 1, Compact: 0.3, Transfer: 0.05, SnapRep: 1, Unreach: 0.05, ReadIndex: 0.03, Partition: 0.05, Heal: 0.3,
		PNoMore: 0.03, PBusy: 0.02, PRndZero: 0.2, PAll: 0.85, MaxConf: 4},
	"elect": {Name: "elect", HoldRemoved: 0.5, Tick: 8, Step: 8, Ready: 10, Deliver: 8, Redeliver: 2, Drop: 1, Propose: 1, Conf: 0.1, Apply: 3,
		Crash: 0.08, CrashMid: 0.12, Restart: 1.5, Compact: 0.1, Transfer: 0.3, SnapRep: 0.5, Unreach: 0.1, ReadIndex: 0.03, Partition: 0.4, Heal: 0.6,
		PNoMore: 0.02, PBusy: 0.02, PRndZero: 0.7, PAll: 0.7, MaxConf: 3},
	"crashy": {Name: "crashy", Tick: 4, Step: 8, Ready: 10, Deliver: 10, Redeliver: 1.5, Drop: 0.5, Propose: 2, Conf: 0.15, Apply: 3,
		Crash: 0.15, CrashMid: 0.45, Restart: 2.5, Compact: 0.4, Transfer: 0.1, SnapRep: 1, Unreach: 0.1, ReadIndex: 0.03, Partition: 0.1, Heal: 0.4,
		PNoMore: 0.05, PBusy: 0.03, PRndZero: 0.3, PAll: 0.4, MaxConf: 4},
	"conf": {Name: "conf", HoldRemoved: 0.6, Tick: 2, Step: 8, Ready: 12, Deliver: 12, Redeliver: 1, Drop: 0.3, Propose: 1.5, Conf: 1.5, Apply: 4,
		Crash: 0.05, CrashMid: 0.08, Restart: 1.5, Compact: 0.4, Transfer: 0.15, SnapRep: 1, Unreach: 0.05, ReadIndex: 0.03, Partition: 0.1, Heal: 0.4,
		PNoMore: 0.03, PBusy: 0.02, PRndZero: 0.2, PAll: 0.75, MaxConf: 12},
	"snap": {Name: "snap", Tick: 2, Step: 8, Ready: 12, Deliver: 12, Redeliver: 1, Drop: 0.3, Propose: 3, Conf: 0.2, Apply: 5,
		Crash: 0.05, CrashMid: 0.08, Restart: 1.5, Compact: 1.5, Transfer: 0.1, SnapRep: 2, Unreach: 0.2, ReadIndex: 0.03, Partition: 0.3, Heal: 0.25,
		PNoMore: 0.05, PBusy: 0.05, PRndZero: 0.2, PAll: 0.75, MaxConf: 4},
	"paging": {Name: "paging", HoldRemoved: 0.5, Tick: 3, Step: 8, Ready: 12, Deliver: 12, Redeliver: 1, Drop: 0.3, Propose: 4, Conf: 1.2, Apply: 1.2,
		Crash: 0.05, CrashMid: 0.08, Restart: 1.5, Compact: 0.3, Transfer: 0.15, SnapRep: 1, Unreach: 0.05, ReadIndex: 0.03, Partition: 0.25, Heal: 0.4,
		PNoMore: 0.25, PBusy: 0.02, PRndZero: 0.5, PAll: 0.75, MaxConf: 10},
	// lagging followers: frequent compaction, snapshots, duplicated old messages, and nodes that are not stepped for a
	// while so that several messages (MsgSnap followed by MsgApp, vote + append, ...) are handled by ONE StepNode
	"lagsnap": {Name: "lagsnap", Tick: 2, Step: 8, Ready: 12, Deliver: 12, Redeliver: 2.5, Drop: 0.2, Propose: 4, Conf: 0.15, Apply: 5,
		Crash: 0.03, CrashMid: 0.05, Restart: 1.5, Compact: 2.5, Transfer: 0.05, SnapRep: 3, Unreach: 0.1, ReadIndex: 0.03, Partition: 0.35, Heal: 0.3,
		Sleep: 0.25, Wake: 0.2, HoldSnap: 0.7, SnapBatch: 40, PNoMore: 0.03, PBusy: 0.03, PRndZero: 0.2, PAll: 0.8, MaxConf: 3},
	"stale": {Name: "stale", Tick: 5, Step: 8, Ready: 10, Deliver: 8, Redeliver: 4, Drop: 0.2, Propose: 2, Conf: 0.1, Apply: 3,
		Crash: 0.06, CrashMid: 0.08, Restart: 1.5, Compact: 0.3, Transfer: 0.4, SnapRep: 1, Unreach: 0.1, ReadIndex: 0.03, Partition: 0.6, Heal: 0.4,
		PNoMore: 0.03, PBusy: 0.02, PRndZero: 0.4, PAll: 0.7, MaxConf: 3},
}

// ProfileNames in a fixed order (for seeded selection).
var ProfileNames = []string{"steady", "elect", "crashy", "conf", "snap", "stale", "paging", "uniform", "lagsnap"}

// Gen is the seeded scheduler.
type Gen struct {
	R          *rand.Rand
	C          *Cluster
	P          Profile
	blocked    map[[2]uint64]bool
	deliv      map[int]int
	nconf      int
	removed    map[uint64]bool
	asleep     map[uint64]bool
	hold       map[int]int // network id of a held MsgSnap -> generator calls left
	seenSn     map[int]bool
	forced     []Event
	forcedCand []Event
	lateCand   []Event
	nomoreFor  map[uint64]int // steps of this node run with moreEntriesToApply=false for a while (transfer target)
	Hist       map[string]int
}

func NewGen(r *rand.Rand, c *Cluster, p Profile) *Gen {
	return &Gen{R: r, C: c, P: p, blocked: map[[2]uint64]bool{}, deliv: map[int]int{}, removed: map[uint64]bool{}, asleep: map[uint64]bool{}, hold: map[int]int{}, seenSn: map[int]bool{}, nomoreFor: map[uint64]int{}, Hist: map[string]int{}}
}

type cand struct {
	w  float64
	ev Event
	f  func()
}

func (g *Gen) rnd() uint32 {
	if g.R.Float64() < g.P.PRndZero {
		return 0
	}
	return uint32(g.R.Intn(64))
}

// Next picks the next event. It never returns an event that is a no-op by construction
// (disabled events get weight 0) except for partition bookkeeping, which is internal.
func (g *Gen) Next() Event {
	for tries := 0; ; tries++ {
		ev, ok := g.next()
		if !ok && tries > 200 {
			// hard cap on generator-internal choices in a row
			ev, ok = Event{K: "tick", N: g.C.IDs()[0]}, true
		}
		if ok {
			g.Hist[ev.K]++
			return ev
		}
	}
}

func (g *Gen) next() (Event, bool) {
	c := g.C
	p := g.P
	for len(g.forced) > 0 {
		ev := g.forced[0]
		g.forced = g.forced[1:]
		switch ev.K {
		case "deliver":
			if m, ok := c.Msg(ev.M); ok && c.View(m.To).Alive {
				g.deliv[ev.M]++
				return ev, true
			}
		case "step":
			if v := c.View(ev.N); v.Alive && !v.InFlight {
				return ev, true
			}
		}
	}
	var cs []cand
	g.lateCand = nil
	add := func(w float64, ev Event) {
		if w > 0 {
			cs = append(cs, cand{w: w, ev: ev})
		}
	}
	views := map[uint64]NodeView{}
	var alive, down []uint64
	for _, id := range c.IDs() {
		v := c.View(id)
		views[id] = v
		if v.Alive {
			alive = append(alive, id)
		} else if v.Born && !v.Removed {
			down = append(down, id)
		}
	}
	na := float64(len(alive))
	if na == 0 {
		na = 1
	}
	var leaders []uint64
	for _, id := range alive {
		if views[id].Role == 2 {
			leaders = append(leaders, id)
		}
	}
	haveLeader := len(leaders) > 0
	for _, id := range alive {
		v := views[id]
		// a sleeping node gets no ticks: several election timeouts inside ONE StepNode would create messages of
		// terms that are over by the time the Ready is sent (legal, but outside what the abstract acceptor relates)
		if v.QueuedTicks < 60 && !g.asleep[id] {
			w := p.Tick / na
			if !haveLeader {
				w *= 3
			}
			add(w, Event{K: "tick", N: id})
		}
		if v.InFlight {
			add(p.Ready*2/na, Event{K: "ready", N: id, All: g.R.Float64() < p.PAll})
			add(p.CrashMid/na, Event{K: "crash", N: id})
		} else {
			w := p.Step / na
			if v.QueuedMsgs > 0 || v.QueuedTicks > 0 {
				w *= 2
			} else {
				w *= 0.3
			}
			if g.asleep[id] {
				w *= 0.02
			}
			add(w, Event{K: "step", N: id, Rnd: g.rnd(), NoMore: g.R.Float64() < p.PNoMore || g.nomoreFor[id] > 0, Busy: g.R.Float64() < p.PBusy})
			add(p.Crash/na, Event{K: "crash", N: id})
		}
		if v.ApplyQ > 0 && !v.Blocked && !v.Removed {
			add(p.Apply/na, Event{K: "apply", N: id})
		}
		if v.AppApplied > v.AppSnap && !v.InFlight {
			add(p.Compact/na, Event{K: "compact", N: id, Keep: uint64(g.R.Intn(4))})
		}
		for _, x := range v.SnapshottingTo {
			add(p.SnapRep/na, Event{K: "snaprep", N: id, X: x, Fail: g.R.Intn(4) == 0})
		}
	}
	for _, id := range down {
		add(p.Restart/float64(len(down)), Event{K: "restart", N: id, Rnd: g.rnd()})
	}
	// network
	ids := c.NetIDs()
	if len(ids) > 0 {
		var fresh, old []int
		for _, id := range ids {
			m, _ := c.Msg(id)
			if !views[m.To].Alive || g.blocked[[2]uint64{m.From, m.To}] {
				continue
			}
			if p.HoldRemoved > 0 && g.removed[m.From] && g.deliv[id] == 0 &&
				(m.Type == pb.MsgVoteResp || m.Type == pb.MsgPreVoteResp || m.Type == pb.MsgAppResp || m.Type == pb.MsgHeartbeatResp) {
				// an answer of a member whose removal was proposed: kept in the network until the receiver has applied the
				// removal (the sender is gone from its configuration), then delivered and stepped at once — "conf change
				// applied on the receiver between its request and the response"
				if !g.seenSn[id] {
					g.seenSn[id] = true
					if g.R.Float64() < p.HoldRemoved {
						g.hold[id] = 500
					}
				}
				if g.hold[id] > 0 {
					g.hold[id]--
					tv := views[m.To]
					member := false
					for _, x := range tv.Voters {
						member = member || x == m.From
					}
					for _, x := range tv.Learners {
						member = member || x == m.From
					}
					if !member && !tv.InFlight && g.lateCand == nil {
						g.lateCand = []Event{{K: "deliver", N: m.To, M: id}, {K: "step", N: m.To, Rnd: g.rnd()}}
						add(25, Event{K: "_latersp"})
					}
					continue
				}
			}
			if m.Type == pb.MsgSnap && g.deliv[id] == 0 {
				if !g.seenSn[id] {
					g.seenSn[id] = true
					if g.R.Float64() < p.HoldSnap {
						g.hold[id] = 400
					}
				}
				if g.hold[id] > 0 {
					g.hold[id]--
					// the MsgApp that the sender issued after this snapshot (transport said "sent", a heartbeat response resumed it)
					if p.SnapBatch > 0 && m.Snapshot.Metadata.Index > 0 && !views[m.To].InFlight {
						for _, id2 := range ids {
							m2, _ := c.Msg(id2)
							if g.deliv[id2] == 0 && m2.Type == pb.MsgApp && m2.To == m.To && m2.From == m.From && m2.Index >= m.Snapshot.Metadata.Index && len(m2.Entries) > 0 {
								g.forcedCand = []Event{{K: "deliver", N: m.To, M: id}, {K: "deliver", N: m.To, M: id2}, {K: "step", N: m.To, Rnd: g.rnd()}}
								add(p.SnapBatch, Event{K: "_snapbatch"})
								break
							}
						}
					}
					continue
				}
			}
			if g.deliv[id] == 0 {
				fresh = append(fresh, id)
			} else {
				old = append(old, id)
			}
		}
		if len(fresh) > 0 {
			// favour the oldest undelivered messages, but allow any
			k := 0
			if g.R.Intn(3) == 0 {
				k = g.R.Intn(len(fresh))
			} else if len(fresh) > 1 {
				k = g.R.Intn(minInt(len(fresh), 4))
			}
			m, _ := c.Msg(fresh[k])
			add(p.Deliver*float64(minInt(len(fresh), 6))/2, Event{K: "deliver", N: m.To, M: fresh[k]})
		}
		if len(old) > 0 {
			k := old[g.R.Intn(len(old))]
			m, _ := c.Msg(k)
			add(p.Redeliver, Event{K: "deliver", N: m.To, M: k})
		}
		add(p.Drop, Event{K: "drop", M: ids[g.R.Intn(len(ids))]})
		if len(ids) > 160 {
			// garbage-collect: the oldest messages are lost
			add(p.Deliver*3, Event{K: "gc", M: ids[len(ids)-100]})
		}
	}
	// client / admin
	if len(alive) > 0 {
		tgt := alive[g.R.Intn(len(alive))]
		if len(leaders) > 0 && g.R.Intn(4) != 0 {
			tgt = leaders[g.R.Intn(len(leaders))]
		}
		tv := views[tgt]
		pw := p.Propose
		if !haveLeader {
			pw *= 0.1
		}
		add(pw, Event{K: "propose", N: tgt, P: 0})
		add(p.ReadIndex, Event{K: "readindex", N: tgt, P: uint64(g.R.Intn(1000))})
		if g.nconf < p.MaxConf {
			if ev, ok := g.confEvent(tgt, tv, views); ok {
				add(p.Conf, ev)
			}
		}
		if len(tv.Voters) > 1 {
			tx := tv.Voters[g.R.Intn(len(tv.Voters))]
			if g.R.Intn(2) == 0 {
				// prefer a target whose application lags behind its commit index (a transfer campaign with entries,
				// possibly a configuration change, in (applied, committed])
				for _, x := range tv.Voters {
					if xv := views[x]; x != tgt && xv.Alive && xv.AppApplied < xv.Commit {
						tx = x
						break
					}
				}
			}
			add(p.Transfer, Event{K: "transfer", N: tgt, X: tx})
			add(p.Unreach, Event{K: "unreach", N: tgt, X: tv.Voters[g.R.Intn(len(tv.Voters))]})
		}
	}
	// partitions (generator-internal: they only bias which messages get delivered)
	if p.Sleep > 0 && len(alive) > 1 && len(g.asleep) < 2 {
		add(p.Sleep, Event{K: "_sleep", N: alive[g.R.Intn(len(alive))]})
	}
	if len(g.asleep) > 0 {
		add(p.Wake*float64(len(g.asleep)), Event{K: "_wake"})
	}
	add(p.Partition, Event{K: "_part"})
	if len(g.blocked) > 0 {
		add(p.Heal, Event{K: "_heal"})
	}
	real := 0
	for _, x := range cs {
		if len(x.ev.K) > 0 && x.ev.K[0] != '_' {
			real++
		}
	}
	if real == 0 {
		// nothing but generator-internal bookkeeping is possible (every node is gone): a no-op event, so that
		// Next always terminates
		return Event{K: "tick", N: c.IDs()[0]}, true
	}
	tot := 0.0
	for _, x := range cs {
		tot += x.w
	}
	r := g.R.Float64() * tot
	var ch cand
	for _, x := range cs {
		if r < x.w {
			ch = x
			break
		}
		r -= x.w
		ch = x
	}
	ev := ch.ev
	switch ev.K {
	case "_part":
		ids := c.IDs()
		a := ids[g.R.Intn(len(ids))]
		if lv, ok := g.leaderWithLearners(); ok && g.R.Intn(2) == 0 {
			// cut a leader off from every voter, keep its links to the learners
			for _, b := range lv.Voters {
				if b != lv.ID {
					g.blocked[[2]uint64{lv.ID, b}] = true
					g.blocked[[2]uint64{b, lv.ID}] = true
				}
			}
		} else if g.R.Intn(2) == 0 {
			// isolate a completely
			for _, b := range ids {
				if b != a {
					g.blocked[[2]uint64{a, b}] = true
					g.blocked[[2]uint64{b, a}] = true
				}
			}
		} else {
			b := ids[g.R.Intn(len(ids))]
			if a != b {
				g.blocked[[2]uint64{a, b}] = true
				if g.R.Intn(2) == 0 {
					g.blocked[[2]uint64{b, a}] = true
				}
			}
		}
		return Event{}, false
	case "_heal":
		g.blocked = map[[2]uint64]bool{}
		return Event{}, false
	case "_latersp":
		g.forced = g.lateCand
		g.lateCand = nil
		for _, f := range g.forced {
			if f.K == "deliver" {
				delete(g.hold, f.M)
			}
		}
		return Event{}, false
	case "_snapbatch":
		g.forced = g.forcedCand
		g.forcedCand = nil
		for _, f := range g.forced {
			if f.K == "deliver" {
				delete(g.hold, f.M)
			}
		}
		return Event{}, false
	case "_sleep":
		g.asleep[ev.N] = true
		return Event{}, false
	case "_wake":
		g.asleep = map[uint64]bool{}
		return Event{}, false
	case "deliver":
		g.deliv[ev.M]++
	case "step":
		if g.nomoreFor[ev.N] > 0 {
			g.nomoreFor[ev.N]--
		}
	case "transfer":
		if xv := c.View(ev.X); xv.AppApplied < xv.Commit || g.R.Intn(3) == 0 {
			g.nomoreFor[ev.X] = 12
		}
	case "propose":
		ev.P = c.NewPayload()
		if c.Opt.MaxCommitted != 0 {
			ev.Pad = []int{0, 40, 100, 140, 150, 160, 300}[g.R.Intn(7)]
		}
	case "conf":
		g.nconf++
		if ev.CC == "remove" {
			g.removed[ev.X] = true
		}
	}
	return ev, true
}

func (g *Gen) leaderWithLearners() (NodeView, bool) {
	for _, id := range g.C.IDs() {
		v := g.C.View(id)
		if v.Alive && v.Role == 2 && len(v.Learners) > 0 && len(v.Voters) > 1 {
			return v, true
		}
	}
	return NodeView{}, false
}

func (g *Gen) confEvent(tgt uint64, tv NodeView, views map[uint64]NodeView) (Event, bool) {
	// candidates: add an unborn node as voter or learner; promote a learner; remove a member
	// (incl. the leader); update a member
	var unborn []uint64
	for _, id := range g.C.IDs() {
		if !views[id].Born && !g.removed[id] {
			unborn = append(unborn, id)
		}
	}
	var opts []Event
	if len(unborn) > 0 {
		x := unborn[0]
		if len(tv.Voters) < 5 {
			opts = append(opts, Event{K: "conf", N: tgt, CC: "addnode", X: x})
		}
		if len(tv.Learners) < 2 {
			opts = append(opts, Event{K: "conf", N: tgt, CC: "addlearner", X: x}, Event{K: "conf", N: tgt, CC: "addlearner", X: x})
		}
	}
	for _, l := range tv.Learners {
		if len(tv.Voters) < 5 {
			opts = append(opts, Event{K: "conf", N: tgt, CC: "addnode", X: l}, Event{K: "conf", N: tgt, CC: "addnode", X: l})
		}
		opts = append(opts, Event{K: "conf", N: tgt, CC: "remove", X: l})
	}
	if len(tv.Voters) > 1 {
		x := tv.Voters[g.R.Intn(len(tv.Voters))]
		opts = append(opts, Event{K: "conf", N: tgt, CC: "remove", X: x})
		if tv.Lead != 0 {
			opts = append(opts, Event{K: "conf", N: tgt, CC: "remove", X: tv.Lead})
		}
	}
	if len(tv.Voters) > 0 {
		// adversarial: try to demote a voter to learner (must be refused), update a member
		x := tv.Voters[g.R.Intn(len(tv.Voters))]
		if g.R.Intn(4) == 0 {
			opts = append(opts, Event{K: "conf", N: tgt, CC: "addlearner", X: x})
		}
		if g.R.Intn(4) == 0 {
			opts = append(opts, Event{K: "conf", N: tgt, CC: "update", X: x})
		}
	}
	if len(opts) == 0 {
		return Event{}, false
	}
	return opts[g.R.Intn(len(opts))], true
}

func minInt(a, b int) int {
	if a < b {
		return a
	}
	return b
}

// RandomOptions draws a cluster configuration.
func RandomOptions(r *rand.Rand, storage string) Options {
	o := Options{Storage: storage}
	o.Voters = 1 + r.Intn(5)
	if r.Intn(3) != 0 && o.Voters < 3 {
		o.Voters = 3
	}
	o.Universe = o.Voters + 2
	if o.Universe > 7 {
		o.Universe = 7
	}
	pq := r.Intn(10)
	switch {
	case pq < 5:
		o.PreVote, o.CheckQuorum = true, true // production
	case pq < 7:
		o.PreVote, o.CheckQuorum = false, false
	case pq < 8:
		o.PreVote = true
	default:
		o.CheckQuorum = true
	}
	if r.Intn(2) == 0 {
		o.MaxSizePerMsg = math.MaxUint64
	}
	if r.Intn(4) == 0 {
		// pagination of the hand-out: a small MaxCommittedSizePerReady with payloads around it
		o.MaxSizePerMsg = math.MaxUint64
		o.MaxCommitted = []uint64{150, 200, 400}[r.Intn(3)]
	}
	o.ElectionTick = []int{2, 3, 3, 5, 10}[r.Intn(5)]
	o.HeartbeatTick = 1
	if o.ElectionTick >= 5 && r.Intn(2) == 0 {
		o.HeartbeatTick = 2
	}
	o.MaxInflight = []int{1, 2, 4, 16}[r.Intn(4)]
	return o
}

var _ = pb.MsgApp
