package raftdrv

import (
	"fmt"
	"sort"
	"strings"
)

// Violation is one failure of a direct oracle on the implementation trace.
type Violation struct {
	Prop string `json:"prop"` // C01 | C02 | C03
	Rule string `json:"rule"` // short stable name of the rule that failed
	Seq  int    `json:"seq"`  // record at which it was detected
	What string `json:"what"`
	// Class names the input class of an open known finding the trace falls into ("" = none):
	// "leader-after-empty-storage-restart": a bootstrap member crashed before its first persist,
	// restarted from an empty storage (no configuration) and later became leader.
	Class string `json:"class,omitempty"`
}

// Stats counts what a trace exercised (evidence / non-triviality).
type Stats struct {
	Records, Steps, Readys        int
	LeadersElected                int // (node, term) pairs observed in StateLeader
	Terms                         int // distinct terms with a leader
	MaxTerm                       uint64
	Chosen                        int // distinct indexes handed out as committed
	HandOuts, Applies             int
	Crashes, CrashesMidReady      int
	CrashStage                    map[string]int
	Restarts                      int
	SnapshotsInstalled            int
	ReadySnapWithCommitted        int // Readys that carry a snapshot AND committed entries after it
	StorageTailStates             int // node states whose log extends, in the storage, beyond unstable.offset-1 (RocksStorage keeps the tail above an applied snapshot)
	Compactions                   int
	ConfApplied                   int
	LearnerSeen                   bool
	VoteReqToLearner              int
	LeaderChecks                  int // (new leader, chosen entry) pairs compared
	AppliedAfterRestartCompared   int
	MsgSnapSent, Delivered, Drops int
	StaleLeaderSteps              int // steps taken by a leader whose term is below the max term
	EmptyRestarts                 int // bootstrap members restarted from an empty storage
	VoteGrantsSent, AcksSent      int // messages checked by the durable-vote / durable-ack rules
	CommitQuorumChecks            int // leader commit advances checked against the voters' durable logs
	HeartbeatsChecked             int
	AppendsChecked                int
}

type nodeTrack struct {
	last        NodeState
	have        bool
	incarnation int
	handed      uint64 // last index handed out in this incarnation (0 = none yet)
	handedAny   bool
	appLast     uint64 // last index applied by the application in this incarnation
	appAny      bool
	wasLeaderAt uint64 // term in which it is currently known leader (0 = not leader)
	everApplied map[uint64]bool
}

// Oracle evaluates C01/C02/C03 on a stream of records of ONE schedule.
type Oracle struct {
	nodes        map[uint64]*nodeTrack
	leaderOf     map[uint64]uint64  // term -> node
	chosen       map[uint64]EntProj // index -> entry handed out as committed somewhere
	chosenAt     map[uint64]int     // index -> seq of first hand-out
	snapTerm     map[uint64]uint64  // index -> term of a snapshot applied at that index
	applied      map[uint64]EntProj // index -> entry applied by some application
	maxIdx       uint64
	V            []Violation
	S            Stats
	terms        map[uint64]bool
	msgType      map[int]int
	pending      map[uint64]*ReadyProj // Ready returned by StepNode, not yet published to the application
	snapPend     map[uint64]*SnapProj  // snapshot of a Ready returned by StepNode, not yet persisted
	granted      map[[2]uint64]uint64  // (node, term) -> candidate it sent a granting MsgVoteResp to
	bootMember   map[uint64]bool       // alive in record 0: bootstrapped with the full peer list
	emptyRestart map[uint64]bool       // such a node restarted from a completely empty storage
	tainted      string
}

func NewOracle() *Oracle {
	return &Oracle{nodes: map[uint64]*nodeTrack{}, leaderOf: map[uint64]uint64{}, chosen: map[uint64]EntProj{},
		chosenAt: map[uint64]int{}, msgType: map[int]int{}, pending: map[uint64]*ReadyProj{}, granted: map[[2]uint64]uint64{}, bootMember: map[uint64]bool{}, emptyRestart: map[uint64]bool{}, snapTerm: map[uint64]uint64{}, applied: map[uint64]EntProj{}, terms: map[uint64]bool{},
		S: Stats{CrashStage: map[string]int{}}}
}

func (o *Oracle) viol(prop, rule string, seq int, f string, a ...interface{}) {
	if len(o.V) < 50 {
		o.V = append(o.V, Violation{Prop: prop, Rule: rule, Seq: seq, What: fmt.Sprintf(f, a...), Class: o.tainted})
	}
}

func sameEnt(a, b EntProj) bool { return a.T == b.T && a.K == b.K && a.P == b.P && a.X == b.X }

func inList(x uint64, l []uint64) bool {
	for _, y := range l {
		if x == y {
			return true
		}
	}
	return false
}

func (o *Oracle) track(id uint64) *nodeTrack {
	t := o.nodes[id]
	if t == nil {
		t = &nodeTrack{everApplied: map[uint64]bool{}}
		o.nodes[id] = t
	}
	return t
}

// selfLearner: the node is a learner in its own configuration.
func selfLearner(s *NodeState) bool {
	return s.Alive && (s.Learner || inList(s.ID, s.Learners))
}

func (o *Oracle) recordChosen(seq int, who uint64, e EntProj, how string) {
	if old, ok := o.chosen[e.I]; ok {
		if !sameEnt(old, e) {
			o.viol("C02", "handout-agree", seq, "index %d handed out as %+v by node %d (%s) but earlier as %+v (seq %d)", e.I, e, who, how, old, o.chosenAt[e.I])
		}
		return
	}
	if t, ok := o.snapTerm[e.I]; ok && t != e.T {
		o.viol("C02", "handout-vs-snapshot", seq, "index %d handed out with term %d by node %d but a snapshot at that index has term %d", e.I, e.T, who, t)
	}
	o.chosen[e.I] = e
	o.S.Chosen++
	o.chosenAt[e.I] = seq
	if e.I > o.maxIdx {
		o.maxIdx = e.I
	}
}

func (o *Oracle) recordSnap(seq int, who uint64, i, t uint64) {
	if e, ok := o.chosen[i]; ok && e.T != t {
		o.viol("C02", "snapshot-vs-handout", seq, "node %d installs snapshot (index %d, term %d) but index %d was handed out with term %d", who, i, t, i, e.T)
	}
	if old, ok := o.snapTerm[i]; ok && old != t {
		o.viol("C02", "snapshot-agree", seq, "snapshots at index %d with terms %d and %d", i, old, t)
	}
	o.snapTerm[i] = t
}

// hasEntry: does the node's log (or its compacted prefix) hold e at e.I ?
// returns (present, covered-by-snapshot)
func hasEntry(s *NodeState, e EntProj) (bool, bool, string) {
	if e.I < s.First {
		if e.I == s.First-1 && s.Dummy != 0 && s.Dummy != e.T {
			return false, true, fmt.Sprintf("compacted boundary term %d", s.Dummy)
		}
		return true, true, ""
	}
	if e.I > s.Last {
		return false, false, fmt.Sprintf("log ends at %d", s.Last)
	}
	if len(s.Log) == 0 {
		return false, false, "empty log projection"
	}
	k := int(e.I - s.Log[0].I)
	if k < 0 || k >= len(s.Log) || s.Log[k].I != e.I {
		return false, false, "index missing from log projection"
	}
	if !sameEnt(s.Log[k], e) {
		return false, false, fmt.Sprintf("log holds %+v", s.Log[k])
	}
	return true, false, ""
}

// Feed consumes the next record.
func (o *Oracle) Feed(rec *Record) {
	o.S.Records++
	seq := rec.S
	ev := rec.Ev
	if rec.Panic != "" {
		// a panicking replica applies nothing any more (C02) and has not survived (C03)
		o.viol("C02", "panic", seq, "Go panic during %s at node %d: %s", ev.K, ev.N, rec.Panic)
		o.viol("C03", "panic", seq, "Go panic during %s at node %d: %s", ev.K, ev.N, rec.Panic)
	}
	var pre NodeState
	havePre := false
	if t := o.nodes[ev.N]; t != nil && t.have {
		pre, havePre = t.last, true
	}
	switch ev.K {
	case "deliver":
		if rec.Res == "" {
			o.S.Delivered++
		}
	case "drop":
		o.S.Drops++
	case "crash":
		if rec.Res == "" && havePre {
			o.S.Crashes++
			if len(pre.InFlight) > 0 {
				o.S.CrashesMidReady++
				o.S.CrashStage[pre.InFlight[0]]++
			}
		}
	case "restart":
		if (rec.Res == "" || rec.Res == "fresh-start") && rec.Panic == "" {
			if havePre && o.bootMember[ev.N] && pre.Disk != nil && pre.Disk.Last == 0 && pre.Disk.SI == 0 && pre.Disk.Term == 0 && pre.Disk.Commit == 0 {
				o.emptyRestart[ev.N] = true
				o.S.EmptyRestarts++
			}
			o.S.Restarts++
			t := o.track(ev.N)
			t.incarnation++
			t.handedAny, t.appAny = false, false
			t.wasLeaderAt = 0
		}
	case "compact":
		if rec.Res == "" {
			o.S.Compactions++
		}
	case "step":
		o.S.Steps++
	}
	for _, m := range rec.Add {
		if m.Msg.Type == 7 {
			o.S.MsgSnapSent++
		}
		// what leaves a node must be backed by what it has persisted (checked at the moment of sending)
		if m.Msg.Type == 6 && !m.Msg.Reject {
			o.S.VoteGrantsSent++
			k := [2]uint64{m.Msg.From, m.Msg.Term}
			if c, ok := o.granted[k]; ok && c != m.Msg.To {
				for _, pp := range []string{"C01", "C02", "C03"} {
					o.viol(pp, "double-vote", seq, "node %d grants its term-%d vote to %d after granting it to %d", m.Msg.From, m.Msg.Term, m.Msg.To, c)
				}
			}
			o.granted[k] = m.Msg.To
			if d := rec.SD; d != nil && !(d.Term > m.Msg.Term || (d.Term == m.Msg.Term && d.Vote == m.Msg.To)) {
				o.viol("C01", "vote-not-durable", seq, "node %d sends a granting MsgVoteResp(term %d) to %d while its persisted hard state is term %d vote %d",
					m.Msg.From, m.Msg.Term, m.Msg.To, d.Term, d.Vote)
				o.viol("C03", "vote-not-durable", seq, "node %d sends a granting MsgVoteResp(term %d) to %d while its persisted hard state is term %d vote %d",
					m.Msg.From, m.Msg.Term, m.Msg.To, d.Term, d.Vote)
				o.viol("C02", "vote-not-durable", seq, "node %d sends a granting MsgVoteResp(term %d) to %d while its persisted hard state is term %d vote %d",
					m.Msg.From, m.Msg.Term, m.Msg.To, d.Term, d.Vote)
			}
		}
		if m.Msg.Type == 4 && !m.Msg.Reject {
			o.S.AcksSent++
			if d := rec.SD; d != nil && m.Msg.Index > d.Last && m.Msg.Index > d.SI {
				o.viol("C03", "ack-not-durable", seq, "node %d acknowledges index %d (term %d) to %d while its persisted log ends at %d (snapshot %d)",
					m.Msg.From, m.Msg.Index, m.Msg.Term, m.Msg.To, d.Last, d.SI)
			}
			if d := rec.SD; d != nil && d.Term < m.Msg.Term {
				o.viol("C03", "ack-term-not-durable", seq, "node %d acknowledges in term %d while its persisted term is %d", m.Msg.From, m.Msg.Term, d.Term)
			}
		}
	}

	// ---- Ready returned by StepNode ----
	if rec.Rd != nil {
		o.S.Readys++
		rd := rec.Rd
		o.pending[ev.N] = rd
		if rd.Snap != nil {
			if o.snapPend == nil {
				o.snapPend = map[uint64]*SnapProj{}
			}
			o.snapPend[ev.N] = rd.Snap
		}
		for _, mb := range rd.MsgBodies {
			o.msgType[mb.ID] = mb.Msg.Type
		}
		// message contents against the sender's own state after the step
		var post *NodeState
		for i := range rec.Nodes {
			if rec.Nodes[i].ID == ev.N {
				post = &rec.Nodes[i]
			}
		}
		if post != nil && post.Alive {
			for _, mb := range rd.MsgBodies {
				m := mb.Msg
				switch m.Type {
				case 8: // MsgHeartbeat: the commit index offered must not exceed what the follower is known to hold
					if post.Role == 2 && post.Term == m.Term {
						for _, pr := range post.Prs {
							if pr.ID == m.To {
								o.S.HeartbeatsChecked++
								if m.Commit > pr.Match {
									o.viol("C03", "heartbeat-commit-above-match", seq, "leader %d sends a heartbeat with commit %d to %d whose match index is %d", ev.N, m.Commit, m.To, pr.Match)
									o.viol("C02", "heartbeat-commit-above-match", seq, "leader %d sends a heartbeat with commit %d to %d whose match index is %d", ev.N, m.Commit, m.To, pr.Match)
								}
							}
						}
					}
				case 3: // MsgApp: prev entry and entries are a slice of the sender's log
					if post.Role == 2 && post.Term == m.Term && len(post.Log) > 0 {
						at := func(i uint64) (EntProj, bool) {
							k := int(i) - int(post.Log[0].I)
							if k >= 0 && k < len(post.Log) && post.Log[k].I == i {
								return post.Log[k], true
							}
							return EntProj{}, false
						}
						o.S.AppendsChecked++
						if e, ok := at(m.Index); ok && e.T != m.LogTerm {
							o.viol("C02", "msgapp-prev-not-from-log", seq, "leader %d sends MsgApp with prev (%d, term %d) but its log has term %d there", ev.N, m.Index, m.LogTerm, e.T)
						}
						for k, me := range m.Ents {
							if me.I != m.Index+1+uint64(k) {
								o.viol("C02", "msgapp-not-contiguous", seq, "leader %d sends MsgApp after %d whose entry %d has index %d", ev.N, m.Index, k, me.I)
								break
							}
							if e, ok := at(me.I); ok && !sameEnt(e, me) {
								o.viol("C02", "msgapp-not-from-log", seq, "leader %d sends entry %+v but its log holds %+v", ev.N, me, e)
								break
							}
						}
						if m.Commit > post.Commit {
							o.viol("C02", "msgapp-commit-above-own", seq, "leader %d sends commit %d above its own commit %d", ev.N, m.Commit, post.Commit)
						}
					}
				}
			}
		}
		// C01: vote responses from a learner
		if havePre {
			for _, mb := range rd.MsgBodies {
				if mb.Msg.Type == 6 || mb.Msg.Type == 18 {
					post := pre
					for i := range rec.Nodes {
						if rec.Nodes[i].ID == ev.N {
							post = rec.Nodes[i]
						}
					}
					// a REJECTION is no vote: Step answers a pre-vote of a stale term with reject=true before it looks at the
					// receiver's role (raft.go Step, m.Term < r.Term), also on a learner; only a grant is a learner voting
					if selfLearner(&pre) && selfLearner(&post) && !mb.Msg.Reject {
						o.viol("C01", "learner-vote-response", seq, "node %d is a learner in its own configuration and emitted message type %d (reject=%v) to %d at term %d",
							ev.N, mb.Msg.Type, mb.Msg.Reject, mb.Msg.To, mb.Msg.Term)
					}
				}
			}
		}
	}
	if ev.K == "crash" || ev.K == "restart" {
		delete(o.pending, ev.N)
		delete(o.snapPend, ev.N)
	}
	// ---- a persisted snapshot carries its membership: what the storage holds after the Ready's snapshot was saved is
	//      what a restart (InitialState) starts from ----
	if sn := o.snapPend[ev.N]; ev.K == "ready" && sn != nil && hasStage(rec.Sub, "phs") {
		delete(o.snapPend, ev.N)
		for i := range rec.Nodes {
			if d := rec.Nodes[i].Disk; rec.Nodes[i].ID == ev.N && d != nil && d.SI == sn.I {
				if fmt.Sprint(d.SVoters) != fmt.Sprint(sn.Voters) || fmt.Sprint(d.SLearners) != fmt.Sprint(sn.Learners) {
					o.viol("C01", "snapshot-membership-not-persisted", seq, "node %d persisted the snapshot at %d of its Ready but the storage's snapshot holds voters %v learners %v instead of %v / %v (a restart starts from that membership)",
						ev.N, sn.I, d.SVoters, d.SLearners, sn.Voters, sn.Learners)
				}
			}
		}
	}
	// ---- hand-out: the Ready's committed entries / snapshot reach the application ("publish") ----
	if ev.K == "ready" && hasStage(rec.Sub, "publish") && o.pending[ev.N] != nil {
		t := o.track(ev.N)
		rd := o.pending[ev.N]
		delete(o.pending, ev.N)
		if rd.Snap != nil {
			if len(rd.CEnts) > 0 {
				o.S.ReadySnapWithCommitted++
			}
			o.recordSnap(seq, ev.N, rd.Snap.I, rd.Snap.T)
			if t.handedAny && rd.Snap.I <= t.handed {
				o.viol("C02", "handout-snapshot-backwards", seq, "node %d handed a snapshot at %d after handing out index %d", ev.N, rd.Snap.I, t.handed)
			}
			t.handed, t.handedAny = rd.Snap.I, true
		}
		for k, e := range rd.CEnts {
			o.S.HandOuts++
			if t.handedAny {
				if e.I != t.handed+1 {
					o.viol("C02", "handout-gap", seq, "node %d hands out index %d after %d (not consecutive)", ev.N, e.I, t.handed)
				}
			} else if k == 0 && havePre {
				// first hand-out of this incarnation must connect to the application's cursor
				if e.I > pre.App.Applied+1 {
					o.viol("C02", "handout-gap-after-restart", seq, "node %d first hands out index %d but the application is at %d", ev.N, e.I, pre.App.Applied)
				}
			}
			t.handed, t.handedAny = e.I, true
			o.recordChosen(seq, ev.N, e, "Ready.CommittedEntries")
		}
	}

	// ---- application ----
	for _, a := range rec.Applied {
		t := o.track(a.N)
		e := a.E
		switch e.K {
		case "GAP":
			o.viol("C02", "apply-gap", seq, "node %d application at %d is handed index %d", a.N, e.P, e.I)
			continue
		case "S":
			o.S.SnapshotsInstalled++
			o.recordSnap(seq, a.N, e.I, e.T)
			if t.appAny && e.I <= t.appLast {
				o.viol("C02", "apply-snapshot-backwards", seq, "node %d applies snapshot %d at cursor %d", a.N, e.I, t.appLast)
			}
			t.appLast, t.appAny = e.I, true
			continue
		}
		o.S.Applies++
		if e.K == "C" {
			o.S.ConfApplied++
		}
		if t.appAny && e.I != t.appLast+1 {
			o.viol("C02", "apply-order", seq, "node %d applies index %d after %d", a.N, e.I, t.appLast)
		}
		t.appLast, t.appAny = e.I, true
		if old, ok := o.applied[e.I]; ok {
			if !sameEnt(old, e) {
				o.viol("C02", "apply-agree", seq, "node %d applies %+v at index %d but %+v was applied there before", a.N, e, e.I, old)
			}
			if t.everApplied[e.I] {
				o.S.AppliedAfterRestartCompared++
			}
		} else {
			o.applied[e.I] = e
		}
		t.everApplied[e.I] = true
		if c, ok := o.chosen[e.I]; ok && !sameEnt(c, e) {
			o.viol("C03", "apply-vs-committed", seq, "node %d applies %+v at index %d but %+v was reported committed (seq %d)", a.N, e, e.I, c, o.chosenAt[e.I])
		}
	}

	// ---- node states ----
	for i := range rec.Nodes {
		s := &rec.Nodes[i]
		if rec.S == 0 && rec.Ev.K == "init" && s.Alive {
			o.bootMember[s.ID] = true
		}
		t := o.track(s.ID)
		prev := t.last
		hadPrev := t.have
		t.last, t.have = *s, true
		if !s.Alive {
			t.wasLeaderAt = 0
			continue
		}
		if s.StorageTail {
			o.S.StorageTailStates++
		}
		if s.LogErr != "" {
			o.viol("C02", "log-unreadable", seq, "node %d log cannot be read: %s", s.ID, s.LogErr)
		}
		if s.Term > o.S.MaxTerm {
			o.S.MaxTerm = s.Term
		}
		lrn := selfLearner(s)
		if lrn {
			o.S.LearnerSeen = true
			if s.Role != 0 {
				o.viol("C01", "learner-role", seq, "node %d is a learner in its own configuration and has role %d at term %d", s.ID, s.Role, s.Term)
			}
		}
		// votes counted from learners (of the candidate's own configuration)
		for _, v := range s.Votes {
			if v[1] == 1 && inList(v[0], s.Learners) {
				was := false
				if hadPrev {
					for _, pv := range prev.Votes {
						if pv[0] == v[0] {
							was = true
						}
					}
				}
				if !was {
					o.viol("C01", "learner-vote-counted", seq, "node %d counts a granted vote from %d which is a learner in its configuration (term %d)", s.ID, v[0], s.Term)
				}
			}
		}
		if s.Role == 2 {
			if l, ok := o.leaderOf[s.Term]; ok && l != s.ID {
				o.viol("C01", "two-leaders", seq, "nodes %d and %d are both leader in term %d", l, s.ID, s.Term)
			} else if !ok {
				o.leaderOf[s.Term] = s.ID
				o.S.LeadersElected++
				if !o.terms[s.Term] {
					o.terms[s.Term] = true
					o.S.Terms++
				}
			}
			if t.wasLeaderAt != s.Term {
				// newly became leader: C03 (a) every entry reported committed before is in its log
				t.wasLeaderAt = s.Term
				idxs := make([]uint64, 0, len(o.chosen))
				for k := range o.chosen {
					idxs = append(idxs, k)
				}
				sort.Slice(idxs, func(a, b int) bool { return idxs[a] < idxs[b] })
				for _, k := range idxs {
					o.S.LeaderChecks++
					ok, _, why := hasEntry(s, o.chosen[k])
					if !ok {
						o.viol("C03", "leader-missing-committed", seq, "node %d became leader at term %d without committed entry %+v (handed out at seq %d): %s",
							s.ID, s.Term, o.chosen[k], o.chosenAt[k], why)
						break
					}
				}
			}
			if s.Term < o.S.MaxTerm && ev.K == "step" && ev.N == s.ID {
				o.S.StaleLeaderSteps++
			}
		} else {
			t.wasLeaderAt = 0
		}
		// a leader advances its commit index only to an entry that a majority of its voters hold durably
		if s.Role == 2 && hadPrev && prev.Alive && prev.Role == 2 && prev.Term == s.Term && s.Commit > prev.Commit && len(s.Log) > 0 {
			c := s.Commit
			k := int(c) - int(s.Log[0].I)
			if k >= 0 && k < len(s.Log) && s.Log[k].I == c {
				te := s.Log[k].T
				have := 0
				for _, v := range s.Voters {
					if v == s.ID {
						have++
						continue
					}
					vt := o.nodes[v]
					if vt == nil || !vt.have || vt.last.Disk == nil {
						continue
					}
					d := vt.last.Disk
					if d.SI > c || (d.SI == c && d.ST == te) {
						have++
						continue
					}
					if len(d.Log) > 0 {
						j := int(c) - int(d.Log[0].I)
						if j >= 0 && j < len(d.Log) && d.Log[j].I == c && d.Log[j].T == te {
							have++
						}
					}
				}
				o.S.CommitQuorumChecks++
				if have < len(s.Voters)/2+1 {
					o.viol("C02", "commit-without-quorum", seq, "leader %d (term %d) commits index %d (entry term %d) held durably by %d of its %d voters", s.ID, s.Term, c, te, have, len(s.Voters))
					o.viol("C03", "commit-without-quorum", seq, "leader %d (term %d) commits index %d (entry term %d) held durably by %d of its %d voters", s.ID, s.Term, c, te, have, len(s.Voters))
				}
			}
		}
		// applied <= committed <= last, and the log below commit agrees with what was chosen
		if s.Applied > s.Commit || s.Commit > s.Last {
			o.viol("C02", "cursor-order", seq, "node %d applied %d commit %d last %d", s.ID, s.Applied, s.Commit, s.Last)
		}
	}
	if ev.K == "deliver" && rec.Res == "" && havePre && selfLearner(&pre) {
		if ty := o.msgType[ev.M]; ty == 5 || ty == 17 {
			o.S.VoteReqToLearner++
		}
	}
}

func hasStage(sub, st string) bool {
	for _, x := range strings.Split(sub, ",") {
		if x == st {
			return true
		}
	}
	return false
}
