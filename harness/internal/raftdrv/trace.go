package raftdrv

import (
	"encoding/binary"
	"encoding/json"
	"fmt"
	"math"
	"os"
	"path/filepath"

	"github.com/youzan/ZanRedisDB/engine"
	"github.com/youzan/ZanRedisDB/raft"
	pb "github.com/youzan/ZanRedisDB/raft/raftpb"
)

// EntProj is the projection of a log entry: K = "E" (empty normal entry), "N" (normal, payload
// id P), "C" (conf change: type P, replica X), "S" (snapshot up to I; only in applied lists).
type EntProj struct {
	I uint64 `json:"i"`
	T uint64 `json:"t"`
	K string `json:"k"`
	P uint64 `json:"p,omitempty"`
	X uint64 `json:"x,omitempty"`
}

type SnapProj struct {
	I        uint64   `json:"i"`
	T        uint64   `json:"t"`
	Voters   []uint64 `json:"voters"`
	Learners []uint64 `json:"learners,omitempty"`
}

type MsgProj struct {
	Type    int       `json:"type"`
	From    uint64    `json:"from"`
	To      uint64    `json:"to"`
	Term    uint64    `json:"term"`
	LogTerm uint64    `json:"logterm,omitempty"`
	Index   uint64    `json:"index,omitempty"`
	Commit  uint64    `json:"commit,omitempty"`
	Reject  bool      `json:"reject,omitempty"`
	Hint    uint64    `json:"hint,omitempty"`
	Ctx     string    `json:"ctx,omitempty"`
	Ents    []EntProj `json:"ents,omitempty"`
	Snap    *SnapProj `json:"snap,omitempty"`
}

type MsgRec struct {
	ID  int     `json:"id"`
	Msg MsgProj `json:"msg"`
}

type SoftProj struct {
	Lead uint64 `json:"lead"`
	Role int    `json:"role"`
}
type HSProj struct {
	Term   uint64 `json:"term"`
	Vote   uint64 `json:"vote"`
	Commit uint64 `json:"commit"`
}

type ReadyProj struct {
	Soft      *SoftProj `json:"soft,omitempty"`
	HS        *HSProj   `json:"hs,omitempty"`
	Ents      []EntProj `json:"ents,omitempty"`
	CEnts     []EntProj `json:"cents,omitempty"`
	More      bool      `json:"more,omitempty"`
	Snap      *SnapProj `json:"snap,omitempty"`
	Msgs      []int     `json:"msgs,omitempty"`
	MsgBodies []MsgRec  `json:"msgbodies,omitempty"`
	Sync      bool      `json:"sync,omitempty"`
	NewLeader bool      `json:"newleader,omitempty"`
	Wait      bool      `json:"wait,omitempty"`
	Stages    []string  `json:"stages,omitempty"`
}

type AppliedRec struct {
	N uint64  `json:"n"`
	E EntProj `json:"e"`
}

type PrProj struct {
	ID      uint64 `json:"id"`
	Match   uint64 `json:"match"`
	Next    uint64 `json:"next"`
	State   int    `json:"state"`
	Learner bool   `json:"learner,omitempty"`
	Paused  bool   `json:"paused,omitempty"`
	Recent  bool   `json:"recent,omitempty"`
}

type AppProj struct {
	Applied  uint64   `json:"applied"`
	SnapI    uint64   `json:"snapi"`
	Voters   []uint64 `json:"voters,omitempty"`
	Learners []uint64 `json:"learners,omitempty"`
}

type DiskProj struct {
	Term      uint64    `json:"term"`
	Vote      uint64    `json:"vote"`
	Commit    uint64    `json:"commit"`
	SI        uint64    `json:"si"`
	ST        uint64    `json:"st"`
	SVoters   []uint64  `json:"svoters,omitempty"`
	SLearners []uint64  `json:"slearners,omitempty"`
	First     uint64    `json:"first"`
	Last      uint64    `json:"last"`
	Dummy     uint64    `json:"dummy"`
	Log       []EntProj `json:"log,omitempty"`
	Err       string    `json:"err,omitempty"`
}

type NodeState struct {
	ID          uint64      `json:"id"`
	Alive       bool        `json:"alive"`
	Born        bool        `json:"born"`
	Removed     bool        `json:"removed,omitempty"`
	Term        uint64      `json:"term"`
	Vote        uint64      `json:"vote"`
	Role        int         `json:"role"`
	Lead        uint64      `json:"lead"`
	Commit      uint64      `json:"commit"`
	Applied     uint64      `json:"applied"`
	First       uint64      `json:"first"`
	Last        uint64      `json:"last"`
	UOff        uint64      `json:"uoff"`
	Learner     bool        `json:"learner,omitempty"`
	Voters      []uint64    `json:"voters,omitempty"`
	Learners    []uint64    `json:"learners,omitempty"`
	Votes       [][2]uint64 `json:"votes,omitempty"`
	Prs         []PrProj    `json:"prs,omitempty"`
	USnap       *SnapProj   `json:"usnap,omitempty"`
	Dummy       uint64      `json:"dummy"`
	Log         []EntProj   `json:"log,omitempty"`
	LogErr      string      `json:"logerr,omitempty"`
	StorageTail bool        `json:"storage_tail,omitempty"` // the log was read from the storage beyond unstable.offset (see project)
	Transfer    uint64      `json:"transferee,omitempty"`
	PendConf    bool        `json:"pendingconf,omitempty"`
	Elapsed     int         `json:"elapsed"`
	RandTmo     int         `json:"randtmo"`
	InFlight    []string    `json:"inflight,omitempty"`
	AQ          int         `json:"aq,omitempty"`
	Blocked     bool        `json:"blocked,omitempty"`
	App         AppProj     `json:"app"`
	Disk        *DiskProj   `json:"disk,omitempty"`
}

// Record is one line of the trace.
type Record struct {
	S       int          `json:"s"`
	Ev      Event        `json:"ev"`
	Res     string       `json:"res,omitempty"`
	Panic   string       `json:"panic,omitempty"`
	Rd      *ReadyProj   `json:"rd,omitempty"`
	Sub     string       `json:"sub,omitempty"`
	Applied []AppliedRec `json:"applied,omitempty"`
	Add     []MsgRec     `json:"add,omitempty"`
	SD      *DiskProj    `json:"sd,omitempty"` // the sender's durable state at the moment its messages left (send sub-step; no log)
	Del     []int        `json:"del,omitempty"`
	Nodes   []NodeState  `json:"nodes,omitempty"`
}

func projEnt(e pb.Entry) EntProj {
	p := EntProj{I: e.Index, T: e.Term}
	switch {
	case e.Type == pb.EntryConfChange:
		p.K = "C"
		var cc pb.ConfChange
		if err := cc.Unmarshal(e.Data); err == nil {
			p.P = uint64(cc.Type)
			p.X = cc.ReplicaID
		} else {
			p.K = "C?"
		}
	case len(e.Data) == 0:
		p.K = "E"
	case len(e.Data) >= 8:
		p.K = "N"
		p.P = binary.BigEndian.Uint64(e.Data[:8])
	default:
		p.K = "N?"
	}
	return p
}

func projEnts(es []pb.Entry) []EntProj {
	if len(es) == 0 {
		return nil
	}
	out := make([]EntProj, len(es))
	for i, e := range es {
		out[i] = projEnt(e)
	}
	return out
}

func projSnap(s pb.Snapshot) *SnapProj {
	return &SnapProj{I: s.Metadata.Index, T: s.Metadata.Term,
		Voters: sortedU(s.Metadata.ConfState.Nodes), Learners: sortedU(s.Metadata.ConfState.Learners)}
}

func sortedU(x []uint64) []uint64 {
	if len(x) == 0 {
		return nil
	}
	out := append([]uint64(nil), x...)
	for i := 1; i < len(out); i++ {
		for j := i; j > 0 && out[j] < out[j-1]; j-- {
			out[j], out[j-1] = out[j-1], out[j]
		}
	}
	return out
}

func projMsg(m pb.Message) MsgProj {
	p := MsgProj{Type: int(m.Type), From: m.From, To: m.To, Term: m.Term, LogTerm: m.LogTerm, Index: m.Index,
		Commit: m.Commit, Reject: m.Reject, Hint: m.RejectHint, Ctx: string(m.Context), Ents: projEnts(m.Entries)}
	if len(m.Context) == 8 {
		p.Ctx = fmt.Sprintf("r%d", binary.BigEndian.Uint64(m.Context))
	}
	if !raft.IsEmptySnap(m.Snapshot) {
		p.Snap = projSnap(m.Snapshot)
	}
	return p
}

func (c *Cluster) diskProj(nd *nodeRT) (d *DiskProj) {
	d = &DiskProj{}
	defer func() {
		if e := recover(); e != nil {
			d.Err = "panic:" + fmt.Sprint(e)
		}
	}()
	hs, _, err := nd.st.InitialState()
	if err != nil {
		d.Err = errName(err)
		return
	}
	d.Term, d.Vote, d.Commit = hs.Term, hs.Vote, hs.Commit
	snap, err := nd.st.Snapshot()
	if err == nil {
		d.SI, d.ST = snap.Metadata.Index, snap.Metadata.Term
		d.SVoters, d.SLearners = sortedU(snap.Metadata.ConfState.Nodes), sortedU(snap.Metadata.ConfState.Learners)
	}
	d.First, _ = nd.st.FirstIndex()
	d.Last, _ = nd.st.LastIndex()
	if t, err := nd.st.Term(d.First - 1); err == nil {
		d.Dummy = t
	}
	if d.Last >= d.First {
		ents, err := nd.st.Entries(d.First, d.Last+1, math.MaxUint64)
		if err != nil {
			d.Err = "entries:" + errName(err)
		}
		d.Log = projEnts(ents)
	}
	return d
}

func (c *Cluster) nodeState(nd *nodeRT) NodeState {
	s := NodeState{ID: nd.id, Alive: nd.alive, Born: nd.born, Removed: nd.removed}
	s.App = AppProj{Applied: nd.app.applied, SnapI: nd.app.snapi, Voters: sortedU(nd.app.conf.Nodes), Learners: sortedU(nd.app.conf.Learners)}
	if nd.born {
		s.Disk = c.diskProj(nd)
	}
	if !nd.alive {
		return s
	}
	st, _ := raft.VerifRaftState(nd.n, true)
	s.Term, s.Vote, s.Role, s.Lead = st.Term, st.Vote, st.State, st.Lead
	s.Commit, s.Applied, s.First, s.Last, s.UOff = st.Committed, st.Applied, st.FirstIndex, st.LastIndex, st.UnstableOffset
	s.Learner = st.IsLearner
	for _, p := range st.Prs {
		s.Voters = append(s.Voters, p.ID)
		s.Prs = append(s.Prs, PrProj{ID: p.ID, Match: p.Match, Next: p.Next, State: p.State, Paused: p.Paused, Recent: p.RecentActive})
	}
	for _, p := range st.LearnerPrs {
		s.Learners = append(s.Learners, p.ID)
		s.Prs = append(s.Prs, PrProj{ID: p.ID, Match: p.Match, Next: p.Next, State: p.State, Learner: true, Paused: p.Paused, Recent: p.RecentActive})
	}
	for _, v := range st.Votes {
		g := uint64(0)
		if v.Granted {
			g = 1
		}
		s.Votes = append(s.Votes, [2]uint64{v.ID, g})
	}
	if st.HasUnstableSnap {
		s.USnap = &SnapProj{I: st.UnstableSnapIndex, T: st.UnstableSnapTerm, Voters: sortedU(st.UnstableSnapVoters), Learners: sortedU(st.UnstableSnapLearners)}
	}
	s.Dummy = st.DummyTerm
	s.LogErr = st.LogErr
	if st.LogErr != "" && st.UnstableLen == 0 && !st.HasUnstableSnap && st.LastIndex >= st.UnstableOffset && st.FirstIndex <= st.LastIndex {
		// RocksStorage.ApplySnapshot keeps the keys above the snapshot index: once the unstable snapshot is stabilised,
		// lastIndex() comes from the storage and lies beyond unstable.offset-1 (nothing unstable). The hook's one-piece
		// slice(first, last+1) is a read production never issues in that state (only a leader slices its tail, and such
		// a node cannot win an election); term() and a restart read those entries from the storage, so does the projection.
		if ents, err := nd.st.Entries(st.FirstIndex, st.LastIndex+1, ^uint64(0)); err == nil {
			s.LogErr = ""
			s.StorageTail = true
			st.Log = st.Log[:0]
			for _, e := range ents {
				st.Log = append(st.Log, raft.VerifEntry{Index: e.Index, Term: e.Term, Type: int32(e.Type), Data: e.Data, Size: e.Size()})
			}
		}
	}
	for _, e := range st.Log {
		s.Log = append(s.Log, projEnt(pb.Entry{Index: e.Index, Term: e.Term, Type: pb.EntryType(e.Type), Data: e.Data}))
	}
	s.Transfer, s.PendConf = st.LeadTransferee, st.PendingConf
	s.Elapsed, s.RandTmo = st.ElectionElapsed, st.RandomizedElectionTimeout
	s.InFlight = append([]string(nil), nd.stages...)
	s.AQ = len(nd.applyQ)
	s.Blocked = nd.blocked != nil
	return s
}

// finish fills rec.Nodes with the states that changed and calls the observer.
func (c *Cluster) finish(rec *Record, all bool) {
	for _, id := range c.ids {
		nd := c.nodes[id]
		// an event touches only its own node (and, for conf, the node it may boot)
		if !all && id != rec.Ev.N && !(rec.Ev.K == "conf" && id == rec.Ev.X) {
			continue
		}
		var s NodeState
		func() {
			defer func() {
				if e := recover(); e != nil {
					if rec.Panic == "" {
						rec.Panic = "projection: " + fmt.Sprint(e)
						c.Panic = rec.Panic
					}
				}
			}()
			s = c.nodeState(nd)
		}()
		b, _ := json.Marshal(s)
		k := string(b)
		if all || k != nd.lastKey {
			nd.lastKey = k
			rec.Nodes = append(rec.Nodes, s)
		}
	}
	if c.OnRecord != nil {
		c.OnRecord(rec)
	}
}

// ---- storages ----

func newStorage(opt Options, id uint64) (raft.IExtRaftStorage, func(), error) {
	switch opt.Storage {
	case "mem":
		return raft.NewRealMemoryStorage(), func() {}, nil
	case "rocks-mem", "rocks-pebble":
		dir := filepath.Join(opt.Dir, fmt.Sprintf("n%d", id))
		if err := os.MkdirAll(dir, 0755); err != nil {
			return nil, nil, err
		}
		engine.SetLogLevel(0)
		cfg := engine.NewRockConfig()
		cfg.DataDir = dir
		cfg.DisableWAL = true
		cfg.EngineType = "mem"
		if opt.Storage == "rocks-pebble" {
			cfg.EngineType = "pebble"
		}
		scf, _ := engine.NewSharedEngConfig(cfg.RockOptions)
		cfg.SharedConfig = scf
		db, err := engine.NewKVEng(cfg)
		if err != nil {
			return nil, nil, err
		}
		if err := db.OpenEng(); err != nil {
			return nil, nil, err
		}
		st := raft.NewRocksStorage(id, groupID, false, db)
		return st, func() { st.Close(); os.RemoveAll(dir) }, nil
	}
	return nil, nil, fmt.Errorf("unknown storage %q", opt.Storage)
}

// reopenStorage: what survives a crash is the key-value engine plus the hard state and snapshot
// meta (in production: WAL and snapshot files). For RocksStorage a FRESH storage object is built
// over the same engine, as a process restart does (node/raft.go replayWAL: ApplySnapshot,
// SetHardState), so that nothing cached in the old object leaks across the crash.
func reopenStorage(nd *nodeRT) error {
	old, ok := nd.st.(*raft.RocksStorage)
	if !ok {
		return nil
	}
	hs, _, err := old.InitialState()
	if err != nil {
		return err
	}
	snap, err := old.Snapshot()
	if err != nil {
		return err
	}
	st := raft.NewRocksStorage(nd.id, groupID, false, old.Eng())
	if !raft.IsEmptySnap(snap) {
		if err := st.ApplySnapshot(snap); err != nil {
			return err
		}
	}
	if err := st.SetHardState(hs); err != nil {
		return err
	}
	nd.st = st
	dir := old.Eng().GetDataDir()
	nd.closeSt = func() { st.Close(); os.RemoveAll(filepath.Dir(dir)) }
	return nil
}
