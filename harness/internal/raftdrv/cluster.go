package raftdrv

import (
	"encoding/binary"
	"fmt"
	"sort"
	"strings"
	"time"

	"context"
	znode "github.com/youzan/ZanRedisDB/node"
	"github.com/youzan/ZanRedisDB/raft"
	pb "github.com/youzan/ZanRedisDB/raft/raftpb"
)

// Options describes one cluster configuration.
type Options struct {
	Universe      int    `json:"universe"` // node ids 1..Universe exist (some not yet started)
	Voters        int    `json:"voters"`   // ids 1..Voters form the initial voter set
	PreVote       bool   `json:"prevote"`
	CheckQuorum   bool   `json:"checkquorum"`
	MaxSizePerMsg uint64 `json:"maxsize"`                // 0 or MaxUint64
	MaxCommitted  uint64 `json:"maxcommitted,omitempty"` // MaxCommittedSizePerReady (0 = same as MaxSizePerMsg)
	ElectionTick  int    `json:"etick"`
	HeartbeatTick int    `json:"htick"`
	MaxInflight   int    `json:"inflight"`
	Storage       string `json:"storage"` // mem | rocks-mem | rocks-pebble
	Dir           string `json:"-"`
}

// Event is one scheduler decision (see doc.go).
type Event struct {
	K      string `json:"k"`
	N      uint64 `json:"n,omitempty"`
	M      int    `json:"m,omitempty"`
	Rnd    uint32 `json:"rnd,omitempty"`
	NoMore bool   `json:"nomore,omitempty"`
	Busy   bool   `json:"busy,omitempty"`
	P      uint64 `json:"p,omitempty"`
	CC     string `json:"cc,omitempty"`
	X      uint64 `json:"x,omitempty"`
	Fail   bool   `json:"fail,omitempty"`
	Keep   uint64 `json:"keep,omitempty"`
	All    bool   `json:"all,omitempty"` // ready: run all remaining sub-steps
	Pad    int    `json:"pad,omitempty"` // propose: zero bytes appended to the 8-byte payload id (entry size)
}

const groupID = 7
const groupName = "g"

func grp(id uint64) pb.Group {
	return pb.Group{NodeId: id, Name: groupName, GroupId: groupID, RaftReplicaId: id}
}

type appState struct {
	applied, appliedTerm, snapi uint64
	conf                        pb.ConfState
}

type applyStep struct {
	isSnap bool
	snap   pb.Snapshot
	ent    pb.Entry
}

type confWait struct {
	done chan *pb.ConfState
}

type nodeRT struct {
	id      uint64
	born    bool
	alive   bool
	removed bool
	learner bool        // started as learner
	peers   []raft.Peer // the peer list it was first started with (nil = join mode)
	n       raft.Node
	st      raft.IExtRaftStorage
	closeSt func()

	rd        *raft.Ready
	stages    []string
	newLeader bool
	waitApply bool
	outIDs    []int

	// a Ready that carries a snapshot becomes durable atomically with its hard state: on restart
	// node/raft.go ignores a saved snapshot newer than the persisted commit index
	// (wal.ValidSnapshotEntries), so SaveSnap alone does not change what a restart sees
	pendSnap *pb.Snapshot
	pendEnts []pb.Entry

	// what the next StepNode will consume (tracked for the handler-level correspondence)
	qMsgs, qSnap, qProps []qmsg
	qTicks               int
	blockedCC            pb.ConfChange

	applyQ  []applyStep
	app     appState
	blocked *confWait
	lastKey string // last serialized NodeState (delta encoding)
}

type netMsg struct {
	id int
	m  pb.Message
}

// CurrentOrder is the processReady operation order the driver follows (set it from
// ExtractOrder(RepoPath()) before creating clusters; defaults to the built-in order).
var CurrentOrder = BuiltinOrder("not extracted")

// Cluster is the global state.
type Cluster struct {
	Opt     Options
	nodes   map[uint64]*nodeRT
	ids     []uint64
	net     map[int]*netMsg
	netIDs  []int // insertion order of live messages
	nextMsg int
	seq     int
	nextP   uint64
	Panic   string
	// observers
	OnRecord  func(*Record)
	Core      CoreSink // handler-level cases (see core.go); nil = off
	CoreStats *CoreStats
	coreN     int
	logger    raft.Logger
}

// NewCluster boots ids 1..Voters with StartNode(peers = all initial voters).
func NewCluster(opt Options) (*Cluster, *Record, error) {
	if opt.ElectionTick == 0 {
		opt.ElectionTick = 10
	}
	if opt.HeartbeatTick == 0 {
		opt.HeartbeatTick = 1
	}
	if opt.MaxInflight == 0 {
		opt.MaxInflight = 4
	}
	if opt.Storage == "" {
		opt.Storage = "mem"
	}
	c := &Cluster{Opt: opt, nodes: map[uint64]*nodeRT{}, net: map[int]*netMsg{}, nextMsg: 1, nextP: 1, CoreStats: newCoreStats()}
	c.logger = raft.VerifSilentLogger()
	raft.SetLogger(c.logger)
	for i := 1; i <= opt.Universe; i++ {
		id := uint64(i)
		c.nodes[id] = &nodeRT{id: id}
		c.ids = append(c.ids, id)
	}
	rec := &Record{S: 0, Ev: Event{K: "init"}}
	raft.VerifSetRand(0)
	err := c.guard(rec, func() {
		peers := []raft.Peer{}
		for i := 1; i <= opt.Voters; i++ {
			peers = append(peers, raft.Peer{NodeID: uint64(i), ReplicaID: uint64(i)})
		}
		for i := 1; i <= opt.Voters; i++ {
			if e := c.boot(uint64(i), peers, false); e != nil {
				panic(e)
			}
		}
	})
	c.finish(rec, true)
	return c, rec, err
}

func (c *Cluster) config(nd *nodeRT) *raft.Config {
	return &raft.Config{
		ID:                       nd.id,
		Group:                    grp(nd.id),
		ElectionTick:             c.Opt.ElectionTick,
		HeartbeatTick:            c.Opt.HeartbeatTick,
		Storage:                  nd.st,
		MaxSizePerMsg:            c.Opt.MaxSizePerMsg,
		MaxCommittedSizePerReady: c.Opt.MaxCommitted,
		MaxInflightMsgs:          c.Opt.MaxInflight,
		CheckQuorum:              c.Opt.CheckQuorum,
		PreVote:                  c.Opt.PreVote,
		Logger:                   c.logger,
	}
}

func (c *Cluster) boot(id uint64, peers []raft.Peer, learner bool) error {
	nd := c.nodes[id]
	st, closer, err := newStorage(c.Opt, id)
	if err != nil {
		return err
	}
	nd.st, nd.closeSt = st, closer
	nd.born, nd.alive, nd.learner = true, true, learner
	nd.peers = peers
	nd.n = raft.StartNode(c.config(nd), peers, learner)
	nd.app = appState{}
	return nil
}

// Close releases storages and stops nodes.
func (c *Cluster) Close() {
	for _, nd := range c.nodes {
		if nd.n != nil {
			nd.n.Stop()
		}
		if nd.blocked != nil {
			select {
			case <-nd.blocked.done:
			case <-time.After(time.Second):
			}
		}
		if nd.closeSt != nil {
			nd.closeSt()
		}
	}
}

// guard runs f, converting a Go panic into Record.Panic.
func (c *Cluster) guard(rec *Record, f func()) (err error) {
	defer func() {
		if e := recover(); e != nil {
			s := fmt.Sprint(e)
			rec.Panic = s
			c.Panic = s
			err = fmt.Errorf("panic: %s", s)
		}
	}()
	f()
	return nil
}

// IDs returns all node ids of the universe.
func (c *Cluster) IDs() []uint64 { return c.ids }

// Apply executes one event and returns its trace record. After a panic the cluster is dead.
func (c *Cluster) Apply(ev Event) *Record {
	c.seq++
	rec := &Record{S: c.seq, Ev: ev}
	if c.Panic != "" {
		rec.Res = "dead"
		return rec
	}
	c.guard(rec, func() { c.apply(ev, rec) })
	c.finish(rec, false)
	return rec
}

func (c *Cluster) apply(ev Event, rec *Record) {
	ctx := context.Background()
	var nd *nodeRT
	if ev.K != "drop" && ev.K != "gc" {
		nd = c.nodes[ev.N]
		if nd == nil {
			rec.Res = "nonode"
			return
		}
	}
	needAlive := func() bool {
		if !nd.alive {
			rec.Res = "down"
			return false
		}
		return true
	}
	switch ev.K {
	case "tick":
		if !needAlive() {
			return
		}
		if !nd.n.Tick() {
			rec.Res = "tickfull"
		} else {
			nd.qTicks++
		}
	case "deliver":
		if !needAlive() {
			return
		}
		m, ok := c.net[ev.M]
		if !ok {
			rec.Res = "nomsg"
			return
		}
		if m.m.To != nd.id {
			rec.Res = "wrongdest"
			return
		}
		if err := nd.n.Step(ctx, cloneMsg(m.m)); err != nil {
			rec.Res = "err"
		} else if m.m.Type == pb.MsgProp {
			// node.stepWithDrop: proposals, forwarded ones included, go to the proposal queue
			nd.qProps = append(nd.qProps, qmsg{cloneMsg(m.m), false})
		} else {
			nd.enqueue(cloneMsg(m.m), false)
		}
	case "drop":
		if _, ok := c.net[ev.M]; !ok {
			rec.Res = "nomsg"
			return
		}
		c.delMsg(ev.M, rec)
	case "gc":
		// every message with id < M is lost
		for _, id := range append([]int(nil), c.netIDs...) {
			if id < ev.M {
				c.delMsg(id, rec)
			}
		}
	case "propose":
		if !needAlive() {
			return
		}
		b := make([]byte, 8+ev.Pad)
		binary.BigEndian.PutUint64(b, ev.P)
		if err := nd.n.Propose(ctx, b); err != nil {
			rec.Res = "err"
		} else {
			nd.qProps = append(nd.qProps, qmsg{pb.Message{Type: pb.MsgProp, Entries: []pb.Entry{{Data: b}}}, true})
		}
	case "conf":
		if !needAlive() {
			return
		}
		var t pb.ConfChangeType
		switch ev.CC {
		case "addnode":
			t = pb.ConfChangeAddNode
		case "addlearner":
			t = pb.ConfChangeAddLearnerNode
		case "remove":
			t = pb.ConfChangeRemoveNode
		case "update":
			t = pb.ConfChangeUpdateNode
		default:
			rec.Res = "badcc"
			return
		}
		tgt := c.nodes[ev.X]
		if tgt == nil {
			rec.Res = "nonode"
			return
		}
		if !tgt.born && (t == pb.ConfChangeAddNode || t == pb.ConfChangeAddLearnerNode) {
			if err := c.boot(ev.X, nil, t == pb.ConfChangeAddLearnerNode); err != nil {
				panic(err)
			}
		}
		cc := pb.ConfChange{Type: t, ReplicaID: ev.X, NodeGroup: grp(ev.X)}
		if err := nd.n.ProposeConfChange(ctx, cc); err != nil {
			rec.Res = "err"
		} else if data, err := cc.Marshal(); err == nil {
			nd.qProps = append(nd.qProps, qmsg{pb.Message{Type: pb.MsgProp, Entries: []pb.Entry{{Type: pb.EntryConfChange, Data: data}}}, true})
		}
	case "transfer":
		if !needAlive() {
			return
		}
		st, _ := raft.VerifRaftState(nd.n, false)
		nd.n.TransferLeadership(ctx, st.Lead, ev.X)
		nd.enqueue(pb.Message{Type: pb.MsgTransferLeader, From: ev.X, To: st.Lead}, true)
	case "readindex":
		if !needAlive() {
			return
		}
		b := make([]byte, 8)
		binary.BigEndian.PutUint64(b, ev.P)
		nd.n.ReadIndex(ctx, b)
		nd.enqueue(pb.Message{Type: pb.MsgReadIndex, Entries: []pb.Entry{{Data: b}}}, true)
	case "unreach":
		if !needAlive() {
			return
		}
		nd.n.ReportUnreachable(ev.X, grp(ev.X))
		nd.enqueue(pb.Message{Type: pb.MsgUnreachable, From: ev.X}, true)
	case "snaprep":
		if !needAlive() {
			return
		}
		s := raft.SnapshotFinish
		if ev.Fail {
			s = raft.SnapshotFailure
		}
		nd.n.ReportSnapshot(ev.X, grp(ev.X), s)
		nd.enqueue(pb.Message{Type: pb.MsgSnapStatus, From: ev.X, Reject: ev.Fail}, true)
	case "step":
		if !needAlive() {
			return
		}
		if nd.rd != nil {
			rec.Res = "inflight"
			return
		}
		c.step(nd, ev, rec)
	case "ready":
		if !needAlive() {
			return
		}
		if nd.rd == nil {
			rec.Res = "noready"
			return
		}
		c.readyStage(nd, rec)
		for ev.All && nd.alive && nd.rd != nil {
			sub := rec.Sub
			c.readyStage(nd, rec)
			rec.Sub = sub + "," + rec.Sub
		}
	case "apply":
		if !needAlive() {
			return
		}
		if nd.blocked != nil {
			rec.Res = "blocked"
			return
		}
		if nd.removed {
			rec.Res = "removed"
			return
		}
		c.applyAsync(nd, rec)
	case "compact":
		if !nd.born {
			rec.Res = "unborn"
			return
		}
		if !needAlive() {
			return
		}
		c.compact(nd, ev, rec)
	case "crash":
		if !needAlive() {
			return
		}
		c.crash(nd)
	case "restart":
		if nd.alive || !nd.born {
			rec.Res = "notdown"
			return
		}
		if nd.removed {
			rec.Res = "removed"
			return
		}
		raft.VerifSetRand(ev.Rnd)
		if err := reopenStorage(nd); err != nil {
			panic(err)
		}
		if CurrentOrder.FreshOnUnusedWAL && storageUnused(nd.st) {
			// node/raft.go startRaft: a wal without hard state and entries is a first start again
			nd.n = raft.StartNode(c.config(nd), nd.peers, nd.learner)
			rec.Res = "fresh-start"
		} else {
			nd.n = raft.RestartNode(c.config(nd))
		}
		nd.alive = true
		snap, err := nd.st.Snapshot()
		if err != nil {
			panic(err)
		}
		nd.app = appState{applied: snap.Metadata.Index, appliedTerm: snap.Metadata.Term, snapi: snap.Metadata.Index,
			conf: snap.Metadata.ConfState}
	default:
		rec.Res = "badkind"
	}
}

func (c *Cluster) crash(nd *nodeRT) {
	nd.n.Stop()
	if nd.blocked != nil {
		<-nd.blocked.done
		nd.blocked = nil
	}
	nd.alive = false
	nd.n = nil
	for _, id := range nd.outIDs {
		delete(c.net, -id)
	}
	nd.rd, nd.stages, nd.outIDs = nil, nil, nil
	nd.pendSnap, nd.pendEnts = nil, nil
	nd.clearQueues()
	nd.applyQ = nil
}

func (c *Cluster) step(nd *nodeRT, ev Event, rec *Record) {
	raft.VerifSetRand(ev.Rnd)
	rd, ok := c.coreStep(nd, ev, func() (raft.Ready, bool) { return nd.n.StepNode(!ev.NoMore, ev.Busy) })
	// a conf change applied asynchronously is consumed by StepNode (handleConfChanged)
	if nd.blocked != nil && raft.VerifConfPending(nd.n) == 0 {
		cs := <-nd.blocked.done
		nd.blocked = nil
		if cs != nil {
			nd.app.conf = *cs
		}
	}
	if !ok {
		rec.Res = "noready"
		return
	}
	nd.rd = &rd
	nd.newLeader = rd.SoftState != nil && rd.SoftState.RaftState == raft.StateLeader
	nd.waitApply = false
	if !nd.newLeader {
		for _, e := range rd.CommittedEntries {
			if e.Type == pb.EntryConfChange {
				nd.waitApply = true
				break
			}
		}
	}
	if !raft.IsEmptySnap(rd.Snapshot) {
		nd.waitApply = true
	}
	// node/raft.go shouldPersistBeforeApply itself (hook node/raft_verif.go): does this Ready publish committed entries
	// that are still unstable
	overlap := znode.VerifShouldPersistBeforeApply(&rd)
	nd.stages = CurrentOrder.Stages(Env{Leader: nd.newLeader, Overlap: overlap,
		EmptyHS: raft.IsEmptyHardState(rd.HardState), EmptySnap: raft.IsEmptySnap(rd.Snapshot)})
	// node/raft.go processMessages: only the last MsgAppResp is sent; MsgSnap goes through the
	// snapshot sender (kept: it is transported with the storage's snapshot meta)
	msgs := make([]pb.Message, 0, len(rd.Messages))
	sentAppResp := false
	for i := len(rd.Messages) - 1; i >= 0; i-- {
		m := rd.Messages[i]
		if m.Type == pb.MsgAppResp {
			if sentAppResp {
				continue
			}
			sentAppResp = true
		}
		if m.To == 0 {
			continue
		}
		msgs = append(msgs, cloneMsg(m))
	}
	sort.SliceStable(msgs, func(i, j int) bool { return msgKey(msgs[i]) < msgKey(msgs[j]) })
	nd.outIDs = nil
	pr := &ReadyProj{More: rd.MoreCommittedEntries, Sync: rd.MustSync, NewLeader: nd.newLeader, Wait: nd.waitApply,
		Stages: append([]string(nil), nd.stages...)}
	for _, m := range msgs {
		id := c.nextMsg
		c.nextMsg++
		nd.outIDs = append(nd.outIDs, id)
		c.net[-id] = &netMsg{id: id, m: m} // parked under a negative key until "send"
		pr.Msgs = append(pr.Msgs, id)
		pr.MsgBodies = append(pr.MsgBodies, MsgRec{ID: id, Msg: projMsg(m)})
	}
	if rd.SoftState != nil {
		pr.Soft = &SoftProj{Lead: rd.SoftState.Lead, Role: int(rd.SoftState.RaftState)}
	}
	if !raft.IsEmptyHardState(rd.HardState) {
		pr.HS = &HSProj{Term: rd.HardState.Term, Vote: rd.HardState.Vote, Commit: rd.HardState.Commit}
	}
	pr.Ents = projEnts(rd.Entries)
	pr.CEnts = projEnts(rd.CommittedEntries)
	if !raft.IsEmptySnap(rd.Snapshot) {
		pr.Snap = projSnap(rd.Snapshot)
	}
	rec.Rd = pr
}

func (c *Cluster) readyStage(nd *nodeRT, rec *Record) {
	st := nd.stages[0]
	nd.stages = nd.stages[1:]
	rec.Sub = st
	rd := nd.rd
	switch st {
	case "publish":
		if !raft.IsEmptySnap(rd.Snapshot) {
			nd.applyQ = append(nd.applyQ, applyStep{isSnap: true, snap: rd.Snapshot})
		}
		for _, e := range rd.CommittedEntries {
			nd.applyQ = append(nd.applyQ, applyStep{ent: e})
		}
	case "psnap":
		if !raft.IsEmptySnap(rd.Snapshot) {
			sn := rd.Snapshot
			nd.pendSnap = &sn
		}
	case "pents":
		if nd.pendSnap != nil {
			nd.pendEnts = rd.Entries
		} else if err := nd.st.Append(rd.Entries); err != nil {
			rec.Res = errName(err)
		}
	case "phs":
		if nd.pendSnap != nil {
			if err := nd.st.ApplySnapshot(*nd.pendSnap); err != nil {
				rec.Res = errName(err)
			}
			if err := nd.st.Append(nd.pendEnts); err != nil {
				rec.Res += errName(err)
			}
			nd.pendSnap, nd.pendEnts = nil, nil
		}
		if !raft.IsEmptyHardState(rd.HardState) {
			if err := nd.st.SetHardState(rd.HardState); err != nil {
				rec.Res += errName(err)
			}
		}
	case "wait":
		if nd.waitApply {
			c.applySync(nd, rec)
		}
	case "send":
		if len(nd.outIDs) > 0 {
			d := c.diskProj(nd)
			d.Log = nil
			rec.SD = d
		}
		for _, id := range nd.outIDs {
			m := c.net[-id]
			delete(c.net, -id)
			c.net[id] = m
			c.netIDs = append(c.netIDs, id)
			rec.Add = append(rec.Add, MsgRec{ID: id, Msg: projMsg(m.m)})
		}
		nd.outIDs = nil
	case "advance":
		c.coreAdvance(nd, rd)
		nd.rd = nil
		nd.stages = nil
	}
	if !nd.alive { // removed itself during the synchronous wait
		return
	}
}

// applyOne applies one step to the application state. For a conf change entry it returns the
// decoded change (the caller feeds it back to raft).
func (c *Cluster) applyOne(nd *nodeRT, s applyStep, rec *Record) (cc *pb.ConfChange, skip bool) {
	if s.isSnap {
		if s.snap.Metadata.Index <= nd.app.applied {
			panic(fmt.Sprintf("application: snapshot index [%d] should > applied [%d]", s.snap.Metadata.Index, nd.app.applied))
		}
		nd.app.applied = s.snap.Metadata.Index
		nd.app.appliedTerm = s.snap.Metadata.Term
		nd.app.snapi = s.snap.Metadata.Index
		nd.app.conf = s.snap.Metadata.ConfState
		rec.Applied = append(rec.Applied, AppliedRec{N: nd.id, E: EntProj{I: s.snap.Metadata.Index, T: s.snap.Metadata.Term, K: "S"}})
		return nil, false
	}
	e := s.ent
	// node/node.go applyEntries: entries at or below the cursor are skipped, a gap is an error
	if e.Index > nd.app.applied+1 {
		rec.Applied = append(rec.Applied, AppliedRec{N: nd.id, E: EntProj{I: e.Index, T: e.Term, K: "GAP", P: nd.app.applied}})
		return nil, true
	}
	if e.Index <= nd.app.applied {
		return nil, true
	}
	nd.app.applied = e.Index
	nd.app.appliedTerm = e.Term
	rec.Applied = append(rec.Applied, AppliedRec{N: nd.id, E: projEnt(e)})
	if e.Type == pb.EntryConfChange {
		var x pb.ConfChange
		if err := x.Unmarshal(e.Data); err != nil {
			panic(err)
		}
		return &x, false
	}
	return nil, false
}

// applySync: the "wait apply" branch of processReady (conf changes fed back via
// ApplyConfChange + ConfChangedCh + HandleConfChanged on the driver goroutine).
func (c *Cluster) applySync(nd *nodeRT, rec *Record) {
	if nd.removed {
		// the apply goroutine is parked after a self removal: the raft loop blocks for ever
		c.crash(nd)
		rec.Res = "stuck-removed"
		return
	}
	if nd.blocked != nil {
		cc := <-nd.n.ConfChangedCh()
		c.coreConf(nd, cc)
		if cs := <-nd.blocked.done; cs != nil {
			nd.app.conf = *cs
		}
		nd.blocked = nil
	}
	for len(nd.applyQ) > 0 {
		s := nd.applyQ[0]
		nd.applyQ = nd.applyQ[1:]
		cc, _ := c.applyOne(nd, s, rec)
		if cc != nil {
			w := &confWait{done: make(chan *pb.ConfState, 1)}
			n := nd.n
			x := *cc
			go func() { w.done <- n.ApplyConfChange(x) }()
			got := <-nd.n.ConfChangedCh()
			c.coreConf(nd, got)
			if cs := <-w.done; cs != nil {
				nd.app.conf = *cs
			}
			if cc.Type == pb.ConfChangeRemoveNode && cc.ReplicaID == nd.id {
				nd.removed = true
			}
		}
	}
	if nd.removed {
		c.crash(nd)
		rec.Res = "removed-self"
	}
}

// applyAsync: the application goroutine working on its own; a conf change blocks in
// ApplyConfChange until the node's next StepNode consumes it.
func (c *Cluster) applyAsync(nd *nodeRT, rec *Record) {
	for len(nd.applyQ) > 0 {
		s := nd.applyQ[0]
		nd.applyQ = nd.applyQ[1:]
		cc, _ := c.applyOne(nd, s, rec)
		if cc != nil {
			w := &confWait{done: make(chan *pb.ConfState, 1)}
			n := nd.n
			x := *cc
			go func() { w.done <- n.ApplyConfChange(x) }()
			for i := 0; raft.VerifConfPending(nd.n) == 0; i++ {
				if i > 200000 {
					panic("driver: ApplyConfChange did not enqueue")
				}
				time.Sleep(time.Microsecond)
			}
			nd.blocked = w
			nd.blockedCC = x
			if cc.Type == pb.ConfChangeRemoveNode && cc.ReplicaID == nd.id {
				nd.removed = true
			}
			return
		}
	}
}

func (c *Cluster) compact(nd *nodeRT, ev Event, rec *Record) {
	if nd.app.applied <= nd.app.snapi {
		rec.Res = "nothing"
		return
	}
	li, err := nd.st.LastIndex()
	if err != nil {
		rec.Res = errName(err)
		return
	}
	if nd.app.applied > li {
		rec.Res = "notpersisted" // production waits for raftDone before snapshotting
		return
	}
	cs := canonConf(nd.app.conf)
	data := []byte(fmt.Sprintf("snap-%d", nd.app.applied))
	snap, err := nd.st.CreateSnapshot(nd.app.applied, &cs, data)
	if err != nil {
		rec.Res = "create:" + errName(err)
		return
	}
	nd.app.snapi = snap.Metadata.Index
	ci := uint64(1)
	if nd.app.snapi > ev.Keep {
		ci = nd.app.snapi - ev.Keep
	}
	if err := nd.st.Compact(ci); err != nil {
		rec.Res = "compact:" + errName(err)
	}
}

func canonConf(cs pb.ConfState) pb.ConfState {
	out := pb.ConfState{}
	out.Nodes = append([]uint64(nil), cs.Nodes...)
	sort.Slice(out.Nodes, func(i, j int) bool { return out.Nodes[i] < out.Nodes[j] })
	out.Learners = append([]uint64(nil), cs.Learners...)
	sort.Slice(out.Learners, func(i, j int) bool { return out.Learners[i] < out.Learners[j] })
	for _, id := range out.Nodes {
		g := grp(id)
		out.Groups = append(out.Groups, &g)
	}
	for _, id := range out.Learners {
		g := grp(id)
		out.LearnerGroups = append(out.LearnerGroups, &g)
	}
	return out
}

func errName(err error) string {
	switch err {
	case nil:
		return ""
	case raft.ErrCompacted:
		return "ErrCompacted"
	case raft.ErrSnapOutOfDate:
		return "ErrSnapOutOfDate"
	case raft.ErrUnavailable:
		return "ErrUnavailable"
	case raft.ErrSnapshotTemporarilyUnavailable:
		return "ErrSnapTemp"
	}
	s := err.Error()
	if strings.Contains(s, "out of bound") {
		return "ErrOutOfBound"
	}
	if strings.Contains(s, "Unable to find") {
		return "ErrNotFound"
	}
	return "ErrOther"
}

func (c *Cluster) delMsg(id int, rec *Record) {
	delete(c.net, id)
	for i, x := range c.netIDs {
		if x == id {
			c.netIDs = append(c.netIDs[:i], c.netIDs[i+1:]...)
			break
		}
	}
	rec.Del = append(rec.Del, id)
}

func cloneMsg(m pb.Message) pb.Message {
	out := m
	if m.Entries != nil {
		out.Entries = make([]pb.Entry, len(m.Entries))
		for i, e := range m.Entries {
			out.Entries[i] = e
			if e.Data != nil {
				out.Entries[i].Data = append([]byte(nil), e.Data...)
			}
		}
	}
	if m.Context != nil {
		out.Context = append([]byte(nil), m.Context...)
	}
	return out
}

func msgKey(m pb.Message) string {
	return fmt.Sprintf("%03d|%03d|%012d|%012d|%012d|%012d|%v|%012d|%04d|%x|%012d", m.To, int(m.Type), m.Term, m.Index,
		m.LogTerm, m.Commit, m.Reject, m.RejectHint, len(m.Entries), m.Context, m.Snapshot.Metadata.Index)
}

// ---- read access for generators and oracles ----

// NodeView is what a generator may look at.
type NodeView struct {
	ID                       uint64
	Born, Alive, Removed     bool
	InFlight                 bool
	NextStage                string
	ApplyQ                   int
	Blocked                  bool
	Role                     int
	Lead, Term               uint64
	Commit, Last             uint64
	AppApplied, AppSnap      uint64
	Voters, Learners         []uint64
	IsLearner                bool
	SnapshottingTo           []uint64 // peers in ProgressStateSnapshot
	QueuedTicks, QueuedMsgs  int
	ElectionElapsed, RandTmo int
}

func (c *Cluster) View(id uint64) NodeView {
	nd := c.nodes[id]
	v := NodeView{ID: id, Born: nd.born, Alive: nd.alive, Removed: nd.removed, InFlight: nd.rd != nil, ApplyQ: len(nd.applyQ),
		Blocked: nd.blocked != nil, AppApplied: nd.app.applied, AppSnap: nd.app.snapi}
	if len(nd.stages) > 0 {
		v.NextStage = nd.stages[0]
	}
	if nd.alive {
		st, _ := raft.VerifRaftState(nd.n, false)
		v.Role, v.Lead, v.Term, v.Commit, v.Last = st.State, st.Lead, st.Term, st.Committed, st.LastIndex
		v.IsLearner = st.IsLearner
		for _, p := range st.Prs {
			v.Voters = append(v.Voters, p.ID)
			if p.State == 2 {
				v.SnapshottingTo = append(v.SnapshottingTo, p.ID)
			}
		}
		for _, p := range st.LearnerPrs {
			v.Learners = append(v.Learners, p.ID)
			if p.State == 2 {
				v.SnapshottingTo = append(v.SnapshottingTo, p.ID)
			}
		}
		v.QueuedTicks, v.QueuedMsgs = st.QueuedTicks, st.QueuedMsgs
		v.ElectionElapsed, v.RandTmo = st.ElectionElapsed, st.RandomizedElectionTimeout
	}
	return v
}

// NetIDs returns the ids of the messages in the network in send order.
func (c *Cluster) NetIDs() []int { return c.netIDs }

// Msg returns (type, from, to) of a network message.
func (c *Cluster) Msg(id int) (pb.Message, bool) {
	m, ok := c.net[id]
	if !ok {
		return pb.Message{}, false
	}
	return m.m, true
}

// NewPayload hands out a fresh payload id.
func (c *Cluster) NewPayload() uint64 {
	p := c.nextP
	c.nextP++
	return p
}

// storageUnused: nothing of raft's state was ever persisted (what node/raft.go isUnusedWAL tests on the wal)
func storageUnused(st raft.IExtRaftStorage) bool {
	hs, _, err := st.InitialState()
	if err != nil || !raft.IsEmptyHardState(hs) {
		return false
	}
	fi, err1 := st.FirstIndex()
	li, err2 := st.LastIndex()
	return err1 == nil && err2 == nil && li+1 == fi
}
