package raftdrv

// Handler-level correspondence (coq/Raft/Core.v): for every StepNode / Advance / HandleConfChanged
// of every schedule the driver can emit an independent test case
//
//	pre-state of the node (everything raft.Step reads, through raft.VerifRaftState + the storage)
//	+ the inputs consumed (queued messages in queue order, tick count, conf change, proposals, flags)
//	-> post-state + Ready
//
// as one line of integers (the model's stdin) and one line of labelled text (the implementation's
// observable). The extracted model computes the same labelled text from the case line. Cases that
// touch what Core.v does not model are skipped and counted by reason.

import (
	"bytes"
	"fmt"
	"sort"
	"strings"

	"github.com/youzan/ZanRedisDB/raft"
	pb "github.com/youzan/ZanRedisDB/raft/raftpb"
)

// CoreSink receives (case id, case line for the model, implementation output).
type CoreSink func(id, caseLine, implLine string)

// CoreStats counts emitted and skipped cases.
type CoreStats struct {
	Emitted      map[string]int // by kind S / A / C
	Skipped      map[string]int // by reason
	MsgIn        map[int]int    // message types consumed by emitted step cases
	MsgInUnknown map[int]int    // ... of these, from a sender that is neither voter nor learner in the receiver's configuration
}

func newCoreStats() *CoreStats {
	return &CoreStats{Emitted: map[string]int{}, Skipped: map[string]int{}, MsgIn: map[int]int{}, MsgInUnknown: map[int]int{}}
}

type qmsg struct {
	m     pb.Message
	local bool
}

type ints struct{ b bytes.Buffer }

func (w *ints) n(v ...uint64) {
	for _, x := range v {
		fmt.Fprintf(&w.b, "%d ", x)
	}
}
func (w *ints) bo(v bool) {
	if v {
		w.n(1)
	} else {
		w.n(0)
	}
}
func (w *ints) list(l []uint64) {
	w.n(uint64(len(l)))
	w.n(l...)
}

// entry data encoding shared with Core.v: low bit = EntryConfChange
func encData(t pb.EntryType, data []byte) (uint64, bool) {
	if t == pb.EntryConfChange {
		var cc pb.ConfChange
		if err := cc.Unmarshal(data); err != nil {
			return 0, false
		}
		return 2*(uint64(cc.Type)*1000+cc.ReplicaID) + 1, true
	}
	if len(data) == 0 {
		return 0, true
	}
	if len(data) >= 8 {
		p := uint64(0)
		for _, b := range data[:8] {
			p = p<<8 | uint64(b)
		}
		return 2 * p, true
	}
	return 0, false
}

func (w *ints) entry(e pb.Entry) bool {
	d, ok := encData(e.Type, e.Data)
	w.n(e.Index, e.Term, d, uint64(e.Size()))
	return ok
}

func ctxCode(c []byte) uint64 {
	switch {
	case len(c) == 0:
		return 0
	case string(c) == "CampaignTransfer":
		return 1
	}
	return 2
}

func (w *ints) snap(s pb.Snapshot) {
	if raft.IsEmptySnap(s) {
		w.n(0)
		return
	}
	w.n(1, s.Metadata.Index, s.Metadata.Term)
	w.list(sortedU(s.Metadata.ConfState.Nodes))
	w.list(sortedU(s.Metadata.ConfState.Learners))
}

// message: type to from term logterm index commit reject hint ctx local nprops (d dl+1)* nents entry* snap
func (w *ints) msg(m pb.Message, local bool) (ok bool) {
	ok = true
	w.n(uint64(m.Type), m.To, m.From, m.Term, m.LogTerm, m.Index, m.Commit)
	w.bo(m.Reject)
	w.n(m.RejectHint, ctxCode(m.Context))
	w.bo(local)
	if m.Type == pb.MsgProp {
		w.n(uint64(len(m.Entries)))
		for _, e := range m.Entries {
			d, k := encData(e.Type, e.Data)
			ok = ok && k
			dl := uint64(0)
			if e.Data != nil {
				dl = uint64(len(e.Data)) + 1
			}
			w.n(d, dl)
		}
		w.n(0)
	} else {
		w.n(0)
		w.n(uint64(len(m.Entries)))
		for _, e := range m.Entries {
			ok = w.entry(e) && ok
		}
	}
	w.snap(m.Snapshot)
	return ok
}

func showEnts(es []pb.Entry) string {
	if len(es) == 0 {
		return "-"
	}
	var b []string
	for _, e := range es {
		d, _ := encData(e.Type, e.Data)
		b = append(b, fmt.Sprintf("%d.%d.%d.%d", e.Index, e.Term, d, e.Size()))
	}
	return strings.Join(b, ",")
}

func showU(l []uint64) string {
	var b []string
	for _, x := range sortedU(l) {
		b = append(b, fmt.Sprint(x))
	}
	return strings.Join(b, ",")
}

func showSnap(s pb.Snapshot) string {
	if raft.IsEmptySnap(s) {
		return "-"
	}
	return fmt.Sprintf("%d:%d:%s/%s", s.Metadata.Index, s.Metadata.Term, showU(s.Metadata.ConfState.Nodes), showU(s.Metadata.ConfState.Learners))
}

func b01(v bool) int {
	if v {
		return 1
	}
	return 0
}

func showMsg(m pb.Message) string {
	s := fmt.Sprintf("%d>%d:%d:%d:%d:%d:%d:%d:%d:%d", m.Type, m.To, m.From, m.Term, m.LogTerm, m.Index, m.Commit, b01(m.Reject), m.RejectHint, ctxCode(m.Context))
	if m.Type == pb.MsgProp {
		var b []string
		for _, e := range m.Entries {
			d, _ := encData(e.Type, e.Data)
			b = append(b, fmt.Sprint(d))
		}
		s += ":p" + strings.Join(b, "/")
	} else {
		s += ":" + strings.ReplaceAll(showEnts(m.Entries), ",", "/")
	}
	return s + ":" + showSnap(m.Snapshot)
}

func showMsgs(ms []pb.Message) string {
	if len(ms) == 0 {
		return "-"
	}
	c := append([]pb.Message(nil), ms...)
	sort.SliceStable(c, func(i, j int) bool { return c[i].To < c[j].To })
	var b []string
	for _, m := range c {
		b = append(b, showMsg(m))
	}
	return strings.Join(b, " ")
}

func showPrs(ps []raft.VerifProgress) string {
	if len(ps) == 0 {
		return "-"
	}
	var b []string
	for _, p := range ps {
		var in []string
		for _, x := range p.Ins {
			in = append(in, fmt.Sprint(x))
		}
		b = append(b, fmt.Sprintf("%d:%d:%d:%d:%d:%d:%d:%d:%s", p.ID, p.Match, p.Next, p.State, b01(p.Paused), p.PendingSnapshot, b01(p.RecentActive), b01(p.IsLearner), strings.Join(in, "/")))
	}
	return strings.Join(b, ",")
}

// the labelled text of a node state (what both sides print)
func showState(st raft.VerifState) string {
	var vs []string
	for _, v := range st.Votes {
		vs = append(vs, fmt.Sprintf("%d:%d", v.ID, b01(v.Granted)))
	}
	us := "-"
	if st.HasUnstableSnap {
		us = fmt.Sprintf("%d:%d:%s/%s", st.UnstableSnapIndex, st.UnstableSnapTerm, showU(st.UnstableSnapVoters), showU(st.UnstableSnapLearners))
	}
	var ue []pb.Entry
	for _, e := range st.Log {
		if e.Index >= st.UnstableOffset {
			ue = append(ue, pb.Entry{Index: e.Index, Term: e.Term, Type: pb.EntryType(e.Type), Data: e.Data})
		}
	}
	return fmt.Sprintf("term=%d vote=%d st=%d lrn=%d lead=%d tee=%d pc=%d el=%d hb=%d rt=%d votes=%s prs=%s lprs=%s c=%d a=%d uo=%d us=%s ue=%s",
		st.Term, st.Vote, st.State, b01(st.IsLearner), st.Lead, st.LeadTransferee, b01(st.PendingConf), st.ElectionElapsed, st.HeartbeatElapsed,
		st.RandomizedElectionTimeout, strings.Join(vs, ","), showPrs(st.Prs), showPrs(st.LearnerPrs), st.Committed, st.Applied, st.UnstableOffset, us, showEnts(ue))
}

func showPrev(st raft.VerifState) string {
	return fmt.Sprintf("psoft=%d:%d phs=%d:%d:%d plead=%d pun=%d:%d:%d psnap=%d", st.PrevSoftLead, st.PrevSoftState, st.PrevHard.Term, st.PrevHard.Vote,
		st.PrevHard.Commit, st.PrevLead, b01(st.HavePrevLastUnstable), st.PrevLastUnstableI, st.PrevLastUnstableT, st.PrevSnapI)
}

func showReady(rd *raft.Ready) string {
	if rd == nil {
		return "rd=none"
	}
	soft, hs := "-", "-"
	if rd.SoftState != nil {
		soft = fmt.Sprintf("%d:%d", rd.SoftState.Lead, rd.SoftState.RaftState)
	}
	if !raft.IsEmptyHardState(rd.HardState) {
		hs = fmt.Sprintf("%d:%d:%d", rd.HardState.Term, rd.HardState.Vote, rd.HardState.Commit)
	}
	return fmt.Sprintf("rd=soft=%s hs=%s ents=%s cents=%s more=%d snap=%s sync=%d msgs=%s", soft, hs, showEnts(rd.Entries), showEnts(rd.CommittedEntries),
		b01(rd.MoreCommittedEntries), showSnap(rd.Snapshot), b01(rd.MustSync), showMsgs(rd.Messages))
}

// coreSkipState: reasons not to emit a case for this pre-state ("" = fine)
func coreSkipState(c *Cluster, st raft.VerifState) string {
	switch {
	case c.Opt.Storage != "mem":
		return "storage-not-memory"
	case st.LogErr != "":
		return "log-unreadable"
	case st.ReadOnlyPending > 0:
		return "read-only-pending"
	}
	for _, m := range st.Msgs {
		if m.Type == pb.MsgReadIndex || m.Type == pb.MsgReadIndexResp || ctxCode(m.Context) == 2 {
			return "read-only-pending"
		}
	}
	return ""
}

// writePre serialises the pre-state: scalars, votes, prs, lprs, pending msgs, log, storage, node bookkeeping
func (c *Cluster) writePre(w *ints, nd *nodeRT, st raft.VerifState) bool {
	ok := true
	w.n(st.ID, st.Term, st.Vote, uint64(st.State))
	w.bo(st.IsLearner)
	w.n(st.Lead, st.LeadTransferee)
	w.bo(st.PendingConf)
	w.n(uint64(st.ElectionElapsed), uint64(st.HeartbeatElapsed))
	w.bo(st.CheckQuorum)
	w.bo(st.PreVote)
	w.n(uint64(st.HeartbeatTimeout), uint64(st.ElectionTimeout), uint64(st.RandomizedElectionTimeout), uint64(st.MaxInflight), st.MaxMsgSize)
	w.n(uint64(len(st.Votes)))
	for _, v := range st.Votes {
		w.n(v.ID)
		w.bo(v.Granted)
	}
	for _, ps := range [][]raft.VerifProgress{st.Prs, st.LearnerPrs} {
		w.n(uint64(len(ps)))
		for _, p := range ps {
			w.n(p.ID, p.Match, p.Next, uint64(p.State))
			w.bo(p.Paused)
			w.n(p.PendingSnapshot)
			w.bo(p.RecentActive)
			w.bo(p.IsLearner)
			w.list(p.Ins)
		}
	}
	w.n(uint64(len(st.Msgs)))
	for _, m := range st.Msgs {
		ok = w.msg(m, false) && ok
	}
	// raftLog
	w.n(st.Committed, st.Applied, st.MaxNextEntsSize)
	if st.HasUnstableSnap {
		w.n(1, st.UnstableSnapIndex, st.UnstableSnapTerm)
		w.list(sortedU(st.UnstableSnapVoters))
		w.list(sortedU(st.UnstableSnapLearners))
	} else {
		w.n(0)
	}
	w.n(st.UnstableOffset)
	var ue []pb.Entry
	for _, e := range st.Log {
		if e.Index >= st.UnstableOffset {
			ue = append(ue, pb.Entry{Index: e.Index, Term: e.Term, Type: pb.EntryType(e.Type), Data: e.Data})
		}
	}
	if len(ue) != st.UnstableLen {
		ok = false
	}
	w.n(uint64(len(ue)))
	for _, e := range ue {
		ok = w.entry(e) && ok
	}
	// MemoryStorage: snapshot meta, dummy + entries
	snap, err := nd.st.Snapshot()
	if err != nil {
		return false
	}
	w.n(snap.Metadata.Index, snap.Metadata.Term)
	w.list(sortedU(snap.Metadata.ConfState.Nodes))
	w.list(sortedU(snap.Metadata.ConfState.Learners))
	fi, err1 := nd.st.FirstIndex()
	li, err2 := nd.st.LastIndex()
	dt, err3 := nd.st.Term(fi - 1)
	if err1 != nil || err2 != nil || err3 != nil {
		return false
	}
	var ses []pb.Entry
	if li >= fi {
		ses, err = nd.st.Entries(fi, li+1, ^uint64(0))
		if err != nil {
			return false
		}
	}
	w.n(uint64(len(ses)) + 1)
	w.n(fi-1, dt, 0, 0)
	for _, e := range ses {
		ok = w.entry(e) && ok
	}
	// node bookkeeping
	w.n(st.PrevSoftLead, uint64(st.PrevSoftState), st.PrevHard.Term, st.PrevHard.Vote, st.PrevHard.Commit, st.PrevLead)
	w.bo(st.HavePrevLastUnstable)
	w.n(st.PrevLastUnstableI, st.PrevLastUnstableT, st.PrevSnapI)
	return ok
}

// --- queue tracking (what the next StepNode will consume) ---

func (nd *nodeRT) enqueue(m pb.Message, local bool) {
	if m.Type == pb.MsgSnap {
		nd.qSnap = append(nd.qSnap, qmsg{m, local})
	} else {
		nd.qMsgs = append(nd.qMsgs, qmsg{m, local})
	}
}

func (nd *nodeRT) clearQueues() {
	nd.qMsgs, nd.qSnap, nd.qProps, nd.qTicks = nil, nil, nil, 0
}

// coreStep wraps StepNode for the handler-level correspondence
func (c *Cluster) coreStep(nd *nodeRT, ev Event, run func() (raft.Ready, bool)) (raft.Ready, bool) {
	if c.Core == nil {
		rd, ok := run()
		nd.afterStepQueues()
		return rd, ok
	}
	pre, _ := raft.VerifRaftState(nd.n, true)
	skip := coreSkipState(c, pre)
	var w ints
	w.n(uint64(ev.Rnd))
	w.bo(!ev.NoMore)
	w.bo(ev.Busy)
	okAll := true
	if skip == "" {
		okAll = c.writePre(&w, nd, pre)
	}
	in := append(append([]qmsg(nil), nd.qSnap...), nd.qMsgs...)
	w.n(uint64(len(in)))
	for _, q := range in {
		if q.m.Type == pb.MsgReadIndex || q.m.Type == pb.MsgReadIndexResp || ctxCode(q.m.Context) == 2 {
			skip = "read-only-message"
		}
		okAll = w.msg(q.m, q.local) && okAll
	}
	w.n(uint64(nd.qTicks))
	if nd.blocked != nil && raft.VerifConfPending(nd.n) > 0 {
		w.n(1, uint64(nd.blockedCC.Type), nd.blockedCC.ReplicaID)
	} else {
		w.n(0)
	}
	w.n(uint64(len(nd.qProps)))
	for _, q := range nd.qProps {
		okAll = w.msg(q.m, true) && okAll
	}
	nprops := len(nd.qProps)
	var rd raft.Ready
	var ok bool
	panicked := ""
	func() {
		defer func() {
			if e := recover(); e != nil {
				panicked = fmt.Sprint(e)
			}
		}()
		rd, ok = run()
	}()
	if panicked != "" {
		if skip == "" && okAll {
			c.coreN++
			id := fmt.Sprintf("KS%d", c.coreN)
			c.Core(id, id+"\tS\t"+w.b.String(), id+"\tpanic")
			c.CoreStats.Emitted["S"]++
		}
		panic(panicked)
	}
	post, _ := raft.VerifRaftState(nd.n, true)
	consumed := post.QueuedProps == 0
	if skip == "" && !okAll {
		skip = "unencodable"
	}
	if skip != "" {
		c.CoreStats.Skipped[skip]++
	} else {
		c.coreN++
		id := fmt.Sprintf("KS%d", c.coreN)
		var rdp *raft.Ready
		if ok {
			rdp = &rd
		}
		out := fmt.Sprintf("%s plead=%d used=%d %s", showState(post), post.PrevLead, b01(consumed || nprops == 0), showReady(rdp))
		c.Core(id, id+"\tS\t"+w.b.String(), id+"\t"+out)
		c.CoreStats.Emitted["S"]++
		member := map[uint64]bool{}
		for _, p := range pre.Prs {
			member[p.ID] = true
		}
		for _, p := range pre.LearnerPrs {
			member[p.ID] = true
		}
		for _, q := range in {
			c.CoreStats.MsgIn[int(q.m.Type)]++
			if !q.local && !member[q.m.From] {
				c.CoreStats.MsgInUnknown[int(q.m.Type)]++
			}
		}
	}
	nd.afterStepQueues()
	return rd, ok
}

func (nd *nodeRT) afterStepQueues() {
	nd.qMsgs, nd.qSnap, nd.qTicks = nil, nil, 0
	if st, ok := raft.VerifRaftState(nd.n, false); ok && st.QueuedProps == 0 {
		nd.qProps = nil
	}
}

// coreAdvance wraps Node.Advance
func (c *Cluster) coreAdvance(nd *nodeRT, rd *raft.Ready) {
	if c.Core == nil {
		nd.n.Advance(*rd)
		return
	}
	pre, _ := raft.VerifRaftState(nd.n, true)
	skip := coreSkipState(c, pre)
	var w ints
	okAll := true
	if skip == "" {
		okAll = c.writePre(&w, nd, pre)
	}
	// the parts of the Ready Advance looks at
	if rd.SoftState != nil {
		w.n(1, rd.SoftState.Lead, uint64(rd.SoftState.RaftState))
	} else {
		w.n(0)
	}
	if !raft.IsEmptyHardState(rd.HardState) {
		w.n(1, rd.HardState.Term, rd.HardState.Vote, rd.HardState.Commit)
	} else {
		w.n(0)
	}
	if n := len(rd.Entries); n > 0 {
		w.n(1, rd.Entries[n-1].Index, rd.Entries[n-1].Term)
	} else {
		w.n(0)
	}
	if n := len(rd.CommittedEntries); n > 0 {
		w.n(1, rd.CommittedEntries[n-1].Index)
	} else {
		w.n(0)
	}
	w.n(rd.Snapshot.Metadata.Index)
	nd.n.Advance(*rd)
	if skip == "" && !okAll {
		skip = "unencodable"
	}
	if skip != "" {
		c.CoreStats.Skipped[skip]++
		return
	}
	post, _ := raft.VerifRaftState(nd.n, true)
	c.coreN++
	id := fmt.Sprintf("KA%d", c.coreN)
	c.Core(id, id+"\tA\t"+w.b.String(), id+"\t"+showState(post)+" "+showPrev(post))
	c.CoreStats.Emitted["A"]++
}

// coreConf wraps the synchronous HandleConfChanged
func (c *Cluster) coreConf(nd *nodeRT, cc pb.ConfChange) {
	if c.Core == nil {
		nd.n.HandleConfChanged(cc)
		return
	}
	pre, _ := raft.VerifRaftState(nd.n, true)
	skip := coreSkipState(c, pre)
	var w ints
	okAll := true
	if skip == "" {
		okAll = c.writePre(&w, nd, pre)
	}
	w.n(uint64(cc.Type), cc.ReplicaID)
	panicked := ""
	func() {
		defer func() {
			if e := recover(); e != nil {
				panicked = fmt.Sprint(e)
			}
		}()
		nd.n.HandleConfChanged(cc)
	}()
	if skip == "" && !okAll {
		skip = "unencodable"
	}
	if skip != "" {
		c.CoreStats.Skipped[skip]++
	} else {
		c.coreN++
		id := fmt.Sprintf("KC%d", c.coreN)
		out := "panic"
		if panicked == "" {
			post, _ := raft.VerifRaftState(nd.n, true)
			out = showState(post) + " msgs=" + showMsgs(post.Msgs)
		}
		c.Core(id, id+"\tC\t"+w.b.String(), id+"\t"+out)
		c.CoreStats.Emitted["C"]++
	}
	if panicked != "" {
		panic(panicked)
	}
}
