// Package hx: small shared helpers for the verification harnesses (hex I/O, seeded PRNG, trace files).
package hx

import (
	"bufio"
	"encoding/hex"
	"fmt"
	"math/rand"
	"os"
	"strings"
)

// H encodes a byte string as hex; the empty string is "-" (so that fields are never empty).
func H(b []byte) string {
	if len(b) == 0 {
		return "-"
	}
	return hex.EncodeToString(b)
}

// UnH decodes H's format.
func UnH(s string) []byte {
	if s == "-" || s == "" {
		return []byte{}
	}
	b, err := hex.DecodeString(s)
	if err != nil {
		panic("bad hex: " + s)
	}
	return b
}

// HL encodes a list of byte strings, comma separated ("" for the empty list).
func HL(l [][]byte) string {
	p := make([]string, len(l))
	for i, b := range l {
		p[i] = H(b)
	}
	return strings.Join(p, ",")
}

func UnHL(s string) [][]byte {
	if s == "" {
		return nil
	}
	parts := strings.Split(s, ",")
	out := make([][]byte, len(parts))
	for i, p := range parts {
		out[i] = UnH(p)
	}
	return out
}

// Rng is the single PRNG all random choices of a harness run derive from.
type Rng struct{ *rand.Rand }

func NewRng(seed int64) *Rng { return &Rng{rand.New(rand.NewSource(seed))} }

func (r *Rng) Pick(n int) int { return r.Intn(n) }
func (r *Rng) Bytes(n int, alphabet []byte) []byte {
	b := make([]byte, n)
	for i := range b {
		if alphabet == nil {
			b[i] = byte(r.Intn(256))
		} else {
			b[i] = alphabet[r.Intn(len(alphabet))]
		}
	}
	return b
}
func (r *Rng) Chance(p float64) bool { return r.Float64() < p }

// Out is a buffered line writer that panics on error.
type Out struct {
	f *os.File
	w *bufio.Writer
}

func Create(path string) *Out {
	f, err := os.Create(path)
	if err != nil {
		panic(err)
	}
	return &Out{f, bufio.NewWriterSize(f, 1<<20)}
}
func (o *Out) Printf(format string, a ...interface{}) { fmt.Fprintf(o.w, format, a...) }
func (o *Out) Close()                                  { o.w.Flush(); o.f.Close() }

// ReadLines reads a whole file into lines (without trailing newline).
func ReadLines(path string) []string {
	b, err := os.ReadFile(path)
	if err != nil {
		panic(err)
	}
	s := strings.TrimRight(string(b), "\n")
	if s == "" {
		return nil
	}
	return strings.Split(s, "\n")
}

// Recover runs f and maps a Go panic to ("panic", true).
func Recover(f func()) (msg string, panicked bool) {
	defer func() {
		if r := recover(); r != nil {
			msg = fmt.Sprint(r)
			panicked = true
		}
	}()
	f()
	return "", false
}
